// C09 — double / long double reference for the priors, written from the class documentation
// (QuadraticPrior.h, RelativeDifferencePrior.h, LogcoshPrior.h, PLSPrior.h), not from the .cxx loops.
//
// Pairwise priors (documentation):
//    f = beta * sum_{r} sum_{dr : r+dr inside the image} w_dr * psi(x_r, x_{r+dr}) * kappa_r * kappa_{r+dr}
//      Quadratic : psi = (x-y)^2 / 4
//      RDP       : psi = 1/2 (x-y)^2 / (x + y + gamma |x-y| + epsilon)
//      Logcosh   : psi = 1/(2 s^2) log cosh(s (x-y))
// gradient / Hessian below are the exact derivatives of f for ANY weights (w_dr and w_-dr both enter);
// with symmetric weights they coincide with the documented g_r = sum_dr w_dr ... formula.
// Every run validates them against central differences of value() in long double (see anchor in the .cxx).
//
// PLS (documentation): phi_r = sqrt(alpha^2 + |grad f|_r^2 - <grad f, xi>_r^2), xi = grad v / sqrt(|grad v|^2 + eta^2),
//    grad = forward finite difference (no voxel sizes), missing forward neighbour -> 0; value = beta sum_r kappa_r phi_r.
#pragma once
#include <vector>
#include <cmath>
#include <cstdint>

namespace c09 {

struct Grid
{
  int nz = 1, ny = 1, nx = 1; // sizes
  int oz = 0, oy = 0, ox = 0; // first indices
  float vz = 1, vy = 1, vx = 1;
  float org_z = 0, org_y = 0, org_x = 0;
  int N() const { return nz * ny * nx; }
  int idx(int z, int y, int x) const { return (z * ny + y) * nx + x; } // zero-based coordinates
  bool inside(int z, int y, int x) const { return z >= 0 && z < nz && y >= 0 && y < ny && x >= 0 && x < nx; }
};

struct Weights
{
  int hz = 1, hy = 1, hx = 1; // half widths: index range -h..h
  std::vector<double> w;
  int size() const { return (2 * hz + 1) * (2 * hy + 1) * (2 * hx + 1); }
  int pos(int dz, int dy, int dx) const { return ((dz + hz) * (2 * hy + 1) + (dy + hy)) * (2 * hx + 1) + (dx + hx); }
  double at(int dz, int dy, int dx) const
  {
    if (dz < -hz || dz > hz || dy < -hy || dy > hy || dx < -hx || dx > hx)
      return 0.;
    return w[std::size_t(pos(dz, dy, dx))];
  }
  double& ref(int dz, int dy, int dx) { return w[std::size_t(pos(dz, dy, dx))]; }
};

//! documented default: x-voxel size divided by the Euclidean distance, 3x3x3 (or 1x3x3 for only_2D), centre 0
inline Weights
default_weights(const Grid& g, bool only_2D)
{
  Weights w;
  w.hz = only_2D ? 0 : 1;
  w.hy = w.hx = 1;
  w.w.assign(std::size_t(w.size()), 0.);
  for (int dz = -w.hz; dz <= w.hz; ++dz)
    for (int dy = -1; dy <= 1; ++dy)
      for (int dx = -1; dx <= 1; ++dx)
        {
          if (dz == 0 && dy == 0 && dx == 0)
            continue;
          const double X = double(dx) * g.vx, Y = double(dy) * g.vy, Z = double(dz) * g.vz;
          w.ref(dz, dy, dx) = double(g.vx) / std::sqrt(X * X + Y * Y + Z * Z);
        }
  return w;
}

enum Kind
{
  QUAD = 0,
  RDP = 1,
  LOGCOSH = 2,
  PLS = 3
};

template <class T>
struct Pot
{
  int kind = QUAD;
  T gamma = 0, eps = 0, s = 1;
  static T lcosh(T t)
  {
    using std::fabs;
    using std::exp;
    using std::log1p;
    using std::log;
    const T a = fabs(t);
    return a + log1p(exp(-2 * a)) - log(T(2));
  }
  static T sech2(T t)
  {
    using std::cosh;
    const T c = cosh(t);
    return 1 / (c * c);
  }
  T psi(T x, T y) const
  {
    using std::fabs;
    const T d = x - y;
    switch (kind)
      {
      case QUAD:
        return d * d / 4;
      case RDP:
        return d * d / (2 * (x + y + gamma * fabs(d) + eps));
      default:
        return lcosh(s * d) / (2 * s * s);
      }
  }
  //! d psi / d x
  T d1(T x, T y) const
  {
    using std::fabs;
    using std::tanh;
    const T d = x - y;
    switch (kind)
      {
      case QUAD:
        return d / 2;
      case RDP:
        {
          const T D = x + y + gamma * fabs(d) + eps;
          if (D == T(0))
            return T(0); // epsilon = 0 and x = y = 0 (non-negative images): the documented limit, RelativeDifferencePrior.h "If epsilon=0,
                         // we attempt to resolve 0/0 at lambda_r = lambda_{r+dr} = 0 by using the limit" / "derivative_10(x,x) limits to 0"
          return d * (x + 3 * y + gamma * fabs(d) + 2 * eps) / (2 * D * D);
        }
      default:
        return tanh(s * d) / (2 * s);
      }
  }
  //! d^2 psi / d x^2
  T d11(T x, T y) const
  {
    using std::fabs;
    const T d = x - y;
    switch (kind)
      {
      case QUAD:
        return T(1) / 2;
      case RDP:
        {
          const T D = x + y + gamma * fabs(d) + eps;
          return (2 * y + eps) * (2 * y + eps) / (D * D * D);
        }
      default:
        return sech2(s * d) / 2;
      }
  }
  //! d^2 psi / d x d y
  T d12(T x, T y) const
  {
    using std::fabs;
    const T d = x - y;
    switch (kind)
      {
      case QUAD:
        return -T(1) / 2;
      case RDP:
        {
          const T D = x + y + gamma * fabs(d) + eps;
          return -(2 * x + eps) * (2 * y + eps) / (D * D * D);
        }
      default:
        return -sech2(s * d) / 2;
      }
  }
  //! curvature of the parabolic surrogate (Erdogan & Fessler): omega(t) = psi'(t)/t with psi' the derivative entering the
  //! documented gradient (g_r = sum w psi'(d) kappa kappa); Quadratic: 1 ("sum of weighting coefficients"), Logcosh: tanh(st)/(st)
  T omega(T x, T y) const
  {
    using std::fabs;
    using std::tanh;
    const T t = s * (x - y);
    if (kind == QUAD)
      return 1;
    if (fabs(t) < T(1e-4))
      return 1 - t * t / 3;
    return tanh(t) / t;
  }
  //! conditioning of a single precision evaluation of sech^2(t), t = s*(x-y) rounded to float: relative error 2 t tanh(t) * 6e-8,
  //! i.e. the magnitude against which a float result has to be judged is |term| * (1 + 2|t|). 1 for the other priors.
  T cond2(T x, T y) const
  {
    using std::fabs;
    return kind == LOGCOSH ? 1 + 2 * fabs(s * (x - y)) : T(1);
  }
  //! absolute error model of STIR's single precision evaluation of log(cosh(t)) (LogcoshPrior.h: static float logcosh(float)):
  //! ~ FLT_EPSILON * (1 + 2|t|); returned in the unit of psi. Zero for the other priors.
  T value_float_floor(T x, T y) const
  {
    using std::fabs;
    if (kind != LOGCOSH)
      return 0;
    return T(1.2e-7) * (1 + 2 * fabs(s * (x - y))) / (2 * s * s);
  }
};

template <class T>
struct PairRef
{
  Grid g;
  Weights w;
  std::vector<double> kap; // empty: all 1
  Pot<T> pot;
  double beta = 1;

  T kk(int a, int b) const { return kap.empty() ? T(1) : T(kap[std::size_t(a)]) * T(kap[std::size_t(b)]); }

  //! value; *mag = sum of |terms|; *ffloor = absolute error model of a float evaluation (Logcosh only)
  T value(const std::vector<T>& x, T* mag = nullptr, T* ffloor = nullptr) const
  {
    using std::fabs;
    T sum = 0, m = 0, fl = 0;
    for (int z = 0; z < g.nz; ++z)
      for (int y = 0; y < g.ny; ++y)
        for (int xx = 0; xx < g.nx; ++xx)
          {
            const int r = g.idx(z, y, xx);
            for (int dz = -w.hz; dz <= w.hz; ++dz)
              for (int dy = -w.hy; dy <= w.hy; ++dy)
                for (int dx = -w.hx; dx <= w.hx; ++dx)
                  {
                    const double wt = w.at(dz, dy, dx);
                    if (wt == 0. || !g.inside(z + dz, y + dy, xx + dx))
                      continue;
                    const int r2 = g.idx(z + dz, y + dy, xx + dx);
                    const T k = kk(r, r2);
                    const T t = T(wt) * pot.psi(x[std::size_t(r)], x[std::size_t(r2)]) * k;
                    sum += t;
                    m += fabs(t);
                    fl += T(wt) * pot.value_float_floor(x[std::size_t(r)], x[std::size_t(r2)]) * k;
                  }
          }
    if (mag)
      *mag = m * T(beta);
    if (ffloor)
      *ffloor = fl * T(beta);
    return sum * T(beta);
  }

  template <class F>
  void for_neighbours(int z, int y, int xx, F f) const
  { // f(r2, w_dr + w_-dr, w_dr) for all dr != 0 with r+dr inside
    for (int dz = -w.hz; dz <= w.hz; ++dz)
      for (int dy = -w.hy; dy <= w.hy; ++dy)
        for (int dx = -w.hx; dx <= w.hx; ++dx)
          {
            if (dz == 0 && dy == 0 && dx == 0)
              continue; // psi(x,x) == 0 identically: no contribution to any derivative
            if (!g.inside(z + dz, y + dy, xx + dx))
              continue;
            const double ws = w.at(dz, dy, dx) + w.at(-dz, -dy, -dx);
            if (ws == 0.)
              continue;
            f(g.idx(z + dz, y + dy, xx + dx), ws, w.at(dz, dy, dx));
          }
  }

  void gradient(const std::vector<T>& x, std::vector<T>& grad, std::vector<T>* mag = nullptr) const
  {
    using std::fabs;
    grad.assign(x.size(), T(0));
    if (mag)
      mag->assign(x.size(), T(0));
    for (int z = 0; z < g.nz; ++z)
      for (int y = 0; y < g.ny; ++y)
        for (int xx = 0; xx < g.nx; ++xx)
          {
            const int r = g.idx(z, y, xx);
            T sum = 0, m = 0;
            for_neighbours(z, y, xx, [&](int r2, double ws, double) {
              const T t = T(ws) * pot.d1(x[std::size_t(r)], x[std::size_t(r2)]) * kk(r, r2);
              sum += t;
              m += fabs(t);
            });
            grad[std::size_t(r)] = sum * T(beta);
            if (mag)
              (*mag)[std::size_t(r)] = m * T(beta);
          }
  }

  void hess_times(const std::vector<T>& x, const std::vector<T>& v, std::vector<T>& out, std::vector<T>* mag = nullptr) const
  {
    using std::fabs;
    out.assign(x.size(), T(0));
    if (mag)
      mag->assign(x.size(), T(0));
    for (int z = 0; z < g.nz; ++z)
      for (int y = 0; y < g.ny; ++y)
        for (int xx = 0; xx < g.nx; ++xx)
          {
            const int r = g.idx(z, y, xx);
            T sum = 0, m = 0;
            for_neighbours(z, y, xx, [&](int r2, double ws, double) {
              const T k = kk(r, r2) * T(ws);
              const T a = k * pot.d11(x[std::size_t(r)], x[std::size_t(r2)]) * v[std::size_t(r)];
              const T b = k * pot.d12(x[std::size_t(r)], x[std::size_t(r2)]) * v[std::size_t(r2)];
              sum += a + b;
              m += (fabs(a) + fabs(b)) * pot.cond2(x[std::size_t(r)], x[std::size_t(r2)]);
            });
            out[std::size_t(r)] = sum * T(beta);
            if (mag)
              (*mag)[std::size_t(r)] = m * T(beta);
          }
  }

  //! row j of the Hessian on the full image (zeros outside the neighbourhood)
  void hess_row(const std::vector<T>& x, int jz, int jy, int jx, std::vector<T>& row, std::vector<T>* mag = nullptr) const
  {
    using std::fabs;
    row.assign(x.size(), T(0));
    if (mag)
      mag->assign(x.size(), T(0));
    const int r = g.idx(jz, jy, jx);
    T diag = 0, dmag = 0;
    for_neighbours(jz, jy, jx, [&](int r2, double ws, double) {
      const T k = kk(r, r2) * T(ws);
      const T c = pot.cond2(x[std::size_t(r)], x[std::size_t(r2)]);
      const T a = k * pot.d11(x[std::size_t(r)], x[std::size_t(r2)]);
      const T b = k * pot.d12(x[std::size_t(r)], x[std::size_t(r2)]) * T(beta);
      diag += a;
      dmag += fabs(a) * c;
      row[std::size_t(r2)] += b;
      if (mag)
        (*mag)[std::size_t(r2)] += fabs(b) * c;
    });
    row[std::size_t(r)] += diag * T(beta);
    if (mag)
      (*mag)[std::size_t(r)] += dmag * T(beta);
  }

  //! parabolic surrogate curvature: beta * sum_dr w_dr omega(x_r - x_{r+dr}) kappa kappa ("sum of weighting coefficients":
  //! the centre weight is a weighting coefficient too)
  void curvature(const std::vector<T>& x, std::vector<T>& out) const
  {
    out.assign(x.size(), T(0));
    for (int z = 0; z < g.nz; ++z)
      for (int y = 0; y < g.ny; ++y)
        for (int xx = 0; xx < g.nx; ++xx)
          {
            const int r = g.idx(z, y, xx);
            T sum = 0;
            for (int dz = -w.hz; dz <= w.hz; ++dz)
              for (int dy = -w.hy; dy <= w.hy; ++dy)
                for (int dx = -w.hx; dx <= w.hx; ++dx)
                  {
                    const double wt = w.at(dz, dy, dx);
                    if (wt == 0. || !g.inside(z + dz, y + dy, xx + dx))
                      continue;
                    const int r2 = g.idx(z + dz, y + dy, xx + dx);
                    sum += T(wt) * pot.omega(x[std::size_t(r)], x[std::size_t(r2)]) * kk(r, r2);
                  }
            out[std::size_t(r)] = sum * T(beta);
          }
  }

  template <class U>
  PairRef<U> as() const
  {
    PairRef<U> o;
    o.g = g;
    o.w = w;
    o.kap = kap;
    o.pot.kind = pot.kind;
    o.pot.gamma = U(pot.gamma);
    o.pot.eps = U(pot.eps);
    o.pot.s = U(pot.s);
    o.beta = beta;
    return o;
  }
};

template <class T>
struct PlsRef
{
  Grid g;
  bool only_2D = false;
  std::vector<double> kap;  // empty: all 1
  std::vector<double> anat; // anatomical image
  double eta = 1, alpha = 1, beta = 1;

  int ndir() const { return 3; }
  bool active(int d) const { return !(only_2D && d == 0); }
  //! index of the forward neighbour in direction d (0=z,1=y,2=x) or -1
  int fwd(int z, int y, int x, int d) const
  {
    const int z2 = z + (d == 0), y2 = y + (d == 1), x2 = x + (d == 2);
    return g.inside(z2, y2, x2) ? g.idx(z2, y2, x2) : -1;
  }
  int bwd(int z, int y, int x, int d) const
  {
    const int z2 = z - (d == 0), y2 = y - (d == 1), x2 = x - (d == 2);
    return g.inside(z2, y2, x2) ? g.idx(z2, y2, x2) : -1;
  }
  T kappa(int r) const { return kap.empty() ? T(1) : T(kap[std::size_t(r)]); }

  //! per voxel: phi and q^d = (g^d - <g,xi> xi^d)/phi
  void voxel(const std::vector<T>& x, int z, int y, int xx, T& phi, T q[3]) const
  {
    using std::sqrt;
    const int r = g.idx(z, y, xx);
    T gr[3] = { 0, 0, 0 }, a[3] = { 0, 0, 0 };
    T an2 = 0;
    for (int d = 0; d < 3; ++d)
      {
        if (!active(d))
          continue;
        const int f = fwd(z, y, xx, d);
        if (f < 0)
          continue;
        gr[d] = x[std::size_t(f)] - x[std::size_t(r)];
        a[d] = T(anat[std::size_t(f)]) - T(anat[std::size_t(r)]);
        an2 += a[d] * a[d];
      }
    const T norm = sqrt(an2 + T(eta) * T(eta));
    T ip = 0, g2 = 0;
    for (int d = 0; d < 3; ++d)
      {
        ip += gr[d] * a[d] / norm;
        g2 += gr[d] * gr[d];
      }
    phi = sqrt(T(alpha) * T(alpha) + g2 - ip * ip);
    for (int d = 0; d < 3; ++d)
      q[d] = (gr[d] - ip * a[d] / norm) / phi;
  }

  T value(const std::vector<T>& x, T* mag = nullptr, T* = nullptr) const
  {
    T sum = 0;
    for (int z = 0; z < g.nz; ++z)
      for (int y = 0; y < g.ny; ++y)
        for (int xx = 0; xx < g.nx; ++xx)
          {
            T phi, q[3];
            voxel(x, z, y, xx, phi, q);
            sum += kappa(g.idx(z, y, xx)) * phi;
          }
    if (mag)
      *mag = sum * T(beta);
    return sum * T(beta);
  }

  void gradient(const std::vector<T>& x, std::vector<T>& grad, std::vector<T>* mag = nullptr) const
  {
    using std::fabs;
    grad.assign(x.size(), T(0));
    if (mag)
      mag->assign(x.size(), T(0));
    for (int z = 0; z < g.nz; ++z)
      for (int y = 0; y < g.ny; ++y)
        for (int xx = 0; xx < g.nx; ++xx)
          {
            const int r = g.idx(z, y, xx);
            T phi, q[3];
            voxel(x, z, y, xx, phi, q);
            // d(kappa_r phi_r)/d x_r = -kappa_r sum_d q^d ; d/d x_{r+e_d} = +kappa_r q^d
            for (int d = 0; d < 3; ++d)
              {
                if (!active(d))
                  continue;
                const int f = fwd(z, y, xx, d);
                if (f < 0)
                  continue;
                const T t = kappa(r) * q[d] * T(beta);
                grad[std::size_t(r)] -= t;
                grad[std::size_t(f)] += t;
                if (mag)
                  {
                    (*mag)[std::size_t(r)] += fabs(t);
                    (*mag)[std::size_t(f)] += fabs(t);
                  }
              }
          }
  }

  template <class U>
  PlsRef<U> as() const
  {
    PlsRef<U> o;
    o.g = g;
    o.only_2D = only_2D;
    o.kap = kap;
    o.anat = anat;
    o.eta = eta;
    o.alpha = alpha;
    o.beta = beta;
    return o;
  }
};

} // namespace c09

// C17 (a) — registry round trip.
// For every entry of every registry the harness can name (entries = what list_registered_names reports at
// run time): take the text a default-constructed object of that type prints with parameter_info()
// (read_registered_object(0,name) is interactive and loops when the defaults do not pass post_processing,
// so the harness carries a table "registered name -> default constructor", copied from *_registries.cxx;
// a listed name without a constructor in the table is reported as not covered), edit a few scalar values in that text (grammar per value type, random keyword
// spelling: case / blanks / tabs / '_' / '!'), parse, print (normalising round), parse again, print again:
// the two prints must be identical strings; the spelling noise must not change the result.
// Entries whose own default text is refused (they need external files / data) are skipped and listed.
#include "c17_common.h"
#include "stir/RegisteredObject.h"
#include "stir/recon_buildblock/ProjMatrixByBin.h"
#include "stir/recon_buildblock/ForwardProjectorByBin.h"
#include "stir/recon_buildblock/BackProjectorByBin.h"
#include "stir/recon_buildblock/ProjectorByBinPair.h"
#include "stir/recon_buildblock/BinNormalisation.h"
#include "stir/recon_buildblock/GeneralisedPrior.h"
#include "stir/recon_buildblock/GeneralisedObjectiveFunction.h"
#include "stir/recon_buildblock/Reconstruction.h"
#include "stir/recon_buildblock/ProjDataRebinning.h"
#include "stir/DataProcessor.h"
#include "stir/DiscretisedDensity.h"
#include "stir/DynamicDiscretisedDensity.h"
#include "stir/modelling/ParametricDiscretisedDensity.h"
#include "stir/IO/OutputFileFormat.h"
#include "stir/Shape/Shape3D.h"
#include "stir/scatter/ScatterSimulation.h"
#include "stir/modelling/KineticModel.h"
#include "stir/data/SinglesRates.h"
#include "stir/spatial_transformation/SpatialTransformation.h"
// the registered classes themselves (list copied from the *_registries.cxx files of the library): needed to
// default-construct an object of each registered type without going through the interactive path
#include "stir/recon_buildblock/PoissonLogLikelihoodWithLinearModelForMeanAndProjData.h"
#include "stir/recon_buildblock/PoissonLogLikelihoodWithLinearModelForMeanAndListModeDataWithProjMatrixByBin.h"
#include "stir/recon_buildblock/PoissonLogLikelihoodWithLinearKineticModelAndDynamicProjectionData.h"
#include "stir/recon_buildblock/PoissonLogLikelihoodWithLinearModelForMeanAndGatedProjDataWithMotion.h"
#include "stir/recon_buildblock/FilterRootPrior.h"
#include "stir/recon_buildblock/QuadraticPrior.h"
#include "stir/recon_buildblock/PLSPrior.h"
#include "stir/recon_buildblock/RelativeDifferencePrior.h"
#include "stir/recon_buildblock/LogcoshPrior.h"
#include "stir/recon_buildblock/ProjMatrixByBinUsingRayTracing.h"
#include "stir/recon_buildblock/ProjMatrixByBinUsingInterpolation.h"
#include "stir/recon_buildblock/ProjMatrixByBinFromFile.h"
#include "stir/recon_buildblock/ProjMatrixByBinSPECTUB.h"
#include "stir/recon_buildblock/ProjMatrixByBinPinholeSPECTUB.h"
#include "stir/recon_buildblock/ForwardProjectorByBinUsingProjMatrixByBin.h"
#include "stir/recon_buildblock/ForwardProjectorByBinUsingRayTracing.h"
#include "stir/recon_buildblock/BackProjectorByBinUsingProjMatrixByBin.h"
#include "stir/recon_buildblock/BackProjectorByBinUsingInterpolation.h"
#include "stir/recon_buildblock/PresmoothingForwardProjectorByBin.h"
#include "stir/recon_buildblock/PostsmoothingBackProjectorByBin.h"
#include "stir/recon_buildblock/ProjectorByBinPairUsingProjMatrixByBin.h"
#include "stir/recon_buildblock/ProjectorByBinPairUsingSeparateProjectors.h"
#include "stir/recon_buildblock/TrivialBinNormalisation.h"
#include "stir/recon_buildblock/ChainedBinNormalisation.h"
#include "stir/recon_buildblock/BinNormalisationFromProjData.h"
#include "stir/recon_buildblock/BinNormalisationSPECT.h"
#include "stir/recon_buildblock/BinNormalisationFromAttenuationImage.h"
#include "stir/recon_buildblock/BinNormalisationFromECAT8.h"
#include "stir/recon_buildblock/FourierRebinning.h"
#include "stir/analytic/FBP2D/FBP2DReconstruction.h"
#include "stir/analytic/FBP3DRP/FBP3DRPReconstruction.h"
#include "stir/OSMAPOSL/OSMAPOSLReconstruction.h"
#include "stir/KOSMAPOSL/KOSMAPOSLReconstruction.h"
#include "stir/OSSPS/OSSPSReconstruction.h"
#include "stir/SeparableCartesianMetzImageFilter.h"
#include "stir/SeparableGaussianImageFilter.h"
#include "stir/MedianImageFilter3D.h"
#include "stir/MinimalImageFilter3D.h"
#include "stir/ChainedDataProcessor.h"
#include "stir/ThresholdMinToSmallPositiveValueDataProcessor.h"
#include "stir/SeparableConvolutionImageFilter.h"
#include "stir/NonseparableConvolutionUsingRealDFTImageFilter.h"
#include "stir/TruncateToCylindricalFOVImageProcessor.h"
#include "stir/HUToMuImageProcessor.h"
#include "stir/IO/InterfileOutputFileFormat.h"
#include "stir/IO/InterfileDynamicDiscretisedDensityOutputFileFormat.h"
#include "stir/IO/InterfileParametricDiscretisedDensityOutputFileFormat.h"
#include "stir/IO/MultiDynamicDiscretisedDensityOutputFileFormat.h"
#include "stir/IO/MultiParametricDiscretisedDensityOutputFileFormat.h"
#include "stir/Shape/Ellipsoid.h"
#include "stir/Shape/EllipsoidalCylinder.h"
#include "stir/Shape/Box3D.h"
#include "stir/Shape/DiscretisedShape3D.h"
#include "stir/scatter/SingleScatterSimulation.h"
#include "stir/modelling/PatlakPlot.h"
#include "stir/spatial_transformation/GatedSpatialTransformation.h"
#include <memory>
#include <functional>
#include <set>

using namespace vf;
using namespace stir;

namespace {

typedef DiscretisedDensity<3, float> Dens;

struct Entry
{
  std::string name;                            // registered name as listed by the registry
  std::function<std::string()> default_text;   // parameter_info() of a default-constructed object of that type (empty fn: type not in the table)
};
struct Reg
{
  std::string name;
  std::function<void(std::ostream&)> list;
  std::function<std::shared_ptr<RegisteredObjectBase>(std::istream*, const std::string&)> make;
  std::vector<Entry> entries; // filled at first use from list_registered_names
  std::map<std::string, std::function<std::string()>> ctors;
};

template <class Root>
Reg
reg(const char* n)
{
  Reg r;
  r.name = n;
  r.list = [](std::ostream& s) { Root::list_registered_names(s); };
  r.make = [](std::istream* in, const std::string& name) {
    return std::shared_ptr<RegisteredObjectBase>(Root::read_registered_object(in, name));
  };
  return r;
}
//! add the default constructor of a registered class T to its registry
template <class T>
void
ctor(Reg& r)
{
  r.ctors[c17::ref_standardise(T::registered_name)] = []() {
    T o;
    return o.parameter_info();
  };
}

typedef ParametricVoxelsOnCartesianGrid PVox;

std::vector<Reg>&
registries()
{
  static std::vector<Reg> v;
  if (v.empty())
    {
      {
        Reg r = reg<ProjMatrixByBin>("ProjMatrixByBin");
        ctor<ProjMatrixByBinUsingRayTracing>(r);
        ctor<ProjMatrixByBinUsingInterpolation>(r);
        ctor<ProjMatrixByBinFromFile>(r);
        ctor<ProjMatrixByBinSPECTUB>(r);
        ctor<ProjMatrixByBinPinholeSPECTUB>(r);
        v.push_back(r);
      }
      {
        Reg r = reg<ForwardProjectorByBin>("ForwardProjectorByBin");
        ctor<ForwardProjectorByBinUsingProjMatrixByBin>(r);
        ctor<ForwardProjectorByBinUsingRayTracing>(r);
        ctor<PresmoothingForwardProjectorByBin>(r);
        v.push_back(r);
      }
      {
        Reg r = reg<BackProjectorByBin>("BackProjectorByBin");
        ctor<BackProjectorByBinUsingProjMatrixByBin>(r);
        ctor<BackProjectorByBinUsingInterpolation>(r);
        ctor<PostsmoothingBackProjectorByBin>(r);
        v.push_back(r);
      }
      {
        Reg r = reg<ProjectorByBinPair>("ProjectorByBinPair");
        ctor<ProjectorByBinPairUsingProjMatrixByBin>(r);
        ctor<ProjectorByBinPairUsingSeparateProjectors>(r);
        v.push_back(r);
      }
      {
        Reg r = reg<BinNormalisation>("BinNormalisation");
        ctor<TrivialBinNormalisation>(r);
        ctor<ChainedBinNormalisation>(r);
        ctor<BinNormalisationFromProjData>(r);
        ctor<BinNormalisationFromAttenuationImage>(r);
        ctor<BinNormalisationSPECT>(r);
        ctor<ecat::BinNormalisationFromECAT8>(r);
        v.push_back(r);
      }
      {
        Reg r = reg<GeneralisedPrior<Dens>>("GeneralisedPrior<DiscretisedDensity<3,float>>");
        ctor<FilterRootPrior<Dens>>(r);
        ctor<QuadraticPrior<float>>(r);
        ctor<PLSPrior<float>>(r);
        ctor<RelativeDifferencePrior<float>>(r);
        ctor<LogcoshPrior<float>>(r);
        v.push_back(r);
      }
      v.push_back(reg<GeneralisedPrior<PVox>>("GeneralisedPrior<ParametricVoxelsOnCartesianGrid>"));
      {
        Reg r = reg<GeneralisedObjectiveFunction<Dens>>("GeneralisedObjectiveFunction<DiscretisedDensity<3,float>>");
        ctor<PoissonLogLikelihoodWithLinearModelForMeanAndProjData<Dens>>(r);
        ctor<PoissonLogLikelihoodWithLinearModelForMeanAndListModeDataWithProjMatrixByBin<Dens>>(r);
        ctor<PoissonLogLikelihoodWithLinearModelForMeanAndGatedProjDataWithMotion<Dens>>(r);
        v.push_back(r);
      }
      {
        Reg r = reg<GeneralisedObjectiveFunction<PVox>>("GeneralisedObjectiveFunction<ParametricVoxelsOnCartesianGrid>");
        ctor<PoissonLogLikelihoodWithLinearKineticModelAndDynamicProjectionData<PVox>>(r);
        v.push_back(r);
      }
      {
        Reg r = reg<DataProcessor<Dens>>("DataProcessor<DiscretisedDensity<3,float>>");
        ctor<MedianImageFilter3D<float>>(r);
        ctor<MinimalImageFilter3D<float>>(r);
        ctor<SeparableCartesianMetzImageFilter<float>>(r);
        ctor<SeparableGaussianImageFilter<float>>(r);
        ctor<SeparableConvolutionImageFilter<float>>(r);
        ctor<NonseparableConvolutionUsingRealDFTImageFilter<float>>(r);
        ctor<TruncateToCylindricalFOVImageProcessor<float>>(r);
        ctor<ChainedDataProcessor<Dens>>(r);
        ctor<ThresholdMinToSmallPositiveValueDataProcessor<Dens>>(r);
        ctor<HUToMuImageProcessor<Dens>>(r);
        v.push_back(r);
      }
      v.push_back(reg<DataProcessor<PVox>>("DataProcessor<ParametricVoxelsOnCartesianGrid>"));
      {
        Reg r = reg<OutputFileFormat<Dens>>("OutputFileFormat<DiscretisedDensity<3,float>>");
        ctor<InterfileOutputFileFormat>(r);
        v.push_back(r);
      }
      {
        Reg r = reg<OutputFileFormat<DynamicDiscretisedDensity>>("OutputFileFormat<DynamicDiscretisedDensity>");
        ctor<InterfileDynamicDiscretisedDensityOutputFileFormat>(r);
        ctor<MultiDynamicDiscretisedDensityOutputFileFormat>(r);
        v.push_back(r);
      }
      {
        Reg r = reg<OutputFileFormat<PVox>>("OutputFileFormat<ParametricVoxelsOnCartesianGrid>");
        ctor<InterfileParametricDiscretisedDensityOutputFileFormat<ParametricVoxelsOnCartesianGridBaseType>>(r);
        ctor<MultiParametricDiscretisedDensityOutputFileFormat<ParametricVoxelsOnCartesianGridBaseType>>(r);
        v.push_back(r);
      }
      {
        Reg r = reg<Shape3D>("Shape3D");
        ctor<Ellipsoid>(r);
        ctor<EllipsoidalCylinder>(r);
        ctor<DiscretisedShape3D>(r);
        ctor<Box3D>(r);
        v.push_back(r);
      }
      {
        Reg r = reg<Reconstruction<Dens>>("Reconstruction<DiscretisedDensity<3,float>>");
        ctor<FBP2DReconstruction>(r);
        ctor<FBP3DRPReconstruction>(r);
        ctor<OSMAPOSLReconstruction<Dens>>(r);
        ctor<KOSMAPOSLReconstruction<Dens>>(r);
        ctor<OSSPSReconstruction<Dens>>(r);
        v.push_back(r);
      }
      {
        Reg r = reg<Reconstruction<PVox>>("Reconstruction<ParametricVoxelsOnCartesianGrid>");
        ctor<OSMAPOSLReconstruction<PVox>>(r);
        ctor<OSSPSReconstruction<PVox>>(r);
        v.push_back(r);
      }
      {
        Reg r = reg<ProjDataRebinning>("ProjDataRebinning");
        ctor<FourierRebinning>(r);
        v.push_back(r);
      }
      {
        Reg r = reg<ScatterSimulation>("ScatterSimulation");
        ctor<SingleScatterSimulation>(r);
        v.push_back(r);
      }
      {
        Reg r = reg<KineticModel>("KineticModel");
        ctor<PatlakPlot>(r);
        v.push_back(r);
      }
      v.push_back(reg<SinglesRates>("SinglesRates"));
      {
        Reg r = reg<SpatialTransformation>("SpatialTransformation");
        ctor<GatedSpatialTransformation>(r);
        v.push_back(r);
      }
      // the entries are what the registries list at run time; the table above only supplies constructors
      for (Reg& r : v)
        {
          std::ostringstream s;
          r.list(s);
          for (const std::string& l : c17::split_lines(s.str()))
            if (!l.empty() && c17::ref_standardise(l) != "none") // "None" is the documented null entry (factory 0)
              {
                Entry e;
                e.name = l;
                auto it = r.ctors.find(c17::ref_standardise(l));
                if (it != r.ctors.end())
                  e.default_text = it->second;
                r.entries.push_back(e);
              }
        }
    }
  return v;
}

//! parameter_info() of a default-constructed object (cached; "" + why on failure)
const std::string&
default_text(Reg& r, Entry& e, std::string& why)
{
  static std::map<std::string, std::pair<std::string, std::string>> cache;
  const std::string id = r.name + "/" + e.name;
  auto it = cache.find(id);
  if (it == cache.end())
    {
      std::pair<std::string, std::string> v;
      if (!e.default_text)
        v.second = "registered type is not in the harness table of default constructors";
      else
        {
          try
            {
              v.first = e.default_text();
            }
          catch (const stir_verif::AssertionFailure& ex)
            {
              v.second = std::string("assertion in default construction: ") + ex.what();
            }
          catch (const std::exception& ex)
            {
              v.second = std::string("exception in default construction: ") + ex.what();
            }
        }
      it = cache.emplace(id, v).first;
    }
  why = it->second.second;
  return it->second.first;
}

std::shared_ptr<RegisteredObjectBase>
parse_text(Reg& r, const std::string& name, const std::string& text, std::string& why)
{
  std::istringstream in(text);
  try
    {
      auto o = r.make(&in, name);
      if (!o)
        why = "parse returned null";
      return o;
    }
  catch (const stir_verif::AssertionFailure&)
    {
      throw;
    }
  catch (const std::exception& e)
    {
      why = std::string("exception: ") + std::string(e.what()).substr(0, 200);
      return nullptr;
    }
}

// ---- text edits -----------------------------------------------------------------------------
struct Line
{
  std::string key, value;
  bool has_assign = false;
};
Line
split_line(const std::string& l)
{
  Line r;
  const auto p = l.find(":=");
  if (p == std::string::npos)
    {
      r.key = l;
      return r;
    }
  r.has_assign = true;
  r.key = l.substr(0, p);
  r.value = l.substr(p + 2);
  const auto a = r.value.find_first_not_of(" \t");
  const auto b = r.value.find_last_not_of(" \t");
  r.value = a == std::string::npos ? "" : r.value.substr(a, b - a + 1);
  return r;
}

bool
is_int(const std::string& v)
{
  if (v.empty())
    return false;
  std::size_t i = (v[0] == '-' || v[0] == '+') ? 1 : 0;
  if (i == v.size())
    return false;
  for (; i < v.size(); ++i)
    if (!isdigit((unsigned char)v[i]))
      return false;
  return v.size() < 10;
}
bool
is_float(const std::string& v)
{
  if (v.empty())
    return false;
  char* e = nullptr;
  const double d = std::strtod(v.c_str(), &e);
  (void)d;
  return e && *e == 0 && (isdigit((unsigned char)v[0]) || v[0] == '-' || v[0] == '.' || v[0] == '+') && std::isfinite(d);
}
bool
is_num_list(const std::string& v)
{
  if (v.size() < 3 || v.front() != '{' || v.back() != '}')
    return false;
  for (char c : v.substr(1, v.size() - 2))
    if (!(isdigit((unsigned char)c) || c == ',' || c == ' ' || c == '.' || c == '-' || c == 'e' || c == '+'))
      return false;
  return v.find_first_of("0123456789") != std::string::npos;
}

std::string
fmt_double(double d, int style)
{
  char buf[64];
  switch (style % 4)
    {
    case 0:
      std::snprintf(buf, sizeof buf, "%g", d);
      break;
    case 1:
      std::snprintf(buf, sizeof buf, "%.3e", d);
      break;
    case 2:
      std::snprintf(buf, sizeof buf, "%.4f", d);
      break;
    default:
      std::snprintf(buf, sizeof buf, "%E", d);
      break;
    }
  return buf;
}

//! new value text for a numeric default (mild changes: the object's post_processing should still accept it)
std::string
edit_value(const std::string& v, int kind, int a, bool& changed)
{
  changed = false;
  if (is_int(v))
    {
      const long x = std::atol(v.c_str());
      if (x == 0 || x == 1)
        { // could be a bool or a count: toggle inside {0,1} only
          changed = true;
          return x == 0 ? "1" : "0";
        }
      static const long deltas[] = { 1, -1, 2, 3, 5, 7 };
      long y = x + deltas[a % 6];
      if (kind % 3 == 1)
        y = x * 2;
      if ((x > 0 && y <= 0) || (x < 0 && y >= 0))
        y = x + 1; // keep the sign of the default (most integer keys are counts)
      changed = true;
      std::string s = std::to_string(y);
      if (kind % 5 == 4 && y > 0)
        s = "+" + s; // explicit sign is accepted by operator>>
      return s;
    }
  if (is_float(v))
    {
      const double x = std::strtod(v.c_str(), nullptr);
      static const double f[] = { 0.5, 2., 1.25, 0.75, 1.5, 3. };
      double y = (x == 0.) ? (a % 2 ? 0.5 : 1.5) : x * f[a % 6];
      changed = true;
      return fmt_double(y, kind);
    }
  if (is_num_list(v))
    {
      // scale every element of the list, keep the length
      std::string out = "{";
      std::string inner = v.substr(1, v.size() - 2);
      std::istringstream is(inner);
      std::string tok;
      bool first = true;
      while (std::getline(is, tok, ','))
        {
          const double x = std::strtod(tok.c_str(), nullptr);
          const bool integral = tok.find_first_of(".eE") == std::string::npos;
          if (!first)
            out += (kind % 2) ? " , " : ",";
          first = false;
          if (integral)
            out += std::to_string(long(x) + (long(x) > 0 ? 1 : 0));
          else
            out += fmt_double(x * 1.5, kind);
        }
      out += "}";
      changed = true;
      return out;
    }
  return v;
}

//! re-spell a keyword without changing its standardised form (documented: case, blanks, tabs, '_', '!' ignored)
std::string
noisy_key(const std::string& key, SplitMix& g)
{
  std::string o;
  if (g.range(0, 3) == 0)
    o += "!";
  if (g.range(0, 3) == 0)
    o += (g.range(0, 1) ? " " : "\t");
  for (char c : key)
    {
      if (c == ' ')
        {
          switch (g.range(0, 5))
            {
            case 0:
              o += "  ";
              break;
            case 1:
              o += "\t";
              break;
            case 2:
              o += "_";
              break;
            case 3:
              o += " _ ";
              break;
            default:
              o += " ";
            }
        }
      else if (isalpha((unsigned char)c) && g.range(0, 2) == 0)
        o += char(toupper((unsigned char)c));
      else
        o += c;
    }
  if (g.range(0, 2) == 0)
    o += (g.range(0, 1) ? "  " : "\t");
  return o;
}

bool g_last_nontrivial = false;

//! which registry a "... := None" parsing key most likely belongs to (a wrong guess only costs a rejected case)
int
guess_registry_for_key(const std::string& key_std)
{
  auto& R = registries();
  auto find = [&](const char* n) {
    for (std::size_t i = 0; i < R.size(); ++i)
      if (R[i].name == n)
        return int(i);
    return -1;
  };
  auto has = [&](const char* t) { return key_std.find(t) != std::string::npos; };
  if (has("prior"))
    return find("GeneralisedPrior<DiscretisedDensity<3,float>>");
  if (has("projector pair"))
    return find("ProjectorByBinPair");
  if (has("forward projector"))
    return find("ForwardProjectorByBin");
  if (has("back projector"))
    return find("BackProjectorByBin");
  if (has("matrix type"))
    return find("ProjMatrixByBin");
  if (has("normalisation"))
    return find("BinNormalisation");
  if (has("objective function"))
    return find("GeneralisedObjectiveFunction<DiscretisedDensity<3,float>>");
  if (has("output file format") || has("output format"))
    return find("OutputFileFormat<DiscretisedDensity<3,float>>");
  if (has("filter") || has("processor"))
    return find("DataProcessor<DiscretisedDensity<3,float>>");
  if (has("shape"))
    return find("Shape3D");
  if (has("scatter simulation"))
    return find("ScatterSimulation");
  return -1;
}

// ---- "workable" texts ---------------------------------------------------------------------------
// Many defaults are deliberately invalid (zero lengths, no projection matrix, no file name).  At start-up the
// harness derives, deterministically, for every entry a text that the entry's own parser accepts, if it can:
// the default text; else the default text with every numeric 0 replaced by 1; else, round by round, one
// "<...> := None" parsing key given the first already workable entry of the guessed registry that makes it
// parse.  Entries for which none works need external data and are only visited rarely.
struct Work
{
  std::string text;
  bool pure_default = false;
};
std::string
fill_zeros(const std::string& t)
{
  std::vector<std::string> lines = c17::split_lines(t);
  for (std::string& ln : lines)
    {
      const Line l = split_line(ln);
      if (l.has_assign && l.value == "0")
        ln = l.key + ":= 1";
    }
  return c17::join_lines(lines);
}
std::map<std::string, Work>&
workable()
{
  static std::map<std::string, Work> w;
  static bool built = false;
  if (built)
    return w;
  built = true;
  auto& R = registries();
  auto accepts = [&](Reg& r, Entry& e, const std::string& text) {
    std::string why;
    try
      {
        return parse_text(r, e.name, text, why) != nullptr;
      }
    catch (...)
      {
        return false;
      }
  };
  for (Reg& r : R)
    for (Entry& e : r.entries)
      {
        std::string why;
        const std::string t0 = default_text(r, e, why);
        if (t0.empty())
          continue;
        const std::string id = r.name + "/" + e.name;
        if (accepts(r, e, t0))
          w[id] = Work{ t0, true };
        else if (accepts(r, e, fill_zeros(t0)))
          w[id] = Work{ fill_zeros(t0), false };
      }
  for (int round = 0; round < 3; ++round)
    for (Reg& r : R)
      for (Entry& e : r.entries)
        {
          const std::string id = r.name + "/" + e.name;
          if (w.count(id))
            continue;
          std::string why;
          const std::string t0 = default_text(r, e, why);
          if (t0.empty())
            continue;
          bool done = false;
          for (const std::string& base : { t0, fill_zeros(t0) })
            {
              std::vector<std::string> lines = c17::split_lines(base);
              for (std::size_t i = 0; i < lines.size() && !done; ++i)
                {
                  const Line l = split_line(lines[i]);
                  if (!l.has_assign || c17::ref_standardise(l.value) != "none")
                    continue;
                  const int ri = guess_registry_for_key(c17::ref_standardise(l.key));
                  if (ri < 0)
                    continue;
                  Reg& nr = R[std::size_t(ri)];
                  for (Entry& ne : nr.entries)
                    {
                      auto it = w.find(nr.name + "/" + ne.name);
                      if (it == w.end())
                        continue;
                      std::vector<std::string> cand = lines;
                      std::vector<std::string> block = c17::split_lines(it->second.text);
                      cand[i] = l.key + ":= " + ne.name;
                      cand.insert(cand.begin() + std::ptrdiff_t(i) + 1, block.begin(), block.end());
                      const std::string t = c17::join_lines(cand);
                      if (accepts(r, e, t))
                        {
                          w[id] = Work{ t, false };
                          done = true;
                          break;
                        }
                    }
                }
              if (done)
                break;
              // all "None" keys at once, each with the first workable entry of its guessed registry
              {
                std::vector<std::string> cand;
                bool any = false;
                for (const std::string& ln : lines)
                  {
                    const Line l = split_line(ln);
                    const int ri = (l.has_assign && c17::ref_standardise(l.value) == "none") ? guess_registry_for_key(c17::ref_standardise(l.key)) : -1;
                    bool put = false;
                    if (ri >= 0)
                      for (Entry& ne : R[std::size_t(ri)].entries)
                        {
                          auto it = w.find(R[std::size_t(ri)].name + "/" + ne.name);
                          if (it == w.end() || !it->second.pure_default)
                            continue;
                          cand.push_back(l.key + ":= " + ne.name);
                          for (const std::string& b : c17::split_lines(it->second.text))
                            cand.push_back(b);
                          put = any = true;
                          break;
                        }
                    if (!put)
                      cand.push_back(ln);
                  }
                const std::string t = c17::join_lines(cand);
                if (any && accepts(r, e, t))
                  {
                    w[id] = Work{ t, false };
                    break;
                  }
              }
            }
        }
  return w;
}
//! (registry index, entry index) of all workable entries, in table order
const std::vector<std::pair<int, int>>&
workable_list()
{
  static std::vector<std::pair<int, int>> v;
  if (v.empty())
    {
      auto& R = registries();
      auto& w = workable();
      for (std::size_t ri = 0; ri < R.size(); ++ri)
        for (std::size_t ei = 0; ei < R[ri].entries.size(); ++ei)
          if (w.count(R[ri].name + "/" + R[ri].entries[ei].name))
            v.push_back({ int(ri), int(ei) });
    }
  return v;
}

json
gen(Src& s, int size)
{
  auto& R = registries();
  json c;
  const auto& wl = workable_list();
  if (!wl.empty() && !s.chance(1, 25))
    {
      const auto& pr = wl[std::size_t(s.range(0, long(wl.size()) - 1))];
      c["reg"] = pr.first;
      c["ent"] = pr.second;
    }
  else
    { // any entry of any registry (mostly rejected: needs external data)
      c["reg"] = int(s.range(0, long(R.size()) - 1));
      c["ent"] = int(s.range(0, 63));
    }
  c["base"] = s.chance(1, 8) ? "default" : "workable";
  json edits = json::array();
  const int n = int(s.small(1, 1 + size / 25));
  for (int i = 0; i < n; ++i)
    edits.push_back({ int(s.range(0, 199)), int(s.range(0, 19)), int(s.range(0, 11)) });
  c["edits"] = edits;
  // optional: give one "<something> := None" parsing key a registered type with that type's default block
  json nest = json::array();
  const int nn = s.chance(1, 2) ? int(s.range(1, 2)) : 0;
  for (int i = 0; i < nn; ++i)
    nest.push_back({ int(s.range(0, 31)), int(s.range(0, 63)) });
  c["nest"] = nest;
  // "fill": every numeric 0 becomes 1 first (many defaults are deliberately invalid: zero lengths, radii, ...)
  c["fill"] = s.chance(1, 8);
  c["noise"] = s.chance(1, 2) ? long(s.range(1, 1 << 30)) : 0L;
  return c;
}

Result
check(const json& c)
{
  c17::quiet();
  g_last_nontrivial = false;
  auto& R = registries();
  Reg& r = R[std::size_t(c["reg"].get<int>()) % R.size()];
  if (r.entries.empty())
    {
      stats().count("registry without entries in this build: " + r.name);
      return Result::reject("registry without entries: " + r.name);
    }
  Entry& ent = r.entries[std::size_t(c["ent"].get<int>()) % r.entries.size()];
  const std::string name = ent.name;
  const std::string id = r.name + "/" + name;
  stats().cls("registry:" + r.name);

  // internal assertions stay on: a failed one on generated text is reported (class ASSERT)
  std::string why;
  const std::string t0 = default_text(r, ent, why);
  if (t0.empty())
    {
      stats().count("skipped (no default object): " + id + " :: " + why.substr(0, 120));
      return Result::reject("no default object: " + id + " :: " + why.substr(0, 160));
    }

  // ---- generated text G
  const auto& W = workable();
  const auto wit = W.find(id);
  const bool from_default = c.value("base", std::string("workable")) == "default" || wit == W.end() || wit->second.pure_default;
  std::vector<std::string> lines = c17::split_lines(from_default ? t0 : wit->second.text);
  int changed_lines = from_default ? 0 : 1;
  if (!from_default)
    stats().cls("base text: derived workable text (defaults refused)");
  // nested objects: replace "key := None" by "key := <Name>" followed by <Name>'s default block
  if (c.contains("nest"))
    for (const auto& ne_j : c["nest"])
      {
        std::vector<std::size_t> none_lines;
        for (std::size_t i = 0; i < lines.size(); ++i)
          {
            const Line l = split_line(lines[i]);
            if (l.has_assign && c17::ref_standardise(l.value) == "none")
              none_lines.push_back(i);
          }
        if (none_lines.empty())
          break;
        const std::size_t i = none_lines[std::size_t(ne_j[0].get<int>()) % none_lines.size()];
        const Line l = split_line(lines[i]);
        const int ri = guess_registry_for_key(c17::ref_standardise(l.key));
        if (ri < 0 || R[std::size_t(ri)].entries.empty())
          continue;
        Reg& nr = R[std::size_t(ri)];
        std::vector<std::size_t> ok; // workable entries of that registry
        for (std::size_t k = 0; k < nr.entries.size(); ++k)
          if (W.count(nr.name + "/" + nr.entries[k].name))
            ok.push_back(k);
        if (ok.empty())
          continue;
        Entry& ne = nr.entries[ok[std::size_t(ne_j[1].get<int>()) % ok.size()]];
        const std::string nt = W.find(nr.name + "/" + ne.name)->second.text;
        std::vector<std::string> block = c17::split_lines(nt);
        lines[i] = l.key + ":= " + ne.name;
        lines.insert(lines.begin() + std::ptrdiff_t(i) + 1, block.begin(), block.end());
        ++changed_lines;
        stats().cls("nested parsing object given a type");
      }
  if (c.value("fill", false))
    for (std::string& ln : lines)
      {
        const Line l = split_line(ln);
        if (l.has_assign && l.value == "0")
          {
            ln = l.key + ":= 1";
            ++changed_lines;
          }
      }
  // candidate lines: "key := value" with a numeric / numeric-list value
  std::vector<std::size_t> cand;
  for (std::size_t i = 0; i < lines.size(); ++i)
    {
      const Line l = split_line(lines[i]);
      if (l.has_assign && (is_int(l.value) || is_float(l.value) || is_num_list(l.value)))
        cand.push_back(i);
    }
  if (!cand.empty())
    for (const auto& e : c["edits"])
      {
        const std::size_t i = cand[std::size_t(e[0].get<int>()) % cand.size()];
        Line l = split_line(lines[i]);
        bool ch = false;
        const std::string nv = edit_value(l.value, e[1].get<int>(), e[2].get<int>(), ch);
        if (ch)
          {
            lines[i] = l.key + ":= " + nv;
            ++changed_lines;
          }
      }
  const std::string G = c17::join_lines(lines);
  const bool edited = changed_lines > 0;

  auto o1 = parse_text(r, name, G, why);
  if (!o1)
    {
      if (!edited)
        {
          stats().count("skipped (own default text refused; needs external data?): " + id + " :: " + why.substr(0, 100));
          return Result::reject("default text of " + id + " refused :: " + why.substr(0, 160));
        }
      return Result::reject("edited text refused: " + id);
    }
  const std::string t1 = o1->parameter_info();
  auto o2 = parse_text(r, name, t1, why);
  VF_CHECK(o2 != nullptr, "the text an accepted object prints for itself is refused: ", id, " :: ", why, "\n--- printed text:\n", t1);
  const std::string t2 = o2->parameter_info();
  VF_CHECK(t2 == t1, "parameter_info is not reproduced after re-parsing: ", id, "\n--- first print:\n", t1, "\n--- second print:\n", t2);
  if (!edited)
    {
      // the default object itself: its own text must reproduce it
      // (compared without blank lines: a default-constructed object may hold a "None"-named default sub-object that
      //  prints an empty block, which the first parse normalises away; values and keys must be identical)
      auto squeeze = [](const std::string& t) {
        std::string o;
        for (const std::string& l : c17::split_lines(t))
          {
            const auto b = l.find_last_not_of(" \t");
            if (b != std::string::npos)
              o += l.substr(0, b + 1) + "\n";
          }
        return o;
      };
      VF_CHECK(squeeze(t1) == squeeze(t0), "default object of ", id, " prints\n", t0, "\n--- but after re-parsing that text prints\n", t1);
      if (t1 != t0)
        stats().count("default print differs from re-parsed print by blank lines only: " + id);
    }
  // a third generation must be stable as well (catches drift)
  auto o3 = parse_text(r, name, t2, why);
  VF_CHECK(o3 != nullptr, "third generation refused: ", id, " :: ", why);
  VF_CHECK(o3->parameter_info() == t2, "third print differs: ", id);

  // ---- keyword spelling noise must not change anything (documented matching rule)
  const long noise = c["noise"].get<long>();
  if (noise != 0)
    {
      SplitMix g{ uint64_t(noise) };
      std::vector<std::string> nl = lines;
      for (std::string& l : nl)
        {
          const Line s = split_line(l);
          if (!s.has_assign || s.key.find_first_not_of(" \t") == std::string::npos)
            continue;
          std::string k = s.key;
          const auto b = k.find_last_not_of(" \t");
          k = k.substr(0, b + 1);
          const auto a = k.find_first_not_of(" \t");
          k = k.substr(a);
          l = noisy_key(k, g) + ":=" + (g.range(0, 1) ? " " : "\t ") + s.value
              // (documented: a continuation backslash has to be the very last character of the line)
              + ((g.range(0, 3) == 0 && (s.value.empty() || s.value.back() != '\\')) ? "  " : "");
        }
      const std::string GN = c17::join_lines(nl);
      auto on = parse_text(r, name, GN, why);
      VF_CHECK(on != nullptr, "re-spelled keywords (case/blank/tab/_/!) make the text unparsable: ", id, " :: ", why, "\n", GN);
      const std::string tn = on->parameter_info();
      VF_CHECK(tn == t1, "re-spelled keywords change the parsed object: ", id, "\n--- plain:\n", t1, "\n--- re-spelled input:\n", GN,
               "\n--- result:\n", tn);
      stats().cls("keyword spelling noise");
    }
  if (edited && t1 != t0)
    {
      g_last_nontrivial = true;
      stats().cls("parameter changed from default");
    }
  else if (edited)
    stats().cls("edit without visible effect");
  else
    stats().cls("defaults only");
  stats().count("entry ok: " + id);
  return Result::pass();
}

bool
nontrivial(const json&)
{
  return g_last_nontrivial;
}

//! every (registry, entry) once without edits, then once with one edit of each kind
bool
enumerate(uint64_t idx, int, json& c)
{
  auto& R = registries();
  uint64_t k = idx;
  for (int pass = 0; pass < 2; ++pass)
    for (std::size_t ri = 0; ri < R.size(); ++ri)
      {
        const uint64_t n = R[ri].entries.empty() ? 1 : R[ri].entries.size();
        if (k < n)
          {
            c = json::object();
            c["reg"] = int(ri);
            c["ent"] = int(k);
            c["edits"] = json::array();
            if (pass == 1)
              c["edits"].push_back({ int(k * 7 + ri), 0, int(k) });
            c["nest"] = json::array();
            c["fill"] = false;
            c["base"] = pass == 1 ? "workable" : "default";
            c["noise"] = pass == 1 ? long(1000 + k) : 0L;
            return true;
          }
        k -= n;
      }
  return false;
}

} // namespace

const Property&
the_property()
{
  static Property p;
  p.id = "C17";
  p.gen = gen;
  p.check = check;
  p.nontrivial = nontrivial;
  p.enumerate = enumerate;
  p.shrink_lists = { "edits" };
  p.rule = "";
  return p;
}

// C17 (a) — registry round trip.
// For every entry of every registry the harness can name: build the default object (the documented way to
// obtain an object from a registered name without text is read_registered_object(0,name), i.e. the
// interactive path; std::cin is at EOF so every question keeps its default), print it with
// parameter_info(), edit a few scalar values in that text (grammar per value type, random keyword
// spelling: case / blanks / tabs / '_' / '!'), parse, print (normalising round), parse again, print again:
// the two prints must be identical strings; the spelling noise must not change the result.
// Entries whose own default text is refused (they need external files / data) are skipped and listed.
#include "c17_common.h"
#include "stir/RegisteredObject.h"
#include "stir/recon_buildblock/ProjMatrixByBin.h"
#include "stir/recon_buildblock/ForwardProjectorByBin.h"
#include "stir/recon_buildblock/BackProjectorByBin.h"
#include "stir/recon_buildblock/ProjectorByBinPair.h"
#include "stir/recon_buildblock/BinNormalisation.h"
#include "stir/recon_buildblock/GeneralisedPrior.h"
#include "stir/recon_buildblock/GeneralisedObjectiveFunction.h"
#include "stir/recon_buildblock/Reconstruction.h"
#include "stir/recon_buildblock/ProjDataRebinning.h"
#include "stir/DataProcessor.h"
#include "stir/DiscretisedDensity.h"
#include "stir/DynamicDiscretisedDensity.h"
#include "stir/modelling/ParametricDiscretisedDensity.h"
#include "stir/IO/OutputFileFormat.h"
#include "stir/Shape/Shape3D.h"
#include "stir/scatter/ScatterSimulation.h"
#include "stir/modelling/KineticModel.h"
#include "stir/data/SinglesRates.h"
#include "stir/spatial_transformation/SpatialTransformation.h"
#include <memory>
#include <functional>
#include <set>

using namespace vf;
using namespace stir;

namespace {

typedef DiscretisedDensity<3, float> Dens;

struct GuardTrip : std::runtime_error
{
  using std::runtime_error::runtime_error;
};
//! stream buffer that swallows output and throws once more than `limit` bytes have been written: an
//! interactive loop that keeps asking (no input will ever come) is cut instead of hanging the harness
struct CountingBuf : std::streambuf
{
  std::size_t n = 0, limit;
  explicit CountingBuf(std::size_t l) : limit(l) {}
  void add(std::size_t k)
  {
    n += k;
    if (n > limit)
      throw GuardTrip("interactive construction keeps asking (no terminal): not default-constructible without input");
  }
  int overflow(int c) override
  {
    add(1);
    return c;
  }
  std::streamsize xsputn(const char*, std::streamsize k) override
  {
    add(std::size_t(k));
    return k;
  }
};

struct Reg
{
  std::string name;
  std::function<void(std::ostream&)> list;
  std::function<std::shared_ptr<RegisteredObjectBase>(std::istream*, const std::string&)> make;
  std::vector<std::string> entries; // filled at first use
};

template <class Root>
Reg
reg(const char* n)
{
  Reg r;
  r.name = n;
  r.list = [](std::ostream& s) { Root::list_registered_names(s); };
  r.make = [](std::istream* in, const std::string& name) {
    return std::shared_ptr<RegisteredObjectBase>(Root::read_registered_object(in, name));
  };
  return r;
}

std::vector<Reg>&
registries()
{
  static std::vector<Reg> v;
  if (v.empty())
    {
      v.push_back(reg<ProjMatrixByBin>("ProjMatrixByBin"));
      v.push_back(reg<ForwardProjectorByBin>("ForwardProjectorByBin"));
      v.push_back(reg<BackProjectorByBin>("BackProjectorByBin"));
      v.push_back(reg<ProjectorByBinPair>("ProjectorByBinPair"));
      v.push_back(reg<BinNormalisation>("BinNormalisation"));
      v.push_back(reg<GeneralisedPrior<Dens>>("GeneralisedPrior<DiscretisedDensity<3,float>>"));
      v.push_back(reg<GeneralisedPrior<ParametricVoxelsOnCartesianGrid>>("GeneralisedPrior<ParametricVoxelsOnCartesianGrid>"));
      v.push_back(reg<GeneralisedObjectiveFunction<Dens>>("GeneralisedObjectiveFunction<DiscretisedDensity<3,float>>"));
      v.push_back(reg<GeneralisedObjectiveFunction<ParametricVoxelsOnCartesianGrid>>(
          "GeneralisedObjectiveFunction<ParametricVoxelsOnCartesianGrid>"));
      v.push_back(reg<DataProcessor<Dens>>("DataProcessor<DiscretisedDensity<3,float>>"));
      v.push_back(reg<DataProcessor<ParametricVoxelsOnCartesianGrid>>("DataProcessor<ParametricVoxelsOnCartesianGrid>"));
      v.push_back(reg<OutputFileFormat<Dens>>("OutputFileFormat<DiscretisedDensity<3,float>>"));
      v.push_back(reg<OutputFileFormat<DynamicDiscretisedDensity>>("OutputFileFormat<DynamicDiscretisedDensity>"));
      v.push_back(reg<OutputFileFormat<ParametricVoxelsOnCartesianGrid>>("OutputFileFormat<ParametricVoxelsOnCartesianGrid>"));
      v.push_back(reg<Shape3D>("Shape3D"));
      v.push_back(reg<Reconstruction<Dens>>("Reconstruction<DiscretisedDensity<3,float>>"));
      v.push_back(reg<Reconstruction<ParametricVoxelsOnCartesianGrid>>("Reconstruction<ParametricVoxelsOnCartesianGrid>"));
      v.push_back(reg<ProjDataRebinning>("ProjDataRebinning"));
      v.push_back(reg<ScatterSimulation>("ScatterSimulation"));
      v.push_back(reg<KineticModel>("KineticModel"));
      v.push_back(reg<SinglesRates>("SinglesRates"));
      v.push_back(reg<SpatialTransformation>("SpatialTransformation"));
      for (Reg& r : v)
        {
          std::ostringstream s;
          r.list(s);
          for (const std::string& l : c17::split_lines(s.str()))
            if (!l.empty() && c17::ref_standardise(l) != "none") // "None" is the documented null entry (factory 0)
              r.entries.push_back(l);
        }
    }
  return v;
}

//! default object through the interactive path with all answers empty
std::shared_ptr<RegisteredObjectBase>
make_default(Reg& r, const std::string& name, std::string& why)
{
  CountingBuf cb_out(200000), cb_err(200000);
  std::streambuf* old_out = std::cout.rdbuf(&cb_out);
  std::streambuf* old_err = std::cerr.rdbuf(&cb_err);
  const auto old_oe = std::cout.exceptions();
  const auto old_ee = std::cerr.exceptions();
  std::cout.exceptions(std::ios::badbit);
  std::cerr.exceptions(std::ios::badbit);
  std::cin.clear();
  std::cin.setstate(std::ios::eofbit | std::ios::failbit);
  std::shared_ptr<RegisteredObjectBase> o;
  try
    {
      o = r.make(nullptr, name);
      if (!o)
        why = "factory returned null";
    }
  catch (const std::exception& e)
    {
      why = std::string("exception: ") + e.what();
      o.reset();
    }
  std::cout.exceptions(std::ios::goodbit);
  std::cerr.exceptions(std::ios::goodbit);
  std::cout.clear();
  std::cerr.clear();
  std::cout.rdbuf(old_out);
  std::cerr.rdbuf(old_err);
  std::cout.exceptions(old_oe);
  std::cerr.exceptions(old_ee);
  return o;
}

std::shared_ptr<RegisteredObjectBase>
parse_text(Reg& r, const std::string& name, const std::string& text, std::string& why)
{
  std::istringstream in(text);
  try
    {
      auto o = r.make(&in, name);
      if (!o)
        why = "parse returned null";
      return o;
    }
  catch (const stir_verif::AssertionFailure&)
    {
      throw;
    }
  catch (const std::exception& e)
    {
      why = std::string("exception: ") + std::string(e.what()).substr(0, 200);
      return nullptr;
    }
}

// ---- text edits -----------------------------------------------------------------------------
struct Line
{
  std::string key, value;
  bool has_assign = false;
};
Line
split_line(const std::string& l)
{
  Line r;
  const auto p = l.find(":=");
  if (p == std::string::npos)
    {
      r.key = l;
      return r;
    }
  r.has_assign = true;
  r.key = l.substr(0, p);
  r.value = l.substr(p + 2);
  const auto a = r.value.find_first_not_of(" \t");
  const auto b = r.value.find_last_not_of(" \t");
  r.value = a == std::string::npos ? "" : r.value.substr(a, b - a + 1);
  return r;
}

bool
is_int(const std::string& v)
{
  if (v.empty())
    return false;
  std::size_t i = (v[0] == '-' || v[0] == '+') ? 1 : 0;
  if (i == v.size())
    return false;
  for (; i < v.size(); ++i)
    if (!isdigit((unsigned char)v[i]))
      return false;
  return v.size() < 10;
}
bool
is_float(const std::string& v)
{
  if (v.empty())
    return false;
  char* e = nullptr;
  const double d = std::strtod(v.c_str(), &e);
  (void)d;
  return e && *e == 0 && (isdigit((unsigned char)v[0]) || v[0] == '-' || v[0] == '.' || v[0] == '+') && std::isfinite(d);
}
bool
is_num_list(const std::string& v)
{
  if (v.size() < 3 || v.front() != '{' || v.back() != '}')
    return false;
  for (char c : v.substr(1, v.size() - 2))
    if (!(isdigit((unsigned char)c) || c == ',' || c == ' ' || c == '.' || c == '-' || c == 'e' || c == '+'))
      return false;
  return v.find_first_of("0123456789") != std::string::npos;
}

std::string
fmt_double(double d, int style)
{
  char buf[64];
  switch (style % 4)
    {
    case 0:
      std::snprintf(buf, sizeof buf, "%g", d);
      break;
    case 1:
      std::snprintf(buf, sizeof buf, "%.3e", d);
      break;
    case 2:
      std::snprintf(buf, sizeof buf, "%.4f", d);
      break;
    default:
      std::snprintf(buf, sizeof buf, "%E", d);
      break;
    }
  return buf;
}

//! new value text for a numeric default (mild changes: the object's post_processing should still accept it)
std::string
edit_value(const std::string& v, int kind, int a, bool& changed)
{
  changed = false;
  if (is_int(v))
    {
      const long x = std::atol(v.c_str());
      if (x == 0 || x == 1)
        { // could be a bool or a count: toggle inside {0,1} only
          changed = true;
          return x == 0 ? "1" : "0";
        }
      static const long deltas[] = { 1, -1, 2, 3, 5, 7 };
      long y = x + deltas[a % 6];
      if (kind % 3 == 1)
        y = x * 2;
      if ((x > 0 && y <= 0) || (x < 0 && y >= 0))
        y = x + 1; // keep the sign of the default (most integer keys are counts)
      changed = true;
      std::string s = std::to_string(y);
      if (kind % 5 == 4 && y > 0)
        s = "+" + s; // explicit sign is accepted by operator>>
      return s;
    }
  if (is_float(v))
    {
      const double x = std::strtod(v.c_str(), nullptr);
      static const double f[] = { 0.5, 2., 1.25, 0.75, 1.5, 3. };
      double y = (x == 0.) ? (a % 2 ? 0.5 : 1.5) : x * f[a % 6];
      changed = true;
      return fmt_double(y, kind);
    }
  if (is_num_list(v))
    {
      // scale every element of the list, keep the length
      std::string out = "{";
      std::string inner = v.substr(1, v.size() - 2);
      std::istringstream is(inner);
      std::string tok;
      bool first = true;
      while (std::getline(is, tok, ','))
        {
          const double x = std::strtod(tok.c_str(), nullptr);
          const bool integral = tok.find_first_of(".eE") == std::string::npos;
          if (!first)
            out += (kind % 2) ? " , " : ",";
          first = false;
          if (integral)
            out += std::to_string(long(x) + (long(x) > 0 ? 1 : 0));
          else
            out += fmt_double(x * 1.5, kind);
        }
      out += "}";
      changed = true;
      return out;
    }
  return v;
}

//! re-spell a keyword without changing its standardised form (documented: case, blanks, tabs, '_', '!' ignored)
std::string
noisy_key(const std::string& key, SplitMix& g)
{
  std::string o;
  if (g.range(0, 3) == 0)
    o += "!";
  if (g.range(0, 3) == 0)
    o += (g.range(0, 1) ? " " : "\t");
  for (char c : key)
    {
      if (c == ' ')
        {
          switch (g.range(0, 5))
            {
            case 0:
              o += "  ";
              break;
            case 1:
              o += "\t";
              break;
            case 2:
              o += "_";
              break;
            case 3:
              o += " _ ";
              break;
            default:
              o += " ";
            }
        }
      else if (isalpha((unsigned char)c) && g.range(0, 2) == 0)
        o += char(toupper((unsigned char)c));
      else
        o += c;
    }
  if (g.range(0, 2) == 0)
    o += (g.range(0, 1) ? "  " : "\t");
  return o;
}

bool g_last_nontrivial = false;

json
gen(Src& s, int size)
{
  auto& R = registries();
  json c;
  c["reg"] = int(s.range(0, long(R.size()) - 1));
  c["ent"] = int(s.range(0, 63));
  json edits = json::array();
  const int n = int(s.small(1, 1 + size / 25));
  for (int i = 0; i < n; ++i)
    edits.push_back({ int(s.range(0, 199)), int(s.range(0, 19)), int(s.range(0, 11)) });
  c["edits"] = edits;
  c["noise"] = s.chance(1, 2) ? long(s.range(1, 1 << 30)) : 0L;
  return c;
}

Result
check(const json& c)
{
  c17::quiet();
  g_last_nontrivial = false;
  auto& R = registries();
  Reg& r = R[std::size_t(c["reg"].get<int>()) % R.size()];
  if (r.entries.empty())
    return Result::reject("registry without entries: " + r.name);
  const std::string name = r.entries[std::size_t(c["ent"].get<int>()) % r.entries.size()];
  const std::string id = r.name + "/" + name;
  stats().cls("registry:" + r.name);

  // the round trip is about Release behaviour of the parser; internal assertions stay on (a failed one is a finding)
  std::string why;
  auto o0 = make_default(r, name, why);
  if (!o0)
    {
      stats().count("skipped (no default object): " + id + " :: " + why.substr(0, 120));
      return Result::reject("no default object: " + id + " :: " + why.substr(0, 160));
    }
  const std::string t0 = o0->parameter_info();

  // ---- generated text G
  std::vector<std::string> lines = c17::split_lines(t0);
  int changed_lines = 0;
  // candidate lines: "key := value" with a numeric / numeric-list value
  std::vector<std::size_t> cand;
  for (std::size_t i = 0; i < lines.size(); ++i)
    {
      const Line l = split_line(lines[i]);
      if (l.has_assign && (is_int(l.value) || is_float(l.value) || is_num_list(l.value)))
        cand.push_back(i);
    }
  if (!cand.empty())
    for (const auto& e : c["edits"])
      {
        const std::size_t i = cand[std::size_t(e[0].get<int>()) % cand.size()];
        Line l = split_line(lines[i]);
        bool ch = false;
        const std::string nv = edit_value(l.value, e[1].get<int>(), e[2].get<int>(), ch);
        if (ch)
          {
            lines[i] = l.key + ":= " + nv;
            ++changed_lines;
          }
      }
  const std::string G = c17::join_lines(lines);
  const bool edited = changed_lines > 0;

  auto o1 = parse_text(r, name, G, why);
  if (!o1)
    {
      if (!edited)
        {
          stats().count("skipped (own default text refused; needs external data?): " + id + " :: " + why.substr(0, 100));
          return Result::reject("default text of " + id + " refused :: " + why.substr(0, 160));
        }
      return Result::reject("edited text refused: " + id);
    }
  const std::string t1 = o1->parameter_info();
  auto o2 = parse_text(r, name, t1, why);
  VF_CHECK(o2 != nullptr, "the text an accepted object prints for itself is refused: ", id, " :: ", why, "\n--- printed text:\n", t1);
  const std::string t2 = o2->parameter_info();
  VF_CHECK(t2 == t1, "parameter_info is not reproduced after re-parsing: ", id, "\n--- first print:\n", t1, "\n--- second print:\n", t2);
  if (!edited)
    {
      // the default object itself: its own text must reproduce it
      VF_CHECK(t1 == t0, "default object of ", id, " prints\n", t0, "\n--- but after re-parsing that text prints\n", t1);
    }
  // a third generation must be stable as well (catches drift)
  auto o3 = parse_text(r, name, t2, why);
  VF_CHECK(o3 != nullptr, "third generation refused: ", id, " :: ", why);
  VF_CHECK(o3->parameter_info() == t2, "third print differs: ", id);

  // ---- keyword spelling noise must not change anything (documented matching rule)
  const long noise = c["noise"].get<long>();
  if (noise != 0)
    {
      SplitMix g{ uint64_t(noise) };
      std::vector<std::string> nl = lines;
      for (std::string& l : nl)
        {
          const Line s = split_line(l);
          if (!s.has_assign || s.key.find_first_not_of(" \t") == std::string::npos)
            continue;
          // leave lines alone that are the first line of a nested object's value (none: nested names are values)
          std::string k = s.key;
          const auto b = k.find_last_not_of(" \t");
          k = k.substr(0, b + 1);
          const auto a = k.find_first_not_of(" \t");
          k = k.substr(a);
          l = noisy_key(k, g) + ":=" + (g.range(0, 1) ? " " : "\t ") + s.value + (g.range(0, 3) == 0 ? "  " : "");
        }
      const std::string GN = c17::join_lines(nl);
      auto on = parse_text(r, name, GN, why);
      VF_CHECK(on != nullptr, "re-spelled keywords (case/blank/tab/_/!) make the text unparsable: ", id, " :: ", why, "\n", GN);
      const std::string tn = on->parameter_info();
      VF_CHECK(tn == t1, "re-spelled keywords change the parsed object: ", id, "\n--- plain:\n", t1, "\n--- re-spelled input:\n", GN,
               "\n--- result:\n", tn);
      stats().cls("keyword spelling noise");
    }
  if (edited && t1 != t0)
    {
      g_last_nontrivial = true;
      stats().cls("parameter changed from default");
    }
  else if (edited)
    stats().cls("edit without visible effect");
  else
    stats().cls("defaults only");
  stats().count("entry ok: " + id);
  return Result::pass();
}

bool
nontrivial(const json&)
{
  return g_last_nontrivial;
}

//! every (registry, entry) once without edits, then once with one edit of each kind
bool
enumerate(uint64_t idx, int, json& c)
{
  auto& R = registries();
  uint64_t k = idx;
  for (int pass = 0; pass < 2; ++pass)
    for (std::size_t ri = 0; ri < R.size(); ++ri)
      {
        const uint64_t n = R[ri].entries.size();
        if (k < n)
          {
            c = json::object();
            c["reg"] = int(ri);
            c["ent"] = int(k);
            c["edits"] = json::array();
            if (pass == 1)
              c["edits"].push_back({ int(k * 7 + ri), 0, int(k) });
            c["noise"] = pass == 1 ? long(1000 + k) : 0L;
            return true;
          }
        k -= n;
      }
  return false;
}

} // namespace

const Property&
the_property()
{
  static Property p;
  p.id = "C17";
  p.gen = gen;
  p.check = check;
  p.nontrivial = nontrivial;
  p.enumerate = enumerate;
  p.shrink_lists = { "edits" };
  p.rule = "";
  return p;
}

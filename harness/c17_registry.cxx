// C17 (a) — registry round trip.
// For every entry of every registry the harness can name (entries = what list_registered_names reports at
// run time): take the text a default-constructed object of that type prints with parameter_info()
// (read_registered_object(0,name) is interactive and loops when the defaults do not pass post_processing,
// so the harness carries a table "registered name -> default constructor", copied from *_registries.cxx;
// a listed name without a constructor in the table is reported as not covered), edit a few scalar values in that text (grammar per value type, random keyword
// spelling: case / blanks / tabs / '_' / '!'), parse, print (normalising round), parse again, print again:
// the two prints must be identical strings; the spelling noise must not change the result.
// Entries whose own default text is refused (they need external files / data) are skipped and listed.
#include "c17_common.h"
#include "stir/RegisteredObject.h"
#include "stir/recon_buildblock/ProjMatrixByBin.h"
#include "stir/recon_buildblock/ForwardProjectorByBin.h"
#include "stir/recon_buildblock/BackProjectorByBin.h"
#include "stir/recon_buildblock/ProjectorByBinPair.h"
#include "stir/recon_buildblock/BinNormalisation.h"
#include "stir/recon_buildblock/GeneralisedPrior.h"
#include "stir/recon_buildblock/GeneralisedObjectiveFunction.h"
#include "stir/recon_buildblock/Reconstruction.h"
#include "stir/recon_buildblock/ProjDataRebinning.h"
#include "stir/DataProcessor.h"
#include "stir/DiscretisedDensity.h"
#include "stir/DynamicDiscretisedDensity.h"
#include "stir/modelling/ParametricDiscretisedDensity.h"
#include "stir/IO/OutputFileFormat.h"
#include "stir/Shape/Shape3D.h"
#include "stir/scatter/ScatterSimulation.h"
#include "stir/modelling/KineticModel.h"
#include "stir/data/SinglesRates.h"
#include "stir/spatial_transformation/SpatialTransformation.h"
// the registered classes themselves (list copied from the *_registries.cxx files of the library): needed to
// default-construct an object of each registered type without going through the interactive path
#include "stir/recon_buildblock/PoissonLogLikelihoodWithLinearModelForMeanAndProjData.h"
#include "stir/recon_buildblock/PoissonLogLikelihoodWithLinearModelForMeanAndListModeDataWithProjMatrixByBin.h"
#include "stir/recon_buildblock/PoissonLogLikelihoodWithLinearKineticModelAndDynamicProjectionData.h"
#include "stir/recon_buildblock/PoissonLogLikelihoodWithLinearModelForMeanAndGatedProjDataWithMotion.h"
#include "stir/recon_buildblock/FilterRootPrior.h"
#include "stir/recon_buildblock/QuadraticPrior.h"
#include "stir/recon_buildblock/PLSPrior.h"
#include "stir/recon_buildblock/RelativeDifferencePrior.h"
#include "stir/recon_buildblock/LogcoshPrior.h"
#include "stir/recon_buildblock/ProjMatrixByBinUsingRayTracing.h"
#include "stir/recon_buildblock/ProjMatrixByBinUsingInterpolation.h"
#include "stir/recon_buildblock/ProjMatrixByBinFromFile.h"
#include "stir/recon_buildblock/ProjMatrixByBinSPECTUB.h"
#include "stir/recon_buildblock/ProjMatrixByBinPinholeSPECTUB.h"
#include "stir/recon_buildblock/ForwardProjectorByBinUsingProjMatrixByBin.h"
#include "stir/recon_buildblock/ForwardProjectorByBinUsingRayTracing.h"
#include "stir/recon_buildblock/BackProjectorByBinUsingProjMatrixByBin.h"
#include "stir/recon_buildblock/BackProjectorByBinUsingInterpolation.h"
#include "stir/recon_buildblock/PresmoothingForwardProjectorByBin.h"
#include "stir/recon_buildblock/PostsmoothingBackProjectorByBin.h"
#include "stir/recon_buildblock/ProjectorByBinPairUsingProjMatrixByBin.h"
#include "stir/recon_buildblock/ProjectorByBinPairUsingSeparateProjectors.h"
#include "stir/recon_buildblock/TrivialBinNormalisation.h"
#include "stir/recon_buildblock/ChainedBinNormalisation.h"
#include "stir/recon_buildblock/BinNormalisationFromProjData.h"
#include "stir/recon_buildblock/BinNormalisationSPECT.h"
#include "stir/recon_buildblock/BinNormalisationFromAttenuationImage.h"
#include "stir/recon_buildblock/BinNormalisationFromECAT8.h"
#include "stir/recon_buildblock/FourierRebinning.h"
#include "stir/analytic/FBP2D/FBP2DReconstruction.h"
#include "stir/analytic/FBP3DRP/FBP3DRPReconstruction.h"
#include "stir/OSMAPOSL/OSMAPOSLReconstruction.h"
#include "stir/KOSMAPOSL/KOSMAPOSLReconstruction.h"
#include "stir/OSSPS/OSSPSReconstruction.h"
#include "stir/SeparableCartesianMetzImageFilter.h"
#include "stir/SeparableGaussianImageFilter.h"
#include "stir/MedianImageFilter3D.h"
#include "stir/MinimalImageFilter3D.h"
#include "stir/ChainedDataProcessor.h"
#include "stir/ThresholdMinToSmallPositiveValueDataProcessor.h"
#include "stir/SeparableConvolutionImageFilter.h"
#include "stir/NonseparableConvolutionUsingRealDFTImageFilter.h"
#include "stir/TruncateToCylindricalFOVImageProcessor.h"
#include "stir/HUToMuImageProcessor.h"
#include "stir/IO/InterfileOutputFileFormat.h"
#include "stir/IO/InterfileDynamicDiscretisedDensityOutputFileFormat.h"
#include "stir/IO/InterfileParametricDiscretisedDensityOutputFileFormat.h"
#include "stir/IO/MultiDynamicDiscretisedDensityOutputFileFormat.h"
#include "stir/IO/MultiParametricDiscretisedDensityOutputFileFormat.h"
#include "stir/Shape/Ellipsoid.h"
#include "stir/Shape/EllipsoidalCylinder.h"
#include "stir/Shape/Box3D.h"
#include "stir/Shape/DiscretisedShape3D.h"
#include "stir/scatter/SingleScatterSimulation.h"
#include "stir/modelling/PatlakPlot.h"
#include "stir/spatial_transformation/GatedSpatialTransformation.h"
#include "stir/VoxelsOnCartesianGrid.h"
#include "stir/ProjDataInfo.h"
#include "stir/Scanner.h"
#include "stir/ExamInfo.h"
#include "stir/Bin.h"
#include "stir/recon_buildblock/ProjMatrixElemsForOneBin.h"
#include <memory>
#include <functional>
#include <set>
#include <type_traits>
#include <fcntl.h>
#include <unistd.h>

using namespace vf;
using namespace stir;

namespace {

typedef DiscretisedDensity<3, float> Dens;

//! what can be done with an object of a registered type beyond parsing it through the registry (filled in per concrete type)
struct TypeOps
{
  std::function<std::shared_ptr<RegisteredObjectBase>()> make;                                // default constructor
  std::function<std::shared_ptr<RegisteredObjectBase>(const RegisteredObjectBase&)> copy;     // copy constructor (empty: not accessible)
  std::function<std::shared_ptr<RegisteredObjectBase>(const RegisteredObjectBase&)> clone;    // clone() (empty: the type has none)
  std::function<void(RegisteredObjectBase&, const RegisteredObjectBase&)> assign;             // operator= (empty: not accessible)
};
struct Entry
{
  std::string name;                            // registered name as listed by the registry
  std::function<std::string()> default_text;   // parameter_info() of a default-constructed object of that type (empty fn: type not in the table)
  std::shared_ptr<TypeOps> ops;                // null: type not in the table
};
struct Reg
{
  std::string name;
  std::function<void(std::ostream&)> list;
  std::function<std::shared_ptr<RegisteredObjectBase>(std::istream*, const std::string&)> make;
  std::vector<Entry> entries; // filled at first use from list_registered_names
  std::map<std::string, std::function<std::string()>> ctors;
  std::map<std::string, std::shared_ptr<TypeOps>> ops;
};

template <class Root>
Reg
reg(const char* n)
{
  Reg r;
  r.name = n;
  r.list = [](std::ostream& s) { Root::list_registered_names(s); };
  r.make = [](std::istream* in, const std::string& name) {
    return std::shared_ptr<RegisteredObjectBase>(Root::read_registered_object(in, name));
  };
  return r;
}
template <class T, class = void>
struct has_clone : std::false_type
{};
template <class T>
struct has_clone<T, std::void_t<decltype(std::declval<const T&>().clone())>> : std::true_type
{};
//! copy constructor / clone() / operator= of T, where the type offers them (found out at compile time, nothing is listed by hand)
template <class T>
std::shared_ptr<TypeOps>
make_ops()
{
  auto ops = std::make_shared<TypeOps>();
  ops->make = []() { return std::shared_ptr<RegisteredObjectBase>(new T); };
  if constexpr (std::is_copy_constructible<T>::value)
    ops->copy = [](const RegisteredObjectBase& o) { return std::shared_ptr<RegisteredObjectBase>(new T(dynamic_cast<const T&>(o))); };
  if constexpr (has_clone<T>::value)
    ops->clone = [](const RegisteredObjectBase& o) { return std::shared_ptr<RegisteredObjectBase>(dynamic_cast<const T&>(o).clone()); };
  if constexpr (std::is_copy_assignable<T>::value)
    ops->assign = [](RegisteredObjectBase& d, const RegisteredObjectBase& o) { dynamic_cast<T&>(d) = dynamic_cast<const T&>(o); };
  return ops;
}
//! add the default constructor of a registered class T to its registry
template <class T>
void
ctor(Reg& r)
{
  r.ctors[c17::ref_standardise(T::registered_name)] = []() {
    T o;
    return o.parameter_info();
  };
  r.ops[c17::ref_standardise(T::registered_name)] = make_ops<T>();
}

typedef ParametricVoxelsOnCartesianGrid PVox;

std::vector<Reg>&
registries()
{
  static std::vector<Reg> v;
  if (v.empty())
    {
      {
        Reg r = reg<ProjMatrixByBin>("ProjMatrixByBin");
        ctor<ProjMatrixByBinUsingRayTracing>(r);
        ctor<ProjMatrixByBinUsingInterpolation>(r);
        ctor<ProjMatrixByBinFromFile>(r);
        ctor<ProjMatrixByBinSPECTUB>(r);
        ctor<ProjMatrixByBinPinholeSPECTUB>(r);
        v.push_back(r);
      }
      {
        Reg r = reg<ForwardProjectorByBin>("ForwardProjectorByBin");
        ctor<ForwardProjectorByBinUsingProjMatrixByBin>(r);
        ctor<ForwardProjectorByBinUsingRayTracing>(r);
        ctor<PresmoothingForwardProjectorByBin>(r);
        v.push_back(r);
      }
      {
        Reg r = reg<BackProjectorByBin>("BackProjectorByBin");
        ctor<BackProjectorByBinUsingProjMatrixByBin>(r);
        ctor<BackProjectorByBinUsingInterpolation>(r);
        ctor<PostsmoothingBackProjectorByBin>(r);
        v.push_back(r);
      }
      {
        Reg r = reg<ProjectorByBinPair>("ProjectorByBinPair");
        ctor<ProjectorByBinPairUsingProjMatrixByBin>(r);
        ctor<ProjectorByBinPairUsingSeparateProjectors>(r);
        v.push_back(r);
      }
      {
        Reg r = reg<BinNormalisation>("BinNormalisation");
        ctor<TrivialBinNormalisation>(r);
        ctor<ChainedBinNormalisation>(r);
        ctor<BinNormalisationFromProjData>(r);
        ctor<BinNormalisationFromAttenuationImage>(r);
        ctor<BinNormalisationSPECT>(r);
        ctor<ecat::BinNormalisationFromECAT8>(r);
        v.push_back(r);
      }
      {
        Reg r = reg<GeneralisedPrior<Dens>>("GeneralisedPrior<DiscretisedDensity<3,float>>");
        ctor<FilterRootPrior<Dens>>(r);
        ctor<QuadraticPrior<float>>(r);
        ctor<PLSPrior<float>>(r);
        ctor<RelativeDifferencePrior<float>>(r);
        ctor<LogcoshPrior<float>>(r);
        v.push_back(r);
      }
      v.push_back(reg<GeneralisedPrior<PVox>>("GeneralisedPrior<ParametricVoxelsOnCartesianGrid>"));
      {
        Reg r = reg<GeneralisedObjectiveFunction<Dens>>("GeneralisedObjectiveFunction<DiscretisedDensity<3,float>>");
        ctor<PoissonLogLikelihoodWithLinearModelForMeanAndProjData<Dens>>(r);
        ctor<PoissonLogLikelihoodWithLinearModelForMeanAndListModeDataWithProjMatrixByBin<Dens>>(r);
        ctor<PoissonLogLikelihoodWithLinearModelForMeanAndGatedProjDataWithMotion<Dens>>(r);
        v.push_back(r);
      }
      {
        Reg r = reg<GeneralisedObjectiveFunction<PVox>>("GeneralisedObjectiveFunction<ParametricVoxelsOnCartesianGrid>");
        ctor<PoissonLogLikelihoodWithLinearKineticModelAndDynamicProjectionData<PVox>>(r);
        v.push_back(r);
      }
      {
        Reg r = reg<DataProcessor<Dens>>("DataProcessor<DiscretisedDensity<3,float>>");
        ctor<MedianImageFilter3D<float>>(r);
        ctor<MinimalImageFilter3D<float>>(r);
        ctor<SeparableCartesianMetzImageFilter<float>>(r);
        ctor<SeparableGaussianImageFilter<float>>(r);
        ctor<SeparableConvolutionImageFilter<float>>(r);
        ctor<NonseparableConvolutionUsingRealDFTImageFilter<float>>(r);
        ctor<TruncateToCylindricalFOVImageProcessor<float>>(r);
        ctor<ChainedDataProcessor<Dens>>(r);
        ctor<ThresholdMinToSmallPositiveValueDataProcessor<Dens>>(r);
        ctor<HUToMuImageProcessor<Dens>>(r);
        v.push_back(r);
      }
      v.push_back(reg<DataProcessor<PVox>>("DataProcessor<ParametricVoxelsOnCartesianGrid>"));
      {
        Reg r = reg<OutputFileFormat<Dens>>("OutputFileFormat<DiscretisedDensity<3,float>>");
        ctor<InterfileOutputFileFormat>(r);
        v.push_back(r);
      }
      {
        Reg r = reg<OutputFileFormat<DynamicDiscretisedDensity>>("OutputFileFormat<DynamicDiscretisedDensity>");
        ctor<InterfileDynamicDiscretisedDensityOutputFileFormat>(r);
        ctor<MultiDynamicDiscretisedDensityOutputFileFormat>(r);
        v.push_back(r);
      }
      {
        Reg r = reg<OutputFileFormat<PVox>>("OutputFileFormat<ParametricVoxelsOnCartesianGrid>");
        ctor<InterfileParametricDiscretisedDensityOutputFileFormat<ParametricVoxelsOnCartesianGridBaseType>>(r);
        ctor<MultiParametricDiscretisedDensityOutputFileFormat<ParametricVoxelsOnCartesianGridBaseType>>(r);
        v.push_back(r);
      }
      {
        Reg r = reg<Shape3D>("Shape3D");
        ctor<Ellipsoid>(r);
        ctor<EllipsoidalCylinder>(r);
        ctor<DiscretisedShape3D>(r);
        ctor<Box3D>(r);
        v.push_back(r);
      }
      {
        Reg r = reg<Reconstruction<Dens>>("Reconstruction<DiscretisedDensity<3,float>>");
        ctor<FBP2DReconstruction>(r);
        ctor<FBP3DRPReconstruction>(r);
        ctor<OSMAPOSLReconstruction<Dens>>(r);
        ctor<KOSMAPOSLReconstruction<Dens>>(r);
        ctor<OSSPSReconstruction<Dens>>(r);
        v.push_back(r);
      }
      {
        Reg r = reg<Reconstruction<PVox>>("Reconstruction<ParametricVoxelsOnCartesianGrid>");
        ctor<OSMAPOSLReconstruction<PVox>>(r);
        ctor<OSSPSReconstruction<PVox>>(r);
        v.push_back(r);
      }
      {
        Reg r = reg<ProjDataRebinning>("ProjDataRebinning");
        ctor<FourierRebinning>(r);
        v.push_back(r);
      }
      {
        Reg r = reg<ScatterSimulation>("ScatterSimulation");
        ctor<SingleScatterSimulation>(r);
        v.push_back(r);
      }
      {
        Reg r = reg<KineticModel>("KineticModel");
        ctor<PatlakPlot>(r);
        v.push_back(r);
      }
      v.push_back(reg<SinglesRates>("SinglesRates"));
      {
        Reg r = reg<SpatialTransformation>("SpatialTransformation");
        ctor<GatedSpatialTransformation>(r);
        v.push_back(r);
      }
      // the entries are what the registries list at run time; the table above only supplies constructors
      for (Reg& r : v)
        {
          std::ostringstream s;
          r.list(s);
          for (const std::string& l : c17::split_lines(s.str()))
            if (!l.empty() && c17::ref_standardise(l) != "none") // "None" is the documented null entry (factory 0)
              {
                Entry e;
                e.name = l;
                auto it = r.ctors.find(c17::ref_standardise(l));
                if (it != r.ctors.end())
                  e.default_text = it->second;
                auto io = r.ops.find(c17::ref_standardise(l));
                if (io != r.ops.end())
                  e.ops = io->second;
                r.entries.push_back(e);
              }
        }
    }
  return v;
}

//! parameter_info() of a default-constructed object (cached; "" + why on failure)
const std::string&
default_text(Reg& r, Entry& e, std::string& why)
{
  static std::map<std::string, std::pair<std::string, std::string>> cache;
  const std::string id = r.name + "/" + e.name;
  auto it = cache.find(id);
  if (it == cache.end())
    {
      std::pair<std::string, std::string> v;
      if (!e.default_text)
        v.second = "registered type is not in the harness table of default constructors";
      else
        {
          try
            {
              v.first = e.default_text();
            }
          catch (const stir_verif::AssertionFailure& ex)
            {
              v.second = std::string("assertion in default construction: ") + ex.what();
            }
          catch (const std::exception& ex)
            {
              v.second = std::string("exception in default construction: ") + ex.what();
            }
        }
      it = cache.emplace(id, v).first;
    }
  why = it->second.second;
  return it->second.first;
}

std::shared_ptr<RegisteredObjectBase>
parse_text(Reg& r, const std::string& name, const std::string& text, std::string& why)
{
  std::istringstream in(text);
  try
    {
      auto o = r.make(&in, name);
      if (!o)
        why = "parse returned null";
      return o;
    }
  catch (const stir_verif::AssertionFailure&)
    {
      throw;
    }
  catch (const std::exception& e)
    {
      why = std::string("exception: ") + std::string(e.what()).substr(0, 200);
      return nullptr;
    }
}

// ---- text edits -----------------------------------------------------------------------------
struct Line
{
  std::string key, value;
  bool has_assign = false;
};
Line
split_line(const std::string& l)
{
  Line r;
  const auto p = l.find(":=");
  if (p == std::string::npos)
    {
      r.key = l;
      return r;
    }
  r.has_assign = true;
  r.key = l.substr(0, p);
  r.value = l.substr(p + 2);
  const auto a = r.value.find_first_not_of(" \t");
  const auto b = r.value.find_last_not_of(" \t");
  r.value = a == std::string::npos ? "" : r.value.substr(a, b - a + 1);
  return r;
}

bool
is_int(const std::string& v)
{
  if (v.empty())
    return false;
  std::size_t i = (v[0] == '-' || v[0] == '+') ? 1 : 0;
  if (i == v.size())
    return false;
  for (; i < v.size(); ++i)
    if (!isdigit((unsigned char)v[i]))
      return false;
  return v.size() < 10;
}
bool
is_float(const std::string& v)
{
  if (v.empty())
    return false;
  char* e = nullptr;
  const double d = std::strtod(v.c_str(), &e);
  (void)d;
  return e && *e == 0 && (isdigit((unsigned char)v[0]) || v[0] == '-' || v[0] == '.' || v[0] == '+') && std::isfinite(d);
}
bool
is_num_list(const std::string& v)
{
  if (v.size() < 3 || v.front() != '{' || v.back() != '}')
    return false;
  for (char c : v.substr(1, v.size() - 2))
    if (!(isdigit((unsigned char)c) || c == ',' || c == ' ' || c == '.' || c == '-' || c == 'e' || c == '+'))
      return false;
  return v.find_first_of("0123456789") != std::string::npos;
}

std::string
fmt_double(double d, int style)
{
  char buf[64];
  switch (style % 4)
    {
    case 0:
      std::snprintf(buf, sizeof buf, "%g", d);
      break;
    case 1:
      std::snprintf(buf, sizeof buf, "%.3e", d);
      break;
    case 2:
      std::snprintf(buf, sizeof buf, "%.4f", d);
      break;
    default:
      std::snprintf(buf, sizeof buf, "%E", d);
      break;
    }
  return buf;
}

//! new value text for a numeric default (mild changes: the object's post_processing should still accept it)
std::string
edit_value(const std::string& v, int kind, int a, bool& changed)
{
  changed = false;
  if (is_int(v))
    {
      const long x = std::atol(v.c_str());
      if (x == 0 || x == 1)
        { // could be a bool or a count: toggle inside {0,1} only
          changed = true;
          return x == 0 ? "1" : "0";
        }
      static const long deltas[] = { 1, -1, 2, 3, 5, 7 };
      long y = x + deltas[a % 6];
      if (kind % 3 == 1)
        y = x * 2;
      if ((x > 0 && y <= 0) || (x < 0 && y >= 0))
        y = x + 1; // keep the sign of the default (most integer keys are counts)
      changed = true;
      std::string s = std::to_string(y);
      if (kind % 5 == 4 && y > 0)
        s = "+" + s; // explicit sign is accepted by operator>>
      return s;
    }
  if (is_float(v))
    {
      const double x = std::strtod(v.c_str(), nullptr);
      static const double f[] = { 0.5, 2., 1.25, 0.75, 1.5, 3. };
      double y = (x == 0.) ? (a % 2 ? 0.5 : 1.5) : x * f[a % 6];
      changed = true;
      return fmt_double(y, kind);
    }
  if (is_num_list(v))
    {
      // scale every element of the list, keep the length
      std::string out = "{";
      std::string inner = v.substr(1, v.size() - 2);
      std::istringstream is(inner);
      std::string tok;
      bool first = true;
      while (std::getline(is, tok, ','))
        {
          const double x = std::strtod(tok.c_str(), nullptr);
          const bool integral = tok.find_first_of(".eE") == std::string::npos;
          if (!first)
            out += (kind % 2) ? " , " : ",";
          first = false;
          if (integral)
            out += std::to_string(long(x) + (long(x) > 0 ? 1 : 0));
          else
            out += fmt_double(x * 1.5, kind);
        }
      out += "}";
      changed = true;
      return out;
    }
  return v;
}

//! re-spell a keyword without changing its standardised form (documented: case, blanks, tabs, '_', '!' ignored)
std::string
noisy_key(const std::string& key, SplitMix& g)
{
  std::string o;
  if (g.range(0, 3) == 0)
    o += "!";
  if (g.range(0, 3) == 0)
    o += (g.range(0, 1) ? " " : "\t");
  for (char c : key)
    {
      if (c == ' ')
        {
          switch (g.range(0, 5))
            {
            case 0:
              o += "  ";
              break;
            case 1:
              o += "\t";
              break;
            case 2:
              o += "_";
              break;
            case 3:
              o += " _ ";
              break;
            default:
              o += " ";
            }
        }
      else if (isalpha((unsigned char)c) && g.range(0, 2) == 0)
        o += char(toupper((unsigned char)c));
      else
        o += c;
    }
  if (g.range(0, 2) == 0)
    o += (g.range(0, 1) ? "  " : "\t");
  return o;
}

bool g_last_nontrivial = false;

//! which registry a "... := None" parsing key most likely belongs to (a wrong guess only costs a rejected case)
int
guess_registry_for_key(const std::string& key_std)
{
  auto& R = registries();
  auto find = [&](const char* n) {
    for (std::size_t i = 0; i < R.size(); ++i)
      if (R[i].name == n)
        return int(i);
    return -1;
  };
  auto has = [&](const char* t) { return key_std.find(t) != std::string::npos; };
  if (has("prior"))
    return find("GeneralisedPrior<DiscretisedDensity<3,float>>");
  if (has("projector pair"))
    return find("ProjectorByBinPair");
  if (has("forward projector"))
    return find("ForwardProjectorByBin");
  if (has("back projector"))
    return find("BackProjectorByBin");
  if (has("matrix type"))
    return find("ProjMatrixByBin");
  if (has("normalisation"))
    return find("BinNormalisation");
  if (has("objective function"))
    return find("GeneralisedObjectiveFunction<DiscretisedDensity<3,float>>");
  if (has("output file format") || has("output format"))
    return find("OutputFileFormat<DiscretisedDensity<3,float>>");
  if (has("filter") || has("processor"))
    return find("DataProcessor<DiscretisedDensity<3,float>>");
  if (has("shape"))
    return find("Shape3D");
  if (has("scatter simulation"))
    return find("ScatterSimulation");
  return -1;
}

// ---- "workable" texts ---------------------------------------------------------------------------
// Many defaults are deliberately invalid (zero lengths, no projection matrix, no file name).  At start-up the
// harness derives, deterministically, for every entry a text that the entry's own parser accepts, if it can:
// the default text; else the default text with every numeric 0 replaced by 1; else, round by round, one
// "<...> := None" parsing key given the first already workable entry of the guessed registry that makes it
// parse.  Entries for which none works need external data and are only visited rarely.
struct Work
{
  std::string text;
  bool pure_default = false;
};
std::string
fill_zeros(const std::string& t)
{
  std::vector<std::string> lines = c17::split_lines(t);
  for (std::string& ln : lines)
    {
      const Line l = split_line(ln);
      if (l.has_assign && l.value == "0")
        ln = l.key + ":= 1";
    }
  return c17::join_lines(lines);
}
std::map<std::string, Work>&
workable()
{
  static std::map<std::string, Work> w;
  static bool built = false;
  if (built)
    return w;
  built = true;
  auto& R = registries();
  auto accepts = [&](Reg& r, Entry& e, const std::string& text) {
    std::string why;
    try
      {
        return parse_text(r, e.name, text, why) != nullptr;
      }
    catch (...)
      {
        return false;
      }
  };
  for (Reg& r : R)
    for (Entry& e : r.entries)
      {
        std::string why;
        const std::string t0 = default_text(r, e, why);
        if (t0.empty())
          continue;
        const std::string id = r.name + "/" + e.name;
        if (accepts(r, e, t0))
          w[id] = Work{ t0, true };
        else if (accepts(r, e, fill_zeros(t0)))
          w[id] = Work{ fill_zeros(t0), false };
      }
  for (int round = 0; round < 3; ++round)
    for (Reg& r : R)
      for (Entry& e : r.entries)
        {
          const std::string id = r.name + "/" + e.name;
          if (w.count(id))
            continue;
          std::string why;
          const std::string t0 = default_text(r, e, why);
          if (t0.empty())
            continue;
          bool done = false;
          for (const std::string& base : { t0, fill_zeros(t0) })
            {
              std::vector<std::string> lines = c17::split_lines(base);
              for (std::size_t i = 0; i < lines.size() && !done; ++i)
                {
                  const Line l = split_line(lines[i]);
                  if (!l.has_assign || c17::ref_standardise(l.value) != "none")
                    continue;
                  const int ri = guess_registry_for_key(c17::ref_standardise(l.key));
                  if (ri < 0)
                    continue;
                  Reg& nr = R[std::size_t(ri)];
                  for (Entry& ne : nr.entries)
                    {
                      auto it = w.find(nr.name + "/" + ne.name);
                      if (it == w.end())
                        continue;
                      std::vector<std::string> cand = lines;
                      std::vector<std::string> block = c17::split_lines(it->second.text);
                      cand[i] = l.key + ":= " + ne.name;
                      cand.insert(cand.begin() + std::ptrdiff_t(i) + 1, block.begin(), block.end());
                      const std::string t = c17::join_lines(cand);
                      if (accepts(r, e, t))
                        {
                          w[id] = Work{ t, false };
                          done = true;
                          break;
                        }
                    }
                }
              if (done)
                break;
              // all "None" keys at once, each with the first workable entry of its guessed registry
              {
                std::vector<std::string> cand;
                bool any = false;
                for (const std::string& ln : lines)
                  {
                    const Line l = split_line(ln);
                    const int ri = (l.has_assign && c17::ref_standardise(l.value) == "none") ? guess_registry_for_key(c17::ref_standardise(l.key)) : -1;
                    bool put = false;
                    if (ri >= 0)
                      for (Entry& ne : R[std::size_t(ri)].entries)
                        {
                          auto it = w.find(R[std::size_t(ri)].name + "/" + ne.name);
                          if (it == w.end() || !it->second.pure_default)
                            continue;
                          cand.push_back(l.key + ":= " + ne.name);
                          for (const std::string& b : c17::split_lines(it->second.text))
                            cand.push_back(b);
                          put = any = true;
                          break;
                        }
                    if (!put)
                      cand.push_back(ln);
                  }
                const std::string t = c17::join_lines(cand);
                if (any && accepts(r, e, t))
                  {
                    w[id] = Work{ t, false };
                    break;
                  }
              }
            }
        }
  return w;
}
//! (registry index, entry index) of all workable entries, in table order
const std::vector<std::pair<int, int>>&
workable_list()
{
  static std::vector<std::pair<int, int>> v;
  if (v.empty())
    {
      auto& R = registries();
      auto& w = workable();
      for (std::size_t ri = 0; ri < R.size(); ++ri)
        for (std::size_t ei = 0; ei < R[ri].entries.size(); ++ei)
          if (w.count(R[ri].name + "/" + R[ri].entries[ei].name))
            v.push_back({ int(ri), int(ei) });
    }
  return v;
}

// ---- used objects: copies, clones, assignment, re-parsing, use --------------------------------------------------------
// ParsingObject.h: "This class is essentially a wrapper for KeyParser, such that it is safe to copy ParsingObject objects ...
// ParsingObject solves this by having a copy constructor that reinitialises all keys in its own (protected) KeyParser object."
// A copy (copy constructor, clone(), operator=) of an object of a registered class is itself an object of that class: it has
// to print the text of the object it was copied from, and that text has to parse back into it.  The same holds for an object
// that has been used before it is printed (parsed before, printed before, set up / applied).
enum HistOp
{
  HO_COPY,
  HO_CLONE,
  HO_ASSIGN,
  HO_REPARSE_SAME,
  HO_REPARSE_OTHER,
  HO_USE,
  HO_PARSE_FILE,
  HO_PRINT_AGAIN,
  HO_NOPS
};
const char* const HIST_NAME[] = { "copy constructor", "clone()", "operator=", "parse(own text) on the used object", "parse(other text) on the used object, then back",
                                  "use (set_up / apply / geometry calls)", "parse(filename)", "parameter_info() again" };

struct UseData
{
  shared_ptr<Scanner> scanner;
  shared_ptr<ProjDataInfo> pdi;
  shared_ptr<ExamInfo> exam;
  shared_ptr<VoxelsOnCartesianGrid<float>> image; // matches pdi (projectors)
  shared_ptr<VoxelsOnCartesianGrid<float>> small; // 7x7x5 (filters, priors)
};
UseData&
use_data()
{
  static UseData u;
  if (!u.scanner)
    {
      u.scanner.reset(new Scanner(Scanner::E953));
      u.pdi = ProjDataInfo::construct_proj_data_info(u.scanner, 1, 2, u.scanner->get_num_detectors_per_ring() / 2, 33, false);
      u.exam.reset(new ExamInfo);
      u.image.reset(new VoxelsOnCartesianGrid<float>(u.exam, *u.pdi, 0.25F));
      u.small.reset(new VoxelsOnCartesianGrid<float>(u.exam, IndexRange<3>(make_coordinate(0, -3, -3), make_coordinate(4, 3, 3)),
                                                     CartesianCoordinate3D<float>(0.F, 0.F, 0.F), CartesianCoordinate3D<float>(2.5F, 2.F, 2.F)));
    }
  return u;
}
//! "use" an object the cheap way its class allows; returns a label for the statistics ("" = nothing available for this class).
//! What the calls compute is not looked at here (other properties do that); an exception or assertion from them is counted only.
std::string
use_object(RegisteredObjectBase& o, long a)
{
  UseData& u = use_data();
  std::string what;
  {
    // preconditions of the "use": the SPECT matrices need SPECT (arc-corrected, one segment) data and dereference the failed cast
    // otherwise, the matrix "From File" needs a file; objects that contain one of them are not used (only printed/copied/parsed)
    std::string info = o.parameter_info();
    for (char& ch : info)
      ch = char(tolower((unsigned char)ch));
    if (info.find("spect") != std::string::npos || info.find("from file") != std::string::npos || info.find("parallelproj") != std::string::npos)
      return "";
  }
  // (some set_up functions print their kernels with printf: stdout is the channel to the driver)
  struct MuteStdout
  {
    int saved;
    MuteStdout()
    {
      std::cout.flush();
      fflush(stdout);
      saved = dup(1);
      const int dn = open("/dev/null", O_WRONLY);
      if (dn >= 0)
        {
          dup2(dn, 1);
          close(dn);
        }
    }
    ~MuteStdout()
    {
      std::cout.flush();
      fflush(stdout);
      if (saved >= 0)
        {
          dup2(saved, 1);
          close(saved);
        }
    }
  } mute;
  try
    {
      if (auto* sh = dynamic_cast<Shape3D*>(&o))
        {
          what = "Shape3D: is_inside_shape / translate / scale";
          (void)sh->is_inside_shape(CartesianCoordinate3D<float>(0.F, 0.F, 0.F));
          if (a % 2)
            sh->translate(CartesianCoordinate3D<float>(1.5F, -2.F, 0.25F));
          if ((a / 2) % 2)
            sh->scale(CartesianCoordinate3D<float>(2.F, 0.5F, 1.25F));
          (void)sh->is_inside_shape(CartesianCoordinate3D<float>(1.F, 1.F, 1.F));
        }
      else if (auto* dp = dynamic_cast<DataProcessor<Dens>*>(&o))
        {
          what = "DataProcessor: apply to a 7x7x5 image";
          VoxelsOnCartesianGrid<float> im(*u.small);
          int k = 0;
          for (auto it = im.begin_all(); it != im.end_all(); ++it)
            *it = float(1 + (k++ * 7) % 13);
          (void)dp->apply(im);
        }
      else if (auto* pr = dynamic_cast<GeneralisedPrior<Dens>*>(&o))
        {
          what = "GeneralisedPrior: set_up + compute_value on a 7x7x5 image";
          shared_ptr<VoxelsOnCartesianGrid<float>> im(new VoxelsOnCartesianGrid<float>(*u.small));
          int k = 0;
          for (auto it = im->begin_all(); it != im->end_all(); ++it)
            *it = float(1 + (k++ * 5) % 11);
          if (pr->set_up(im) == Succeeded::yes)
            (void)pr->compute_value(*im);
        }
      else if (auto* pm = dynamic_cast<ProjMatrixByBin*>(&o))
        {
          what = "ProjMatrixByBin: set_up + one row";
          pm->set_up(u.pdi, u.image);
          ProjMatrixElemsForOneBin row;
          pm->get_proj_matrix_elems_for_one_bin(row, Bin(0, 3, 2, 1));
        }
      else if (auto* fp = dynamic_cast<ForwardProjectorByBin*>(&o))
        {
          what = "ForwardProjectorByBin: set_up";
          fp->set_up(u.pdi, u.image);
        }
      else if (auto* bp = dynamic_cast<BackProjectorByBin*>(&o))
        {
          what = "BackProjectorByBin: set_up";
          bp->set_up(u.pdi, u.image);
        }
      else if (auto* pp = dynamic_cast<ProjectorByBinPair*>(&o))
        {
          what = "ProjectorByBinPair: set_up";
          (void)pp->set_up(u.pdi, u.image);
        }
      else if (auto* bn = dynamic_cast<BinNormalisation*>(&o))
        {
          what = "BinNormalisation: set_up";
          (void)bn->set_up(u.exam, u.pdi);
        }
    }
  catch (const stir_verif::AssertionFailure& e)
    {
      stats().count("use of the object ended in an internal assertion (not part of this property): " + std::string(e.what()).substr(0, 80));
      return what + " (assertion)";
    }
  catch (const std::exception& e)
    {
      stats().count("use of the object refused with error(): " + what);
      return what + " (refused)";
    }
  return what;
}

//! standardised keys of the lines "key :=" without a value (KeyParser.h: "if the keyword had no value, set_variable will do nothing")
std::vector<std::string>
keys_without_value(const std::string& text)
{
  std::vector<std::string> k;
  for (const std::string& l : c17::split_lines(text))
    {
      const Line s = split_line(l);
      // (an empty list "{}" is no value either for the array types: operator>> of Array<n> fails on it, so the key is not set;
      //  a fresh object prints "{}" for an empty array, a used one cannot be brought back to it by parsing)
      std::string v = s.value;
      while (!v.empty() && (v.back() == '\\' || v.back() == ' '))
        v.pop_back();
      if (s.has_assign && (v.empty() || v == "{}"))
        k.push_back(c17::ref_standardise(s.key));
    }
  std::sort(k.begin(), k.end());
  return k;
}

bool
parse_obj(RegisteredObjectBase& o, const std::string& text, std::string& why)
{
  std::istringstream in(text);
  try
    {
      const bool ok = o.parse(in);
      if (!ok)
        why = "parse returned false";
      return ok;
    }
  catch (const stir_verif::AssertionFailure&)
    {
      throw;
    }
  catch (const std::exception& e)
    {
      why = std::string("exception: ") + std::string(e.what()).substr(0, 200);
      return false;
    }
}

//! t1: the (normalised) text of an accepted object of this entry; other: the text of another accepted object of the same entry
Result
history_checks(const Entry& ent, const std::string& id, const std::string& t1, const std::string& other, const json& hist)
{
  const TypeOps& ops = *ent.ops;
  std::string why;
  // the object under test: constructed directly (not through the registry), parsed and printed once = "used"
  std::shared_ptr<RegisteredObjectBase> cur = ops.make();
  VF_CHECK(parse_obj(*cur, t1, why), "ParsingObject::parse refuses the text the registry's parser accepted: ", id, " :: ", why, "\n", t1);
  std::string p = cur->parameter_info();
  VF_CHECK(p == t1, "an object parsed directly prints another text than the object made by read_registered_object from the same text: ", id, "\n--- registry:\n", t1,
           "\n--- direct:\n", p);
  int step = 0;
  for (const auto& h : hist)
    {
      ++step;
      const int op = int(((h[0].get<long>() % HO_NOPS) + HO_NOPS) % HO_NOPS);
      const long a = std::labs(h[1].get<long>());
      const std::string ctx = cat(id, ", history step ", step, " (", HIST_NAME[op], ")");
      switch (op)
        {
        case HO_COPY:
        case HO_CLONE:
        case HO_ASSIGN:
          {
            std::shared_ptr<RegisteredObjectBase> n;
            if (op == HO_COPY)
              {
                if (!ops.copy)
                  {
                    stats().count("no accessible copy constructor: " + id);
                    break;
                  }
                n = ops.copy(*cur);
              }
            else if (op == HO_CLONE)
              {
                if (!ops.clone)
                  {
                    stats().count("no clone(): " + id);
                    break;
                  }
                try
                  {
                    n = ops.clone(*cur);
                  }
                catch (const stir_verif::AssertionFailure&)
                  {
                    throw;
                  }
                catch (const std::exception& e)
                  {
                    stats().count("clone() reports that it is not supported (error()): " + id);
                    break;
                  }
                VF_CHECK(n != nullptr, "clone() returned a null pointer: ", ctx);
              }
            else
              {
                if (!ops.assign)
                  {
                    stats().count("no accessible operator=: " + id);
                    break;
                  }
                n = ops.make();
                if (a % 2)
                  (void)n->parameter_info(); // the target of the assignment has been used as well
                ops.assign(*n, *cur);
              }
            stats().cls(std::string("history: ") + HIST_NAME[op]);
            const std::string pc = n->parameter_info();
            VF_CHECK(pc == p, "the copy prints another text than the object it was made from: ", ctx, "\n--- original:\n", p, "\n--- copy:\n", pc);
            VF_CHECK(parse_obj(*n, p, why), "the copy refuses the text of the object it was made from: ", ctx, " :: ", why, "\n", p);
            const std::string pc2 = n->parameter_info();
            VF_CHECK(pc2 == p, "the copy prints another text after parsing the original's text: ", ctx, "\n--- original:\n", p, "\n--- copy:\n", pc2);
            // the original is not disturbed by what was done to the copy
            const std::string po = cur->parameter_info();
            VF_CHECK(po == p, "the original prints another text after its copy was parsed: ", ctx, "\n--- before:\n", p, "\n--- after:\n", po);
            // ... also not when the copy is given OTHER values (KeyParser.h warns that a copied KeyParser still points to the variables
            // of the object it was copied from; ParsingObject's copy constructor / operator= exist to prevent exactly that)
            if (!other.empty() && other != p && keys_without_value(other) == keys_without_value(p))
              {
                stats().cls("history: copy parses other values, original must keep its own");
                VF_CHECK(parse_obj(*n, other, why), "the copy refuses a text that a fresh object of its type accepts: ", ctx, " :: ", why, "\n", other);
                const std::string pn = n->parameter_info();
                const std::string po2 = cur->parameter_info();
                VF_CHECK(po2 == p, "parsing other values into the copy changed the ORIGINAL: ", ctx, "\n--- original before:\n", p, "\n--- original after:\n", po2);
                VF_CHECK(pn == other, "the copy that parses another text prints something else than a fresh object that parses it: ", ctx, "\n--- fresh:\n", other,
                         "\n--- copy:\n", pn);
                VF_CHECK(parse_obj(*n, p, why), "the copy refuses the original's text the second time: ", ctx, " :: ", why);
                VF_CHECK(n->parameter_info() == p, "the copy does not come back to the original's text: ", ctx);
              }
            if ((a / 2) % 2)
              cur = n; // the history goes on with the copy
          }
          break;
        case HO_REPARSE_SAME:
          {
            stats().cls(std::string("history: ") + HIST_NAME[op]);
            VF_CHECK(parse_obj(*cur, p, why), "a used object refuses its own text: ", ctx, " :: ", why, "\n", p);
            const std::string p2 = cur->parameter_info();
            VF_CHECK(p2 == p, "a used object prints another text after parsing its own text: ", ctx, "\n--- before:\n", p, "\n--- after:\n", p2);
          }
          break;
        case HO_REPARSE_OTHER:
          {
            // a keyword without value leaves the variable alone (documented), so the two texts have to agree in their value-less keys
            if (other.empty() || other == p || keys_without_value(other) != keys_without_value(p))
              {
                stats().count("re-parse with another text not applicable (same text, or different value-less keys)");
                break;
              }
            stats().cls(std::string("history: ") + HIST_NAME[op]);
            VF_CHECK(parse_obj(*cur, other, why), "a used object refuses a text that a fresh object of its type accepts: ", ctx, " :: ", why, "\n", other);
            const std::string q = cur->parameter_info();
            VF_CHECK(q == other, "a used object that parses another text prints something else than a fresh object that parses it: ", ctx, "\n--- fresh:\n", other,
                     "\n--- used:\n", q);
            VF_CHECK(parse_obj(*cur, p, why), "a used object refuses its earlier text: ", ctx, " :: ", why, "\n", p);
            const std::string p2 = cur->parameter_info();
            VF_CHECK(p2 == p, "a used object does not come back to its earlier text: ", ctx, "\n--- before:\n", p, "\n--- after:\n", p2);
          }
          break;
        case HO_USE:
          {
            const std::string what = use_object(*cur, a);
            if (what.empty())
              {
                stats().count("no cheap use available for this class");
                break;
              }
            if (what.back() == ')')
              {
                // the use was refused with error() or an assertion: the object may be left in a state that is nobody's contract
                // (e.g. TimedObject's timer still running, whose destructor asserts): it is neither examined further nor destructed
                static auto* graveyard = new std::vector<std::shared_ptr<RegisteredObjectBase>>; // (never destructed, not even at exit)
                graveyard->push_back(cur);
                return Result::pass();
              }
            stats().cls(std::string("history: ") + HIST_NAME[op]);
            stats().cls("use: " + what);
            const std::string pu = cur->parameter_info();
            if (pu != p)
              stats().cls("use changed the printed text (setters / set_up): the new text is what has to round-trip");
            std::shared_ptr<RegisteredObjectBase> f = ops.make();
            VF_CHECK(parse_obj(*f, pu, why), "the text a used object prints is refused by a fresh object: ", ctx, " :: ", why, "\n", pu);
            const std::string pf = f->parameter_info();
            VF_CHECK(pf == pu, "the text a used object prints is not reproduced after re-parsing: ", ctx, "\n--- used object:\n", pu, "\n--- re-parsed:\n", pf);
            p = pu;
          }
          break;
        case HO_PARSE_FILE:
          {
            stats().cls(std::string("history: ") + HIST_NAME[op]);
            const std::string fn = c17::scratch_dir() + "/reg.par";
            c17::write_file(fn, p);
            bool ok = false;
            try
              {
                ok = cur->parse(fn.c_str());
              }
            catch (const stir_verif::AssertionFailure&)
              {
                throw;
              }
            catch (const std::exception& e)
              {
                why = e.what();
              }
            c17::clean_scratch();
            VF_CHECK(ok, "parse(filename) refuses the text parse(stream) accepts: ", ctx, " :: ", why, "\n", p);
            const std::string p2 = cur->parameter_info();
            VF_CHECK(p2 == p, "parse(filename) gives another object than parse(stream): ", ctx, "\n--- stream:\n", p, "\n--- file:\n", p2);
            // the same on an object that has not been used at all
            c17::write_file(fn, p);
            std::shared_ptr<RegisteredObjectBase> f = ops.make();
            ok = false;
            try
              {
                ok = f->parse(fn.c_str());
              }
            catch (const stir_verif::AssertionFailure&)
              {
                throw;
              }
            catch (const std::exception& e)
              {
                why = e.what();
              }
            c17::clean_scratch();
            VF_CHECK(ok, "parse(filename) on a fresh object refuses the text parse(stream) accepts: ", ctx, " :: ", why, "\n", p);
            const std::string p3 = f->parameter_info();
            VF_CHECK(p3 == p, "parse(filename) on a fresh object gives another object than parse(stream): ", ctx, "\n--- stream:\n", p, "\n--- file:\n", p3);
          }
          break;
        default:
          {
            stats().cls(std::string("history: ") + HIST_NAME[op]);
            const std::string p2 = cur->parameter_info();
            VF_CHECK(p2 == p, "parameter_info() twice gives two texts: ", ctx, "\n--- first:\n", p, "\n--- second:\n", p2);
          }
          break;
        }
    }
  return Result::pass();
}

json
gen(Src& s, int size)
{
  auto& R = registries();
  json c;
  const auto& wl = workable_list();
  if (!wl.empty() && !s.chance(1, 25))
    {
      const auto& pr = wl[std::size_t(s.range(0, long(wl.size()) - 1))];
      c["reg"] = pr.first;
      c["ent"] = pr.second;
    }
  else
    { // any entry of any registry (mostly rejected: needs external data)
      c["reg"] = int(s.range(0, long(R.size()) - 1));
      c["ent"] = int(s.range(0, 63));
    }
  c["base"] = s.chance(1, 8) ? "default" : "workable";
  json edits = json::array();
  const int n = int(s.small(1, 1 + size / 25));
  for (int i = 0; i < n; ++i)
    edits.push_back({ int(s.range(0, 199)), int(s.range(0, 19)), int(s.range(0, 11)) });
  c["edits"] = edits;
  // optional: give one "<something> := None" parsing key a registered type with that type's default block
  json nest = json::array();
  const int nn = s.chance(1, 2) ? int(s.range(1, 2)) : 0;
  for (int i = 0; i < nn; ++i)
    nest.push_back({ int(s.range(0, 31)), int(s.range(0, 63)) });
  c["nest"] = nest;
  // "fill": every numeric 0 becomes 1 first (many defaults are deliberately invalid: zero lengths, radii, ...)
  c["fill"] = s.chance(1, 8);
  c["noise"] = s.chance(1, 2) ? long(s.range(1, 1 << 30)) : 0L;
  // history of the object between parsing and printing: copies, clones, assignment, re-parsing, use
  json hist = json::array();
  const int nh = int(s.range(1, 2 + size / 20));
  for (int i = 0; i < nh; ++i)
    hist.push_back({ long(s.range(0, HO_NOPS - 1)), long(s.range(0, 15)) });
  c["hist"] = hist;
  return c;
}

Result
check(const json& c)
{
  c17::quiet();
  g_last_nontrivial = false;
  auto& R = registries();
  Reg& r = R[std::size_t(c["reg"].get<int>()) % R.size()];
  if (r.entries.empty())
    {
      stats().count("registry without entries in this build: " + r.name);
      return Result::reject("registry without entries: " + r.name);
    }
  Entry& ent = r.entries[std::size_t(c["ent"].get<int>()) % r.entries.size()];
  const std::string name = ent.name;
  const std::string id = r.name + "/" + name;
  stats().cls("registry:" + r.name);

  // internal assertions stay on: a failed one on generated text is reported (class ASSERT)
  std::string why;
  const std::string t0 = default_text(r, ent, why);
  if (t0.empty())
    {
      stats().count("skipped (no default object): " + id + " :: " + why.substr(0, 120));
      return Result::reject("no default object: " + id + " :: " + why.substr(0, 160));
    }

  // ---- generated text G
  const auto& W = workable();
  const auto wit = W.find(id);
  const bool from_default = c.value("base", std::string("workable")) == "default" || wit == W.end() || wit->second.pure_default;
  std::vector<std::string> lines = c17::split_lines(from_default ? t0 : wit->second.text);
  int changed_lines = from_default ? 0 : 1;
  if (!from_default)
    stats().cls("base text: derived workable text (defaults refused)");
  // nested objects: replace "key := None" by "key := <Name>" followed by <Name>'s default block
  if (c.contains("nest"))
    for (const auto& ne_j : c["nest"])
      {
        std::vector<std::size_t> none_lines;
        for (std::size_t i = 0; i < lines.size(); ++i)
          {
            const Line l = split_line(lines[i]);
            if (l.has_assign && c17::ref_standardise(l.value) == "none")
              none_lines.push_back(i);
          }
        if (none_lines.empty())
          break;
        const std::size_t i = none_lines[std::size_t(ne_j[0].get<int>()) % none_lines.size()];
        const Line l = split_line(lines[i]);
        const int ri = guess_registry_for_key(c17::ref_standardise(l.key));
        if (ri < 0 || R[std::size_t(ri)].entries.empty())
          continue;
        Reg& nr = R[std::size_t(ri)];
        std::vector<std::size_t> ok; // workable entries of that registry
        for (std::size_t k = 0; k < nr.entries.size(); ++k)
          if (W.count(nr.name + "/" + nr.entries[k].name))
            ok.push_back(k);
        if (ok.empty())
          continue;
        Entry& ne = nr.entries[ok[std::size_t(ne_j[1].get<int>()) % ok.size()]];
        const std::string nt = W.find(nr.name + "/" + ne.name)->second.text;
        std::vector<std::string> block = c17::split_lines(nt);
        lines[i] = l.key + ":= " + ne.name;
        lines.insert(lines.begin() + std::ptrdiff_t(i) + 1, block.begin(), block.end());
        ++changed_lines;
        stats().cls("nested parsing object given a type");
      }
  if (c.value("fill", false))
    for (std::string& ln : lines)
      {
        const Line l = split_line(ln);
        if (l.has_assign && l.value == "0")
          {
            ln = l.key + ":= 1";
            ++changed_lines;
          }
      }
  // candidate lines: "key := value" with a numeric / numeric-list value
  std::vector<std::size_t> cand;
  for (std::size_t i = 0; i < lines.size(); ++i)
    {
      const Line l = split_line(lines[i]);
      if (l.has_assign && (is_int(l.value) || is_float(l.value) || is_num_list(l.value)))
        cand.push_back(i);
    }
  if (!cand.empty())
    for (const auto& e : c["edits"])
      {
        const std::size_t i = cand[std::size_t(e[0].get<int>()) % cand.size()];
        Line l = split_line(lines[i]);
        bool ch = false;
        const std::string nv = edit_value(l.value, e[1].get<int>(), e[2].get<int>(), ch);
        if (ch)
          {
            lines[i] = l.key + ":= " + nv;
            ++changed_lines;
          }
      }
  const std::string G = c17::join_lines(lines);
  const bool edited = changed_lines > 0;

  auto o1 = parse_text(r, name, G, why);
  if (!o1)
    {
      if (!edited)
        {
          stats().count("skipped (own default text refused; needs external data?): " + id + " :: " + why.substr(0, 100));
          return Result::reject("default text of " + id + " refused :: " + why.substr(0, 160));
        }
      return Result::reject("edited text refused: " + id);
    }
  // RegisteredObjectBase::get_registered_name(): "Returns the name of the type of the object" = the name it is registered under
  // (names are compared the Interfile way: the registries use interfile_less)
  VF_CHECK(c17::ref_standardise(o1->get_registered_name()) == c17::ref_standardise(name), "object made by read_registered_object(.., '", name,
           "') says its registered name is '", o1->get_registered_name(), "'");
  const std::string t1 = o1->parameter_info();
  auto o2 = parse_text(r, name, t1, why);
  VF_CHECK(o2 != nullptr, "the text an accepted object prints for itself is refused: ", id, " :: ", why, "\n--- printed text:\n", t1);
  const std::string t2 = o2->parameter_info();
  VF_CHECK(t2 == t1, "parameter_info is not reproduced after re-parsing: ", id, "\n--- first print:\n", t1, "\n--- second print:\n", t2);
  if (!edited)
    {
      // the default object itself: its own text must reproduce it
      // (compared without blank lines: a default-constructed object may hold a "None"-named default sub-object that
      //  prints an empty block, which the first parse normalises away; values and keys must be identical)
      auto squeeze = [](const std::string& t) {
        std::string o;
        for (const std::string& l : c17::split_lines(t))
          {
            const auto b = l.find_last_not_of(" \t");
            if (b != std::string::npos)
              o += l.substr(0, b + 1) + "\n";
          }
        return o;
      };
      VF_CHECK(squeeze(t1) == squeeze(t0), "default object of ", id, " prints\n", t0, "\n--- but after re-parsing that text prints\n", t1);
      if (t1 != t0)
        stats().count("default print differs from re-parsed print by blank lines only: " + id);
    }
  // a third generation must be stable as well (catches drift)
  auto o3 = parse_text(r, name, t2, why);
  VF_CHECK(o3 != nullptr, "third generation refused: ", id, " :: ", why);
  VF_CHECK(o3->parameter_info() == t2, "third print differs: ", id);

  // ---- (ext5) how the printed text ENDS must not matter: KeyParser "reads input line by line and parses each line separately.
  // It allows for '\r' at the end of the line (as in files originating in DOS/Windows)"; the last line (the stop key of the
  // object) is a line whether or not an end-of-line character follows it.
  {
    std::string te = t1;
    while (!te.empty() && (te.back() == '\n' || te.back() == '\r'))
      te.pop_back();
    auto oe = parse_text(r, name, te, why);
    VF_CHECK(oe != nullptr, "the printed text without its final end-of-line is refused: ", id, " :: ", why, "\n--- text:\n", te, "<end of text>");
    VF_CHECK(oe->parameter_info() == t1, "the printed text without its final end-of-line gives another object: ", id, "\n--- printed:\n", t1, "\n--- re-parsed print:\n",
             oe->parameter_info());
    std::string tc;
    for (char ch : t1)
      {
        if (ch == '\n')
          tc += "\r\n";
        else
          tc += ch;
      }
    auto oc = parse_text(r, name, tc, why);
    VF_CHECK(oc != nullptr, "the printed text with \\r\\n line ends is refused: ", id, " :: ", why);
    VF_CHECK(oc->parameter_info() == t1, "the printed text with \\r\\n line ends gives another object: ", id, "\n--- printed:\n", t1, "\n--- re-parsed print:\n",
             oc->parameter_info());
    stats().cls("printed text re-parsed without final end-of-line and with \\r\\n line ends");
  }

  // ---- keyword spelling noise must not change anything (documented matching rule)
  const long noise = c["noise"].get<long>();
  if (noise != 0)
    {
      SplitMix g{ uint64_t(noise) };
      std::vector<std::string> nl = lines;
      for (std::string& l : nl)
        {
          const Line s = split_line(l);
          if (!s.has_assign || s.key.find_first_not_of(" \t") == std::string::npos)
            continue;
          std::string k = s.key;
          const auto b = k.find_last_not_of(" \t");
          k = k.substr(0, b + 1);
          const auto a = k.find_first_not_of(" \t");
          k = k.substr(a);
          l = noisy_key(k, g) + ":=" + (g.range(0, 1) ? " " : "\t ") + s.value
              // (documented: a continuation backslash has to be the very last character of the line)
              + ((g.range(0, 3) == 0 && (s.value.empty() || s.value.back() != '\\')) ? "  " : "");
        }
      const std::string GN = c17::join_lines(nl);
      // (the registered name itself is looked up with interfile_less: its spelling may vary in the same way)
      auto on = parse_text(r, noisy_key(name, g), GN, why);
      VF_CHECK(on != nullptr, "re-spelled keywords (case/blank/tab/_/!) make the text unparsable: ", id, " :: ", why, "\n", GN);
      const std::string tn = on->parameter_info();
      VF_CHECK(tn == t1, "re-spelled keywords change the parsed object: ", id, "\n--- plain:\n", t1, "\n--- re-spelled input:\n", GN,
               "\n--- result:\n", tn);
      stats().cls("keyword spelling noise");
    }
  // ---- used objects (copy / clone / operator= / re-parse / use)
  if (ent.ops && c.contains("hist") && !c["hist"].empty())
    {
      // the text of another accepted object of this entry: the base text without the edits
      std::string other;
      if (edited)
        {
          std::string w2;
          auto ob = parse_text(r, name, from_default ? t0 : wit->second.text, w2);
          if (ob)
            other = ob->parameter_info();
        }
      const Result hr = history_checks(ent, id, t1, other, c["hist"]);
      if (hr.failed())
        return hr;
    }
  if (edited && t1 != t0)
    {
      g_last_nontrivial = true;
      stats().cls("parameter changed from default");
    }
  else if (edited)
    stats().cls("edit without visible effect");
  else
    stats().cls("defaults only");
  stats().count("entry ok: " + id);
  return Result::pass();
}

bool
nontrivial(const json&)
{
  return g_last_nontrivial;
}

//! every (registry, entry) once without edits, then once with one edit of each kind
bool
enumerate(uint64_t idx, int, json& c)
{
  auto& R = registries();
  uint64_t k = idx;
  for (int pass = 0; pass < 3; ++pass)
    for (std::size_t ri = 0; ri < R.size(); ++ri)
      {
        const uint64_t n = R[ri].entries.empty() ? 1 : R[ri].entries.size();
        if (k < n)
          {
            c = json::object();
            c["reg"] = int(ri);
            c["ent"] = int(k);
            c["edits"] = json::array();
            if (pass >= 1)
              c["edits"].push_back({ int(k * 7 + ri), 0, int(k) });
            c["nest"] = json::array();
            c["fill"] = false;
            c["base"] = pass >= 1 ? "workable" : "default";
            c["noise"] = pass == 1 ? long(1000 + k) : 0L;
            c["hist"] = json::array();
            if (pass == 2) // every history operation once, on every entry: use, copy, clone, assign (fresh / used target), re-parse, file
              for (long h : { long(HO_USE), long(HO_COPY), long(HO_CLONE), long(HO_ASSIGN), long(HO_ASSIGN), long(HO_REPARSE_SAME), long(HO_REPARSE_OTHER),
                              long(HO_PARSE_FILE), long(HO_PRINT_AGAIN), long(HO_COPY) })
                c["hist"].push_back({ h, long(c["hist"].size()) });
            return true;
          }
        k -= n;
      }
  return false;
}

} // namespace

const Property&
the_property()
{
  static Property p;
  p.id = "C17";
  p.gen = gen;
  p.check = check;
  p.nontrivial = nontrivial;
  p.enumerate = enumerate;
  p.shrink_lists = { "edits", "hist" };
  p.rule = "";
  return p;
}

// C20 - component-based normalisation (stir/ML_norm.h): data conversions are lossless, ML steps descend.
//
// One case = one scanner (generated cylindrical, or a small scanner of a predefined family that has virtual crystals,
// or a predefined scanner) + span-1, unmashed, non-arc-corrected, non-TOF projection data (what get_fan_info() accepts,
// ML_norm.cxx:974-995 and the TOF error() at 1063/1145) with a max ring difference and a number of tangential positions.
// All detector pairs of the fan are enumerated.
//
// Clauses (DESIGN.md "### C20"):
//  (1) make_fan_data_remove_gaps: entry (ra,a,rb,b) == value of the bin get_bin_for_det_pos_pair assigns to the pair
//      (distinct value per bin); symmetric; set_fan_data_add_gaps restores every bin of the fan, gaps get gap_value.
//  (2) apply_efficiencies / apply_block_norm / apply_geo_norm == direct double loop; apply=false restores.
//  (3) data generated exactly from the model => iterate_* return the parameters; make_fan_sum_data == direct sums.
//  (4) efficiency iterations do not increase KL (harness KL in double, each LOR once); stir::KL vs harness KL.
#include "c20_fanref.h"
#include "stir/IndexRange2D.h"
#include <algorithm>
#include <set>

using namespace vf;
using namespace stir;
using c20::Blocks;
using c20::FanDims;

namespace {

const bool no_exclude = std::getenv("VERIF_NO_EXCLUDE") != nullptr;

//! statistics of observed maxima: non-finite values (a failing case is about to be reported) are not recorded
inline void
smax(const std::string& key, double v)
{
  if (std::isfinite(v))
    stats().maxi(key, v);
}

//! exclusions of known findings applied in the current case (each signature counted once per case under excluded_known)
std::set<std::string> g_excluded;
inline void
excluded(const std::string& sig)
{
  if (g_excluded.insert(sig).second)
    {
      stats().count("excluded:" + sig);
      if (g_excluded.size() == 1)
        stats().excluded_known++;
    }
}
const char* const SIG_F1 = "C20:F1:fan_round_trip:bins_outside_symmetric_fan";

// tolerances (relative to the reference value of the entry unless said otherwise); see props.d/C20.py for the calibration
const double TOL_APPLY = 1e-6;   // one float product + one float multiply
const double TOL_UNAPPLY = 1e-6; // as the design states
const double TOL_SUMS = 1e-4;    // float accumulation of <= fan*rings terms
const double TOL_FIXED = 1e-4;   // as the design states
const double TOL_KL = 1e-6;

struct Entry
{
  int ra, a, rb, b; // b reduced mod n
};

//! all ordered detector pairs of the fan (both (p,q) and (q,p) appear)
std::vector<Entry>
fan_domain(const Blocks& B, const FanDims& F)
{
  std::vector<Entry> v;
  for (int ra = 0; ra < B.nrphys; ++ra)
    for (int a = 0; a < B.nphys; ++a)
      for (int rb = std::max(ra - F.new_max_delta, 0); rb <= std::min(ra + F.new_max_delta, B.nrphys - 1); ++rb)
        for (int b = a + B.nphys / 2 - F.new_half_fan; b <= a + B.nphys / 2 + F.new_half_fan; ++b)
          v.push_back(Entry{ ra, a, rb, b % B.nphys });
  return v;
}

std::vector<double>
snapshot(const FanProjData& f, const std::vector<Entry>& dom)
{
  std::vector<double> v(dom.size());
  for (std::size_t i = 0; i < dom.size(); ++i)
    v[i] = f(dom[i].ra, dom[i].a, dom[i].rb, dom[i].b);
  return v;
}

void
set_all(FanProjData& f, const std::vector<Entry>& dom, const std::vector<double>& v)
{
  for (std::size_t i = 0; i < dom.size(); ++i)
    f(dom[i].ra, dom[i].a, dom[i].rb, dom[i].b) = float(v[i]);
}

//! simple Poisson sampler driven by SplitMix (pure function of the generator state)
long
poisson(vf::SplitMix& g, double mean)
{
  if (mean <= 0)
    return 0;
  if (mean < 40.)
    {
      const double L = std::exp(-mean);
      long k = 0;
      double p = 1.;
      do
        {
          ++k;
          p *= g.unit();
      } while (p > L);
      return k - 1;
    }
  // normal approximation
  const double u1 = std::max(g.unit(), 1e-300), u2 = g.unit();
  const double z = std::sqrt(-2. * std::log(u1)) * std::cos(6.283185307179586 * u2);
  return std::max(0L, long(std::floor(mean + std::sqrt(mean) * z + 0.5)));
}

struct Ctx
{
  const json& c;
  shared_ptr<Scanner> sc;
  shared_ptr<ProjDataInfo> pdi_sptr;
  const ProjDataInfoCylindricalNoArcCorr* pdi;
  Blocks B;
  FanDims F;
  std::vector<Entry> dom;
};

// ---- clause 1 ------------------------------------------------------------------------------------------
Result
check_conversion(Ctx& X, FanProjData& fan_out)
{
  const Blocks& B = X.B;
  const FanDims& F = X.F;
  const ProjDataInfoCylindricalNoArcCorr& p = *X.pdi;
  c20::BinStore store(X.pdi_sptr);
  const long N = store.total;
  // a distinct value per bin: 1 + (idx*A + C) mod N with gcd(A,N)=1 (exactly representable: N < 2^24 is checked)
  if (N >= (1L << 24))
    return Result::reject("more than 2^24 bins");
  vf::SplitMix g(X.c["seed_data"].get<uint64_t>());
  long A = 1 + long(g.next() % uint64_t(std::max(1L, N)));
  while (std::gcd(A, N) != 1)
    A = A % N + 1;
  const long C = long(g.next() % uint64_t(N));
  std::vector<float> vals(static_cast<std::size_t>(N));
  for (long i = 0; i < N; ++i)
    vals[std::size_t(i)] = float(1 + (i * A + C) % N);
  shared_ptr<ExamInfo> exam(new ExamInfo);
  ProjDataInMemory pd(exam, X.pdi_sptr);
  store.to_projdata(pd, vals);

  FanProjData fan;
  make_fan_data_remove_gaps(fan, pd);
  VF_CHECK(fan.get_num_rings() == B.nrphys && fan.get_num_detectors_per_ring() == B.nphys, "fan data dimensions ", fan.get_num_rings(), "x",
           fan.get_num_detectors_per_ring(), " != physical ", B.nrphys, "x", B.nphys);
  VF_CHECK(fan.get_max_delta() == F.new_max_delta, "fan max ring difference ", fan.get_max_delta(), " != ", F.new_max_delta);
  VF_CHECK(fan.get_min_b(0) == B.nphys / 2 - F.new_half_fan && fan.get_max_b(0) == B.nphys / 2 + F.new_half_fan, "fan range of detector 0: [",
           fan.get_min_b(0), ",", fan.get_max_b(0), "] expected half fan ", F.new_half_fan);

  long n_assigned = 0, n_unassigned = 0;
  for (const Entry& e : X.dom)
    {
      const int ra = B.orig_ax(e.ra), a = B.orig_tr(e.a), rb = B.orig_ax(e.rb), b = B.orig_tr(e.b);
      const DetectionPositionPair<> dp(DetectionPosition<>(a, ra), DetectionPosition<>(b, rb));
      Bin bin;
      float want = 0.F;
      bool has_bin = false;
      if (p.get_bin_for_det_pos_pair(bin, dp) == Succeeded::yes
          && store.in_range(bin.segment_num(), bin.axial_pos_num(), bin.view_num(), bin.tangential_pos_num())
          && std::abs(bin.tangential_pos_num()) <= F.half_fan)
        {
          has_bin = true;
          want = vals[std::size_t(store.index(bin.segment_num(), bin.axial_pos_num(), bin.view_num(), bin.tangential_pos_num()))];
        }
      const float got = fan(e.ra, e.a, e.rb, e.b);
      if (has_bin)
        {
          ++n_assigned;
          VF_CHECK(got == want, "make_fan_data_remove_gaps: entry (ra=", e.ra, ",a=", e.a, ",rb=", e.rb, ",b=", e.b, ") [scanner indices (", ra, ",", a,
                   ",", rb, ",", b, ")] = ", got, " but its bin (seg ", bin.segment_num(), ", ax ", bin.axial_pos_num(), ", view ", bin.view_num(),
                   ", tang ", bin.tangential_pos_num(), ") holds ", want);
        }
      else
        {
          ++n_unassigned;
          VF_CHECK(got == 0.F, "make_fan_data_remove_gaps: entry (ra=", e.ra, ",a=", e.a, ",rb=", e.rb, ",b=", e.b, ") has no bin in the data but holds ",
                   got);
        }
      const float sym = fan(e.rb, e.b, e.ra, e.a);
      VF_CHECK(sym == got, "fan data not symmetric at (", e.ra, ",", e.a, ",", e.rb, ",", e.b, "): ", got, " vs ", sym);
    }
  stats().count("fan entries with a bin", n_assigned);
  stats().count("fan entries without a bin", n_unassigned);

  // back: every bin of the fan is restored, gap bins get gap_value
  const float gap_value = X.c["gap_value"].get<float>();
  ProjDataInMemory pd2(exam, X.pdi_sptr);
  pd2.fill(-7.F);
  set_fan_data_add_gaps(pd2, fan, gap_value);
  const std::vector<float> back = store.from_projdata(pd2);
  long n_gap = 0, n_outside = 0, n_restored = 0;
  for (int s = p.get_min_segment_num(); s <= p.get_max_segment_num(); ++s)
    for (int ax = p.get_min_axial_pos_num(s); ax <= p.get_max_axial_pos_num(s); ++ax)
      for (int v = p.get_min_view_num(); v <= p.get_max_view_num(); ++v)
        for (int t = p.get_min_tangential_pos_num(); t <= p.get_max_tangential_pos_num(); ++t)
          {
            const std::size_t idx = std::size_t(store.index(s, ax, v, t));
            DetectionPositionPair<> dp;
            p.get_det_pos_pair_for_bin(dp, Bin(s, v, ax, t));
            const bool gap = B.virt_tr(dp.pos1().tangential_coord()) || B.virt_tr(dp.pos2().tangential_coord()) || B.virt_ax(dp.pos1().axial_coord())
                             || B.virt_ax(dp.pos2().axial_coord());
            if (std::abs(t) > F.half_fan)
              {
                // outside the (symmetric, odd-sized) fan: get_fan_info() truncates to min(max_tang,-min_tang) - finding F1.
                // Not demanded unless the exclusion is switched off.
                ++n_outside;
                if (!no_exclude && !gap)
                  excluded(SIG_F1);
                if (no_exclude && !gap)
                  VF_CHECK(back[idx] == vals[idx], "round trip loses bin (seg ", s, ", ax ", ax, ", view ", v, ", tang ", t,
                           ") outside the symmetric fan: ", back[idx], " instead of ", vals[idx]);
                continue;
              }
            if (gap)
              {
                ++n_gap;
                VF_CHECK(back[idx] == gap_value, "gap bin (seg ", s, ", ax ", ax, ", view ", v, ", tang ", t, ") holds ", back[idx], " instead of gap_value ",
                         gap_value);
              }
            else
              {
                ++n_restored;
                VF_CHECK(back[idx] == vals[idx], "round trip changes bin (seg ", s, ", ax ", ax, ", view ", v, ", tang ", t, "): ", back[idx],
                         " instead of ", vals[idx]);
              }
          }
  stats().count("bins restored", n_restored);
  stats().count("gap bins", n_gap);
  stats().count("bins outside the fan (not compared)", n_outside);
  if (n_outside)
    stats().cls("asymmetric tangential range");
  if (n_gap)
    stats().cls("gap bins present");

  // make_fan_sum_data(ProjData) == fan sums of the fan data (no gaps: the ProjData version works in scanner indices)
  if (B.v_tr == 0 && B.v_ax == 0)
    {
      Array<2, float> s1(IndexRange2D(B.nr, B.n)), s2(IndexRange2D(B.nr, B.n));
      make_fan_sum_data(s1, pd);
      make_fan_sum_data(s2, fan);
      std::vector<double> ref(std::size_t(B.nr) * B.n, 0.);
      const std::vector<double> snap = snapshot(fan, X.dom);
      for (std::size_t i = 0; i < X.dom.size(); ++i)
        ref[std::size_t(X.dom[i].ra) * B.n + X.dom[i].a] += snap[i];
      for (int r = 0; r < B.nr; ++r)
        for (int a = 0; a < B.n; ++a)
          {
            const double want = ref[std::size_t(r) * B.n + a];
            const double scale = std::max(want, 1.);
            smax("max rel err fan sums", std::max(std::fabs(s1[r][a] - want), std::fabs(s2[r][a] - want)) / scale);
            VF_CHECK(std::fabs(s1[r][a] - want) <= TOL_SUMS * scale, "make_fan_sum_data(ProjData) ring ", r, " det ", a, ": ", s1[r][a], " vs direct sum ",
                     want);
            VF_CHECK(std::fabs(s2[r][a] - want) <= TOL_SUMS * scale, "make_fan_sum_data(FanProjData) ring ", r, " det ", a, ": ", s2[r][a],
                     " vs direct sum ", want);
          }
    }
  fan_out = fan;
  return Result::pass();
}

// ---- generic "apply == direct loop, un-apply restores" -----------------------------------------------------
template <class ApplyF>
Result
check_apply(const char* what, const Ctx& X, const FanProjData& f0, const std::vector<double>& base, const std::vector<double>& factor, ApplyF apply)
{
  FanProjData f = f0;
  apply(f, true);
  const std::vector<double> got = snapshot(f, X.dom);
  double worst = 0;
  for (std::size_t i = 0; i < X.dom.size(); ++i)
    {
      const double want = base[i] * factor[i];
      const double err = std::fabs(got[i] - want) / std::max(std::fabs(want), 1e-30);
      if (want != 0)
        worst = std::max(worst, err);
      if (!(want == 0 ? got[i] == 0 : err <= TOL_APPLY))
        return Result::fail(cat(what, "(apply=true): entry (ra=", X.dom[i].ra, ",a=", X.dom[i].a, ",rb=", X.dom[i].rb, ",b=", X.dom[i].b, ") = ", got[i],
                                " expected ", base[i], " x ", factor[i], " = ", want));
    }
  smax(std::string("max rel err ") + what + " apply", worst);
  apply(f, false);
  const std::vector<double> back = snapshot(f, X.dom);
  worst = 0;
  for (std::size_t i = 0; i < X.dom.size(); ++i)
    {
      const double err = std::fabs(back[i] - base[i]) / std::max(std::fabs(base[i]), 1e-30);
      if (base[i] != 0)
        worst = std::max(worst, err);
      if (!(base[i] == 0 ? back[i] == 0 : err <= TOL_UNAPPLY))
        return Result::fail(cat(what, "(apply=false) does not restore entry (ra=", X.dom[i].ra, ",a=", X.dom[i].a, ",rb=", X.dom[i].rb, ",b=", X.dom[i].b,
                                "): ", back[i], " instead of ", base[i]));
    }
  smax(std::string("max rel err ") + what + " un-apply", worst);
  return Result::pass();
}

Result
check(const json& c)
{
  g_excluded.clear();
  shared_ptr<Scanner> sc;
  shared_ptr<ProjDataInfo> pdi_sptr;
  try
    {
      sc = c20::make_scanner(c["scanner"]);
      if (sc->check_consistency() != Succeeded::yes)
        return Result::reject("scanner inconsistent");
      pdi_sptr = vg::make_pdi(sc, c["pdi"]);
    }
  catch (const std::exception& e)
    {
      return Result::reject(std::string("construction rejected: ") + e.what());
    }
  const ProjDataInfoCylindricalNoArcCorr* pdi = dynamic_cast<const ProjDataInfoCylindricalNoArcCorr*>(pdi_sptr.get());
  if (!pdi)
    return Result::reject("not cylindrical non-arc-corrected data");
  const Blocks B = Blocks::from(*sc);
  const FanDims F = FanDims::from(*pdi, B);
  // preconditions asserted by the FanProjData constructor (ML_norm.cxx:729-731)
  if (!F.constructible(B))
    return Result::reject("fan not smaller than the ring (FanProjData constructor precondition)");
  Ctx X{ c, sc, pdi_sptr, pdi, B, F, fan_domain(B, F) };
  const int nph = B.nphys, nrph = B.nrphys;
  stats().cls(c["scanner"].contains("family") ? "family-typed small scanner" : (c["scanner"]["type"].get<int>() >= 0 ? "predefined scanner" : "generated scanner"));
  if (B.v_tr)
    stats().cls("virtual transaxial crystals");
  if (B.v_ax && B.nb_ax > 1)
    stats().cls("virtual axial crystals");
  if (F.max_delta > 0)
    stats().cls("max ring difference > 0");
  stats().count("detector pairs enumerated", long(X.dom.size()));

  // ---- (1) conversions -------------------------------------------------------------------------------------
  FanProjData fan0;
  {
    Result r = check_conversion(X, fan0);
    if (r.kind != Result::PASS)
      return r;
  }
  const bool big = X.dom.size() > 1500000;
  const std::vector<double> base = snapshot(fan0, X.dom);
  const uint64_t seed_par = c["seed_par"].get<uint64_t>();

  // ---- (2a) efficiencies ---------------------------------------------------------------------------------------
  DetectorEfficiencies eff(IndexRange2D(nrph, nph));
  for (int r = 0; r < nrph; ++r)
    for (int a = 0; a < nph; ++a)
      eff[r][a] = float(c20::hreal(seed_par, uint64_t(r) * 4096 + uint64_t(a), 0.2, 5.)); // efficiencies in [0.2,5] (DESIGN section 3)
  {
    std::vector<double> fac(X.dom.size());
    for (std::size_t i = 0; i < X.dom.size(); ++i)
      fac[i] = double(eff[X.dom[i].ra][X.dom[i].a]) * double(eff[X.dom[i].rb][X.dom[i].b]);
    Result r = check_apply("apply_efficiencies", X, fan0, base, fac, [&](FanProjData& f, bool ap) { apply_efficiencies(f, eff, ap); });
    if (r.kind != Result::PASS)
      return r;
  }

  // ---- (2b) block factors ----------------------------------------------------------------------------------------
  // BlockData3D as allocate()/ML_estimate build it: FanProjData(nb_ax, nb_tr, nb_ax-1, nb_tr-1): needs an even number of
  // transaxial blocks (constructor assert) and contains every block pair EXCEPT two blocks at the same transaxial position:
  // a detector pair inside one transaxial block position has no block factor, i.e. the factor 1 (fixed defect F3: the pair was
  // looked up outside the container).
  const bool block_ok = B.nb_tr >= 2 && B.nb_tr % 2 == 0;
  if (block_ok && F.new_half_fan > nph / 2 - B.p_tr)
    stats().cls("block factors: fan contains two detectors of one block");
  BlockData3D bd;
  std::vector<double> bfac;
  if (block_ok)
    {
      stats().cls("block factors checked");
      bd = BlockData3D(B.nb_ax, B.nb_tr, B.nb_ax - 1, B.nb_tr - 1);
      // symmetric under exchange of the two blocks (for two blocks of one axial position the container has two cells)
      for (int RA = bd.get_min_ra(); RA <= bd.get_max_ra(); ++RA)
        for (int A = bd.get_min_a(); A <= bd.get_max_a(); ++A)
          for (int RB = std::max(RA, bd.get_min_rb(RA)); RB <= bd.get_max_rb(RA); ++RB)
            for (int Bq = bd.get_min_b(A); Bq <= bd.get_max_b(A); ++Bq)
              bd(RA, A, RB, Bq) = float(c20::hreal(seed_par ^ 0xb10cULL, c20::pair_key(RA, A, RB, Bq % B.nb_tr, B.nb_tr), 0.5, 2.));
      bfac.resize(X.dom.size());
      for (std::size_t i = 0; i < X.dom.size(); ++i)
        {
          const Entry& e = X.dom[i];
          bfac[i] = e.a / B.p_tr == e.b / B.p_tr
                        ? 1.
                        : double(float(c20::hreal(seed_par ^ 0xb10cULL, c20::pair_key(e.ra / B.p_ax, e.a / B.p_tr, e.rb / B.p_ax, e.b / B.p_tr, B.nb_tr), 0.5, 2.)));
        }
      Result r = check_apply("apply_block_norm", X, fan0, base, bfac, [&](FanProjData& f, bool ap) { apply_block_norm(f, bd, ap); });
      if (r.kind != Result::PASS)
        return r;
    }
  else
    stats().cls("block factors not applicable (odd number of blocks or one block)");

  // ---- (2c) geometric factors ----------------------------------------------------------------------------------------
  // symmetry unit: an even divisor of the physical detectors per ring (GeoData3D stores half a unit: allocate() passes unit/2)
  // and a divisor of the physical rings; the block / bucket sizes are preferred.
  int unit_tr = 0, unit_ax = 0;
  {
    std::vector<int> ut, ua;
    for (int d : vg::divisors(nph))
      if (d % 2 == 0)
        ut.push_back(d);
    for (int d : vg::divisors(nrph))
      ua.push_back(d);
    const int want_tr = c["geo_unit_tr"].get<int>(), want_ax = c["geo_unit_ax"].get<int>();
    if (!ut.empty())
      {
        if (want_tr == 0 && B.p_tr % 2 == 0)
          unit_tr = B.p_tr;
        else if (want_tr == 1 && (B.p_tr * B.bpb_tr) % 2 == 0 && nph % (B.p_tr * B.bpb_tr) == 0)
          unit_tr = B.p_tr * B.bpb_tr;
        else
          unit_tr = ut[std::size_t(want_tr) % ut.size()];
      }
    if (want_ax == 0)
      unit_ax = B.p_ax;
    else if (want_ax == 1 && nrph % (B.p_ax * B.bpb_ax) == 0)
      unit_ax = B.p_ax * B.bpb_ax;
    else
      unit_ax = ua[std::size_t(want_ax) % ua.size()];
  }
  const bool geo_ok = unit_tr > 0 && double(nph) * nph * nrph * nrph <= 3e6;
  GeoData3D gd;
  std::vector<double> gfac;
  if (geo_ok)
    {
      stats().cls("geometric factors checked");
      c20::GeoClasses cl(nph, nrph, unit_tr, unit_ax);
      gd = GeoData3D(unit_ax, unit_tr / 2, nrph, nph);
      auto gval = [&](int ra, int a, int rb, int b) { return float(c20::hreal(seed_par ^ 0x6e0ULL, uint64_t(cl.cls(ra, a, rb, b)), 0.5, 2.)); };
      for (int ra = 0; ra < unit_ax; ++ra)
        for (int a = 0; a < unit_tr / 2; ++a)
          for (int rb = ra; rb < nrph; ++rb)
            for (int b = 0; b < nph; ++b)
              gd(ra, a, rb, b) = gval(ra, a, rb, b);
      gfac.resize(X.dom.size());
      for (std::size_t i = 0; i < X.dom.size(); ++i)
        gfac[i] = double(gval(X.dom[i].ra, X.dom[i].a, X.dom[i].rb, X.dom[i].b));
      Result r = check_apply("apply_geo_norm", X, fan0, base, gfac, [&](FanProjData& f, bool ap) { apply_geo_norm(f, gd, ap); });
      if (r.kind != Result::PASS)
        return r;
    }
  else
    stats().cls(unit_tr > 0 ? "geometric factors skipped (too large for the class table)" : "geometric factors not applicable (no even unit)");

  if (big)
    {
      stats().cls("large case: iterations skipped");
      return Result::pass();
    }

  // ---- (3) fixed points --------------------------------------------------------------------------------------------------
  // model: positive, symmetric
  std::vector<double> model(X.dom.size());
  for (std::size_t i = 0; i < X.dom.size(); ++i)
    model[i] = double(float(c20::hreal(seed_par ^ 0x30de1ULL, c20::pair_key(X.dom[i].ra, X.dom[i].a, X.dom[i].rb, X.dom[i].b, nph), 1., 50.)));
  FanProjData mfan = fan0;
  set_all(mfan, X.dom, model);
  auto direct_sums = [&](const std::vector<double>& v) {
    std::vector<double> s(std::size_t(nrph) * nph, 0.);
    for (std::size_t i = 0; i < X.dom.size(); ++i)
      s[std::size_t(X.dom[i].ra) * nph + X.dom[i].a] += v[i];
    return s;
  };
  {
    // data = model x e_a e_b exactly
    std::vector<double> data(X.dom.size());
    for (std::size_t i = 0; i < X.dom.size(); ++i)
      data[i] = double(float(model[i] * double(eff[X.dom[i].ra][X.dom[i].a]) * double(eff[X.dom[i].rb][X.dom[i].b])));
    FanProjData dfan = fan0;
    set_all(dfan, X.dom, data);
    Array<2, float> sums(IndexRange2D(nrph, nph));
    make_fan_sum_data(sums, dfan);
    const std::vector<double> ref = direct_sums(data);
    for (int r = 0; r < nrph; ++r)
      for (int a = 0; a < nph; ++a)
        {
          const double want = ref[std::size_t(r) * nph + a];
          smax("max rel err fan sums", std::fabs(sums[r][a] - want) / want);
          VF_CHECK(std::fabs(sums[r][a] - want) <= TOL_SUMS * want, "make_fan_sum_data ring ", r, " det ", a, ": ", sums[r][a], " vs direct sum ", want);
        }
    DetectorEfficiencies e2 = eff;
    iterate_efficiencies(e2, sums, mfan);
    for (int r = 0; r < nrph; ++r)
      for (int a = 0; a < nph; ++a)
        {
          const double err = std::fabs(e2[r][a] - eff[r][a]) / eff[r][a];
          smax("max rel err fixed point efficiencies", err);
          VF_CHECK(err <= TOL_FIXED, "iterate_efficiencies moves the exact parameters: ring ", r, " det ", a, ": ", eff[r][a], " -> ", e2[r][a]);
        }
    // version without model (model == 1): fan sums from the efficiencies and the fixed point
    {
      Array<2, float> s1(IndexRange2D(nrph, nph));
      make_fan_sum_data(s1, eff, F.new_max_delta, F.new_half_fan);
      std::vector<double> ones(X.dom.size());
      for (std::size_t i = 0; i < X.dom.size(); ++i)
        ones[i] = double(eff[X.dom[i].ra][X.dom[i].a]) * double(eff[X.dom[i].rb][X.dom[i].b]);
      const std::vector<double> ref1 = direct_sums(ones);
      for (int r = 0; r < nrph; ++r)
        for (int a = 0; a < nph; ++a)
          {
            const double want = ref1[std::size_t(r) * nph + a];
            smax("max rel err fan sums", std::fabs(s1[r][a] - want) / want);
            VF_CHECK(std::fabs(s1[r][a] - want) <= TOL_SUMS * want, "make_fan_sum_data(efficiencies) ring ", r, " det ", a, ": ", s1[r][a], " vs direct ",
                     want);
          }
      DetectorEfficiencies e3 = eff;
      iterate_efficiencies(e3, s1, F.new_max_delta, F.new_half_fan);
      for (int r = 0; r < nrph; ++r)
        for (int a = 0; a < nph; ++a)
          {
            const double err = std::fabs(e3[r][a] - eff[r][a]) / eff[r][a];
            smax("max rel err fixed point efficiencies", err);
            VF_CHECK(err <= TOL_FIXED, "iterate_efficiencies (no model) moves the exact parameters: ring ", r, " det ", a, ": ", eff[r][a], " -> ", e3[r][a]);
          }
    }
  }
  if (geo_ok)
    {
      std::vector<double> data(X.dom.size());
      for (std::size_t i = 0; i < X.dom.size(); ++i)
        data[i] = double(float(model[i] * gfac[i]));
      FanProjData dfan = fan0;
      set_all(dfan, X.dom, data);
      GeoData3D measured(unit_ax, unit_tr / 2, nrph, nph), norm(unit_ax, unit_tr / 2, nrph, nph);
      make_geo_data(measured, dfan);
      iterate_geo_norm(norm, measured, mfan);
      long n = 0;
      for (int ra = 0; ra < unit_ax; ++ra)
        for (int a = 0; a < unit_tr / 2; ++a)
          for (int rb = std::max(ra, mfan.get_min_rb(ra)); rb <= mfan.get_max_rb(ra); ++rb)
            for (int b = mfan.get_min_b(a); b <= mfan.get_max_b(a); ++b)
              {
                const double want = gd(ra, a, rb, b % nph);
                const double got = norm(ra, a, rb, b % nph);
                const double err = std::fabs(got - want) / want;
                smax("max rel err fixed point geo", err);
                ++n;
                VF_CHECK(err <= TOL_FIXED, "iterate_geo_norm moves the exact parameters: (ra=", ra, ",a=", a, ",rb=", rb, ",b=", b % nph, "): ", want, " -> ",
                         got);
              }
      stats().count("geo parameters compared", n);
    }
  if (block_ok)
    {
      std::vector<double> data(X.dom.size());
      for (std::size_t i = 0; i < X.dom.size(); ++i)
        data[i] = double(float(model[i] * bfac[i]));
      FanProjData dfan = fan0;
      set_all(dfan, X.dom, data);
      BlockData3D measured(B.nb_ax, B.nb_tr, B.nb_ax - 1, B.nb_tr - 1), norm(B.nb_ax, B.nb_tr, B.nb_ax - 1, B.nb_tr - 1);
      make_block_data(measured, dfan);
      iterate_block_norm(norm, measured, mfan);
      // block pairs that contain at least one detector pair of the fan with ra <= rb (what make_block_data sums)
      std::vector<char> has(std::size_t(B.nb_ax) * B.nb_tr * B.nb_ax * B.nb_tr, 0);
      auto bidx = [&](int RA, int A, int RB, int Bq) { return ((std::size_t(RA) * B.nb_tr + A) * B.nb_ax + RB) * B.nb_tr + Bq; };
      for (const Entry& e : X.dom)
        if (e.ra <= e.rb && e.a / B.p_tr != e.b / B.p_tr)
          has[bidx(e.ra / B.p_ax, e.a / B.p_tr, e.rb / B.p_ax, e.b / B.p_tr)] = 1;
      long n = 0;
      for (int RA = norm.get_min_ra(); RA <= norm.get_max_ra(); ++RA)
        for (int A = norm.get_min_a(); A <= norm.get_max_a(); ++A)
          for (int RB = std::max(RA, norm.get_min_rb(RA)); RB <= norm.get_max_rb(RA); ++RB)
            for (int Bq = norm.get_min_b(A); Bq <= norm.get_max_b(A); ++Bq)
              {
                if (!has[bidx(RA, A, RB, Bq % B.nb_tr)])
                  continue;
                const double want = bd(RA, A, RB, Bq);
                const double got = norm(RA, A, RB, Bq);
                const double err = std::fabs(got - want) / want;
                smax("max rel err fixed point block", err);
                ++n;
                VF_CHECK(err <= TOL_FIXED, "iterate_block_norm moves the exact parameters: blocks (", RA, ",", A, ",", RB, ",", Bq % B.nb_tr, "): ", want,
                         " -> ", got);
              }
      stats().count("block parameters compared", n);
    }

  // ---- (4) descent of the efficiency iterations ------------------------------------------------------------------------------
  {
    const double mean_scale = c["count_scale"].get<double>();
    std::vector<double> data(X.dom.size());
    double total = 0;
    for (std::size_t i = 0; i < X.dom.size(); ++i)
      {
        const Entry& e = X.dom[i];
        vf::SplitMix g(c["seed_noise"].get<uint64_t>() ^ (c20::pair_key(e.ra, e.a, e.rb, e.b, nph) * 0x9e3779b97f4a7c15ULL));
        g.next();
        const double mean = mean_scale * model[i] * double(eff[e.ra][e.a]) * double(eff[e.rb][e.b]);
        data[i] = double(poisson(g, mean)); // same stream for (p,q) and (q,p): symmetric data
        total += data[i];
      }
    FanProjData dfan = fan0;
    set_all(dfan, X.dom, data);
    Array<2, float> sums(IndexRange2D(nrph, nph));
    make_fan_sum_data(sums, dfan);
    bool any_zero_sum = false;
    for (int r = 0; r < nrph; ++r)
      for (int a = 0; a < nph; ++a)
        if (sums[r][a] == 0)
          any_zero_sum = true;
    if (any_zero_sum)
      stats().cls("descent: detector with zero fan sum");
    DetectorEfficiencies e(IndexRange2D(nrph, nph));
    for (int r = 0; r < nrph; ++r)
      for (int a = 0; a < nph; ++a)
        e[r][a] = float(c20::hreal(seed_par ^ 0x57a7ULL, uint64_t(r) * 4096 + uint64_t(a), 0.3, 3.) * std::sqrt(mean_scale));
    // harness KL: every LOR once (ordered domain / 2), in double
    auto kl_parts = [&](const DetectorEfficiencies& ee, double thr, double& same, double& cross) {
      same = cross = 0;
      for (std::size_t i = 0; i < X.dom.size(); ++i)
        {
          const Entry& en = X.dom[i];
          const double m = model[i] * double(ee[en.ra][en.a]) * double(ee[en.rb][en.b]);
          const double t = c20::kl_term(data[i], m, thr);
          (en.ra == en.rb ? same : cross) += 0.5 * t;
        }
    };
    double same, cross;
    kl_parts(e, 0., same, cross);
    double kl_prev = same + cross;
    const int iters = c["iterations"].get<int>();
    for (int k = 1; k <= iters; ++k)
      {
        iterate_efficiencies(e, sums, mfan);
        kl_parts(e, 0., same, cross);
        const double kl = same + cross;
        VF_CHECK(std::isfinite(kl), "KL not finite after efficiency iteration ", k);
        const double excess = (kl - kl_prev) / std::max(kl_prev, 1e-300);
        if (kl_prev > 1e-6 * total)
          smax("max relative KL increase in one efficiency iteration", excess);
        VF_CHECK(kl <= kl_prev * (1. + 1e-6) + 1e-9 * total, "efficiency iteration ", k, " increases KL: ", kl_prev, " -> ", kl);
        kl_prev = kl;
      }
    if (same + cross > 0)
      stats().cls("descent checked");
    // stir::KL on the same (float) model entries
    FanProjData mf = mfan;
    apply_efficiencies(mf, e, true);
    const std::vector<double> msnap = snapshot(mf, X.dom);
    for (double thr : { 0., c["kl_threshold"].get<double>() })
      {
        double s = 0, x = 0, mag = 0;
        for (std::size_t i = 0; i < X.dom.size(); ++i)
          {
            (X.dom[i].ra == X.dom[i].rb ? s : x) += 0.5 * c20::kl_term(data[i], msnap[i], thr);
            mag += data[i] + msnap[i];
          }
        const double stir_kl = KL(dfan, mf, thr);
        // every LOR counts equally: once (or twice, as the 2D DetPairData version does); fixed defect F2 counted the LORs inside
        // one ring twice and the LORs between rings once
        const double once = x + s;
        // the terms a log(a/b) + b - a cancel to ~1e-16 of (a+b) each: absolute slack relative to the summed magnitudes
        const double slack = 1e-12 * mag;
        auto close = [&](double ref) { return std::fabs(stir_kl - ref) <= TOL_KL * ref + slack; };
        if (once > 1e-6 * mag)
          smax("max rel dev stir::KL vs once-per-LOR KL", std::min(std::fabs(stir_kl - once), std::fabs(stir_kl - 2 * once)) / once);
        if (x > 1e-6 * mag && s > 1e-6 * mag)
          stats().cls("stir::KL compared on data with in-ring and cross-ring LORs");
        VF_CHECK(close(once) || close(2 * once), "stir::KL = ", stir_kl, " is neither the once-per-LOR KL ", once, " nor twice it (in-ring part ", s,
                 ", cross-ring part ", x, "), threshold ", thr);
      }
  }
  return Result::pass();
}

// ---- generator -------------------------------------------------------------------------------------------------
struct Family
{
  int type, v_tr, v_ax;
};
const std::vector<Family>&
families()
{
  static const std::vector<Family> f = { { int(Scanner::Siemens_mMR), 1, 0 },        { int(Scanner::Siemens_mCT), 1, 1 }, { int(Scanner::E1080), 1, 1 },
                                         { int(Scanner::Siemens_Vision_600), 1, 0 }, { int(Scanner::UPENN_5rings), 1, 0 } };
  return f;
}

void
fix_tang(json& c)
{
  // shrink the number of tangential positions until the FanProjData constructor precondition holds
  shared_ptr<Scanner> sc = c20::make_scanner(c["scanner"]);
  const Blocks B = Blocks::from(*sc);
  for (int t = c["pdi"]["tang"].get<int>(); t >= 1; --t)
    {
      c["pdi"]["tang"] = t;
      const int max_t = -(t / 2) + t - 1; // the range is [-(t/2), -(t/2)+t-1]
      const int half_fan = std::min(max_t, t / 2);
      const int fan = 2 * half_fan + 1;
      const int new_half = (fan - (fan / B.c_tr) * B.v_tr) / 2;
      if (2 * new_half + 1 < B.nphys)
        return;
    }
}

json
gen(Src& s, int size)
{
  json c;
  const bool family = s.chance(1, 3);
  if (!family)
    {
      vg::ScannerOpts so;
      so.max_ndet = size < 30 ? 24 : (size < 70 ? 48 : 64);
      so.max_rings = size < 30 ? 3 : 6;
      so.allow_tof = false; // the functions reject TOF data (error() at ML_norm.cxx:1063,1145); non-TOF data only
      so.allow_blocks = false;
      so.allow_tilt = true;
      c["scanner"] = vg::gen_scanner(s, so);
      // an even number of transaxial blocks is needed for the block factors: bias towards it
      if (s.coin() && c["scanner"]["ndet"].get<int>() / c["scanner"]["tr_cryst_per_block"].get<int>() % 2 != 0)
        for (int tries = 0; tries < 4 && c["scanner"]["ndet"].get<int>() / c["scanner"]["tr_cryst_per_block"].get<int>() % 2 != 0; ++tries)
          c["scanner"] = vg::gen_scanner(s, so);
    }
  else
    {
      const Family f = s.pick(families());
      json j;
      j["family"] = f.type;
      int p_tr, nb_tr, n, guard = 0;
      do
        {
          p_tr = int(s.small(1, 7));
          nb_tr = int(s.small(2, 12));
          n = (p_tr + f.v_tr) * nb_tr;
          if (++guard > 60)
            {
              p_tr = 2;
              nb_tr = 4;
              n = 12;
            }
      } while (n % 2 != 0 || (p_tr * nb_tr) % 2 != 0 || n > (size < 30 ? 40 : 72));
      const int p_ax = int(s.small(1, 3)), nb_ax = int(s.small(1, 3));
      const int rings = (p_ax + f.v_ax) * nb_ax - f.v_ax;
      j["ndet"] = n;
      j["rings"] = rings;
      j["tr_cryst_per_block"] = p_tr + f.v_tr;
      j["ax_cryst_per_block"] = p_ax + f.v_ax;
      j["tr_blocks_per_bucket"] = int(s.pick(vg::divisors(nb_tr)));
      j["ax_blocks_per_bucket"] = int(s.pick(vg::divisors(nb_ax)));
      j["max_tang"] = n - 1;
      j["radius"] = s.nice_real(50., 450.);
      j["doi"] = s.coin() ? 0. : s.nice_real(0., 12.);
      j["ring_spacing"] = s.nice_real(1., 8.);
      j["bin_size"] = s.nice_real(1., 6.);
      c["scanner"] = j;
    }
  shared_ptr<Scanner> sc = c20::make_scanner(c["scanner"]);
  const int rings = sc->get_num_rings(), n = sc->get_num_detectors_per_ring();
  const int max_tang = sc->get_max_num_non_arccorrected_bins();
  json p;
  p["span"] = 1; // get_fan_info: "Can only process data without axial compression (i.e. span=1)"
  p["max_delta"] = s.chance(1, 3) ? rings - 1 : int(s.range(0, rings - 1));
  p["views"] = n / 2; // "Can only process data without mashing of views"
  p["tang"] = s.chance(1, 3) ? max_tang : int(s.range(std::min(2, max_tang), max_tang));
  p["arccorr"] = false;
  p["tof_mash"] = 0;
  p["trim"] = json::object();
  c["pdi"] = p;
  fix_tang(c);
  c["seed_data"] = s.seed64();
  c["seed_par"] = s.seed64();
  c["seed_noise"] = s.seed64();
  c["gap_value"] = s.pick(std::vector<double>{ 0., 0., 1., -1., 0.5 });
  c["geo_unit_tr"] = int(s.range(0, 5));
  c["geo_unit_ax"] = int(s.range(0, 3));
  c["count_scale"] = s.pick(std::vector<double>{ 0.05, 0.3, 1., 1., 4. });
  c["iterations"] = 10;
  c["kl_threshold"] = s.pick(std::vector<double>{ 0.5, 2., 10. });
  return c;
}

std::vector<json>
fixed_cases(int tier)
{
  std::vector<json> v;
  struct P
  {
    int type, max_delta, tang;
  };
  std::vector<P> ps = { { int(Scanner::Siemens_mMR), 1, 21 }, { int(Scanner::Siemens_mCT), 1, 30 }, { int(Scanner::E953), 2, 63 } };
  if (tier == 1)
    {
      ps.push_back({ int(Scanner::E1080), 2, 64 });
      ps.push_back({ int(Scanner::Siemens_mCT), 14, 15 });
      ps.push_back({ int(Scanner::Siemens_mMR), 9, 19 });
      ps.push_back({ int(Scanner::Siemens_Vision_600), 1, 43 });
      ps.push_back({ int(Scanner::UPENN_5rings), 1, 33 });
    }
  for (const P& q : ps)
    {
      json c;
      c["scanner"] = { { "type", q.type } };
      shared_ptr<Scanner> sc(new Scanner(static_cast<Scanner::Type>(q.type)));
      c["pdi"] = { { "span", 1 },
                   { "max_delta", q.max_delta },
                   { "views", sc->get_num_detectors_per_ring() / 2 },
                   { "tang", q.tang },
                   { "arccorr", false },
                   { "tof_mash", 0 },
                   { "trim", json::object() } };
      c["seed_data"] = 12345 + q.type;
      c["seed_par"] = 777 + q.type;
      c["seed_noise"] = 999 + q.type;
      c["gap_value"] = q.type % 2 ? 0. : 1.;
      c["geo_unit_tr"] = 0;
      c["geo_unit_ax"] = 0;
      c["count_scale"] = 1.;
      c["iterations"] = 3;
      c["kl_threshold"] = 2.;
      v.push_back(c);
    }
  return v;
}

bool
nontrivial(const json& c)
{
  try
    {
      shared_ptr<Scanner> sc = c20::make_scanner(c["scanner"]);
      const Blocks B = Blocks::from(*sc);
      if (B.v_tr > 0 || (B.v_ax > 0 && B.nb_ax > 1))
        return true;
      const int t = c["pdi"]["tang"].get<int>();
      const int half_fan = std::min(-(t / 2) + t - 1, t / 2);
      return sc->get_num_rings() >= 2 && 2 * half_fan + 1 < B.n - 1;
    }
  catch (...)
    {
      return false;
    }
}

} // namespace

const Property&
the_property()
{
  static Property p;
  p.id = "C20";
  p.gen = gen;
  p.check = check;
  p.nontrivial = nontrivial;
  p.fixed_cases = fixed_cases;
  p.rule = ">= 2 rings and fan smaller than the full ring, or virtual crystals present";
  return p;
}

// C20 - component-based normalisation (stir/ML_norm.h): data conversions are lossless, ML steps descend.
//
// One case = one scanner (generated cylindrical, or a small scanner of a predefined family that has virtual crystals,
// or a predefined scanner) + span-1, unmashed, non-arc-corrected, non-TOF projection data (what get_fan_info() accepts,
// ML_norm.cxx:974-995 and the TOF error() at 1063/1145) with a max ring difference and a number of tangential positions.
// All detector pairs of the fan are enumerated.
//
// Clauses (DESIGN.md "### C20"):
//  (1) make_fan_data_remove_gaps: entry (ra,a,rb,b) == value of the bin get_bin_for_det_pos_pair assigns to the pair
//      (distinct value per bin); symmetric; set_fan_data_add_gaps restores every bin of the fan, gaps get gap_value.
//  (2) apply_efficiencies / apply_block_norm / apply_geo_norm == direct double loop; apply=false restores.
//  (3) data generated exactly from the model => iterate_* return the parameters; make_fan_sum_data == direct sums.
//  (4) efficiency iterations do not increase KL (harness KL in double, each LOR once); stir::KL vs harness KL.
//  (D1-D3) cases with a "driver" object run ML_estimate_component_based_normalisation as a whole (see check_driver below):
//      fixed point of exact data, equality of every written file with an independent re-computation of that ML step, descent.
//  Further parts (c20_more.h; entry-point audit of the anchor files):
//  (R)  cases with a "reuse" object: every output / in-out container of ML_norm.h used BEFORE for another geometry (other fan size,
//       max ring difference, scanner) or other values must give the result of a fresh container, bit by bit.
//  (W)  cases with a "model" object: data with a wide dynamic range (compact source, exact zeros, dead detectors, extreme factors)
//       under the clauses (2)-(4) and D1-D3; the guard of iterate_geo_norm / iterate_block_norm is mirrored as the code states it.
//  (2D) cases with a "twod" object: the DetPairData family on one sinogram pair, same oracles.
//  (M)  cases with a "crystal" object: multiply_crystal_factors against the enumeration of all detector pairs.
#include "c20_more.h"
#include "stir/recon_buildblock/ML_estimate_component_based_normalisation.h"
#include <algorithm>
#include <set>
#include <fstream>
#include <cstring>
#include <iostream>
#include <filesystem>
#include <unistd.h>

using namespace vf;
using namespace stir;

namespace {

using namespace c20;


// ---- clause 1 ------------------------------------------------------------------------------------------
struct ConvOut
{
  shared_ptr<ExamInfo> exam;
  shared_ptr<ProjDataInMemory> pd; // distinct value per bin
  std::vector<float> vals;         // the same values, flat (BinStore order)
  std::vector<float> back;         // bins after make_fan_data_remove_gaps + set_fan_data_add_gaps into fresh projection data
  FanProjData fan;
  bool has_signed = false; // second pass (case key "signed_data"): the same bins with negative values and exact zeros
  FanProjData fan_signed;
};

Result
check_conversion(Ctx& X, ConvOut& out)
{
  const Blocks& B = X.B;
  const FanDims& F = X.F;
  const ProjDataInfoCylindricalNoArcCorr& p = *X.pdi;
  c20::BinStore store(X.pdi_sptr);
  const long N = store.total;
  // a distinct value per bin: 1 + (idx*A + C) mod N with gcd(A,N)=1 (exactly representable: N < 2^24 is checked)
  if (N >= (1L << 24))
    return Result::reject("more than 2^24 bins");
  vf::SplitMix g(X.c["seed_data"].get<uint64_t>());
  long A = 1 + long(g.next() % uint64_t(std::max(1L, N)));
  while (std::gcd(A, N) != 1)
    A = A % N + 1;
  const long C = long(g.next() % uint64_t(N));
  std::vector<float> vals(static_cast<std::size_t>(N));
  for (long i = 0; i < N; ++i)
    vals[std::size_t(i)] = float(1 + (i * A + C) % N);
  shared_ptr<ExamInfo> exam(new ExamInfo);
  out.exam = exam;
  out.pd.reset(new ProjDataInMemory(exam, X.pdi_sptr));
  ProjDataInMemory& pd = *out.pd;
  store.to_projdata(pd, vals);

  // get_fan_info: the sizes every function of the family starts from (ML_norm.cxx:973-995)
  {
    int gr, gn, gd, gf;
    get_fan_info(gr, gn, gd, gf, p);
    VF_CHECK(gr == B.nr && gn == B.n && gd == F.max_delta && gf == F.fan_size, "get_fan_info: rings ", gr, ", detectors per ring ", gn, ", max ring difference ", gd,
             ", fan size ", gf, " expected ", B.nr, ", ", B.n, ", ", F.max_delta, ", ", F.fan_size);
  }
  FanProjData fan;
  make_fan_data_remove_gaps(fan, pd);
  VF_CHECK(fan.get_num_rings() == B.nrphys && fan.get_num_detectors_per_ring() == B.nphys, "fan data dimensions ", fan.get_num_rings(), "x",
           fan.get_num_detectors_per_ring(), " != physical ", B.nrphys, "x", B.nphys);
  VF_CHECK(fan.get_max_delta() == F.new_max_delta, "fan max ring difference ", fan.get_max_delta(), " != ", F.new_max_delta);
  VF_CHECK(fan.get_min_b(0) == B.nphys / 2 - F.new_half_fan && fan.get_max_b(0) == B.nphys / 2 + F.new_half_fan, "fan range of detector 0: [",
           fan.get_min_b(0), ",", fan.get_max_b(0), "] expected half fan ", F.new_half_fan);

  long n_assigned = 0, n_unassigned = 0;
  for (const Entry& e : X.dom)
    {
      const int ra = B.orig_ax(e.ra), a = B.orig_tr(e.a), rb = B.orig_ax(e.rb), b = B.orig_tr(e.b);
      const DetectionPositionPair<> dp(DetectionPosition<>(a, ra), DetectionPosition<>(b, rb));
      Bin bin;
      float want = 0.F;
      bool has_bin = false;
      if (p.get_bin_for_det_pos_pair(bin, dp) == Succeeded::yes
          && store.in_range(bin.segment_num(), bin.axial_pos_num(), bin.view_num(), bin.tangential_pos_num())
          && std::abs(bin.tangential_pos_num()) <= F.half_fan)
        {
          has_bin = true;
          want = vals[std::size_t(store.index(bin.segment_num(), bin.axial_pos_num(), bin.view_num(), bin.tangential_pos_num()))];
        }
      const float got = fan(e.ra, e.a, e.rb, e.b);
      if (has_bin)
        {
          ++n_assigned;
          VF_CHECK(got == want, "make_fan_data_remove_gaps: entry (ra=", e.ra, ",a=", e.a, ",rb=", e.rb, ",b=", e.b, ") [scanner indices (", ra, ",", a,
                   ",", rb, ",", b, ")] = ", got, " but its bin (seg ", bin.segment_num(), ", ax ", bin.axial_pos_num(), ", view ", bin.view_num(),
                   ", tang ", bin.tangential_pos_num(), ") holds ", want);
        }
      else
        {
          ++n_unassigned;
          VF_CHECK(got == 0.F, "make_fan_data_remove_gaps: entry (ra=", e.ra, ",a=", e.a, ",rb=", e.rb, ",b=", e.b, ") has no bin in the data but holds ",
                   got);
        }
      const float sym = fan(e.rb, e.b, e.ra, e.a);
      VF_CHECK(sym == got, "fan data not symmetric at (", e.ra, ",", e.a, ",", e.rb, ",", e.b, "): ", got, " vs ", sym);
    }
  stats().count("fan entries with a bin", n_assigned);
  stats().count("fan entries without a bin", n_unassigned);

  // back: every bin of the fan is restored, gap bins get gap_value
  const float gap_value = X.c["gap_value"].get<float>();
  ProjDataInMemory pd2(exam, X.pdi_sptr);
  pd2.fill(-7.F);
  set_fan_data_add_gaps(pd2, fan, gap_value);
  const std::vector<float> back = store.from_projdata(pd2);
  long n_gap = 0, n_outside = 0, n_restored = 0;
  for (int s = p.get_min_segment_num(); s <= p.get_max_segment_num(); ++s)
    for (int ax = p.get_min_axial_pos_num(s); ax <= p.get_max_axial_pos_num(s); ++ax)
      for (int v = p.get_min_view_num(); v <= p.get_max_view_num(); ++v)
        for (int t = p.get_min_tangential_pos_num(); t <= p.get_max_tangential_pos_num(); ++t)
          {
            const std::size_t idx = std::size_t(store.index(s, ax, v, t));
            DetectionPositionPair<> dp;
            p.get_det_pos_pair_for_bin(dp, Bin(s, v, ax, t));
            const bool gap = B.virt_tr(dp.pos1().tangential_coord()) || B.virt_tr(dp.pos2().tangential_coord()) || B.virt_ax(dp.pos1().axial_coord())
                             || B.virt_ax(dp.pos2().axial_coord());
            if (std::abs(t) > F.half_fan)
              {
                // outside the (symmetric, odd-sized) fan: get_fan_info() truncates to min(max_tang,-min_tang) - finding F1.
                // Not demanded unless the exclusion is switched off.
                ++n_outside;
                if (!no_exclude && !gap)
                  excluded(SIG_F1);
                if (no_exclude && !gap)
                  VF_CHECK(back[idx] == vals[idx], "round trip loses bin (seg ", s, ", ax ", ax, ", view ", v, ", tang ", t,
                           ") outside the symmetric fan: ", back[idx], " instead of ", vals[idx]);
                continue;
              }
            if (gap)
              {
                ++n_gap;
                VF_CHECK(back[idx] == gap_value, "gap bin (seg ", s, ", ax ", ax, ", view ", v, ", tang ", t, ") holds ", back[idx], " instead of gap_value ",
                         gap_value);
              }
            else
              {
                ++n_restored;
                VF_CHECK(back[idx] == vals[idx], "round trip changes bin (seg ", s, ", ax ", ax, ", view ", v, ", tang ", t, "): ", back[idx],
                         " instead of ", vals[idx]);
              }
          }
  stats().count("bins restored", n_restored);
  stats().count("gap bins", n_gap);
  stats().count("bins outside the fan (not compared)", n_outside);
  if (n_outside)
    stats().cls("asymmetric tangential range");
  if (n_gap)
    stats().cls("gap bins present");

  // make_fan_sum_data(ProjData) with virtual crystals: it works in scanner indices and sums every bin of the fan (gap bins too)
  // into both of its detectors.  Reference: a loop over the bins with get_det_pos_pair_for_bin (the function uses get_det_pair_for_bin).
  if (B.v_tr != 0 || B.v_ax != 0)
    {
      Array<2, float> s1(IndexRange2D(B.nr, B.n));
      make_fan_sum_data(s1, pd);
      std::vector<double> ref(std::size_t(B.nr) * B.n, 0.);
      for (int s = p.get_min_segment_num(); s <= p.get_max_segment_num(); ++s)
        for (int ax = p.get_min_axial_pos_num(s); ax <= p.get_max_axial_pos_num(s); ++ax)
          for (int v = p.get_min_view_num(); v <= p.get_max_view_num(); ++v)
            for (int t = -F.half_fan; t <= F.half_fan; ++t)
              {
                DetectionPositionPair<> dp;
                p.get_det_pos_pair_for_bin(dp, Bin(s, v, ax, t));
                const double val = vals[std::size_t(store.index(s, ax, v, t))];
                ref[std::size_t(dp.pos1().axial_coord()) * B.n + dp.pos1().tangential_coord()] += val;
                ref[std::size_t(dp.pos2().axial_coord()) * B.n + dp.pos2().tangential_coord()] += val;
              }
      for (int r = 0; r < B.nr; ++r)
        for (int a = 0; a < B.n; ++a)
          {
            const double want = ref[std::size_t(r) * B.n + a];
            const double scale = std::max(want, 1.);
            smax("max rel err fan sums", std::fabs(s1[r][a] - want) / scale);
            VF_CHECK(std::fabs(s1[r][a] - want) <= TOL_SUMS * scale, "make_fan_sum_data(ProjData, scanner with virtual crystals) ring ", r, " det ", a, ": ", s1[r][a],
                     " vs direct sum over the bins ", want);
          }
    }
  // make_fan_sum_data(ProjData) == fan sums of the fan data (no gaps: the ProjData version works in scanner indices)
  if (B.v_tr == 0 && B.v_ax == 0)
    {
      Array<2, float> s1(IndexRange2D(B.nr, B.n)), s2(IndexRange2D(B.nr, B.n));
      make_fan_sum_data(s1, pd);
      make_fan_sum_data(s2, fan);
      std::vector<double> ref(std::size_t(B.nr) * B.n, 0.);
      const std::vector<double> snap = snapshot(fan, X.dom);
      for (std::size_t i = 0; i < X.dom.size(); ++i)
        ref[std::size_t(X.dom[i].ra) * B.n + X.dom[i].a] += snap[i];
      for (int r = 0; r < B.nr; ++r)
        for (int a = 0; a < B.n; ++a)
          {
            const double want = ref[std::size_t(r) * B.n + a];
            const double scale = std::max(want, 1.);
            smax("max rel err fan sums", std::max(std::fabs(s1[r][a] - want), std::fabs(s2[r][a] - want)) / scale);
            VF_CHECK(std::fabs(s1[r][a] - want) <= TOL_SUMS * scale, "make_fan_sum_data(ProjData) ring ", r, " det ", a, ": ", s1[r][a], " vs direct sum ",
                     want);
            VF_CHECK(std::fabs(s2[r][a] - want) <= TOL_SUMS * scale, "make_fan_sum_data(FanProjData) ring ", r, " det ", a, ": ", s2[r][a],
                     " vs direct sum ", want);
          }
    }
  // ---- second pass: data with NEGATIVE values and EXACT ZEROS (projection data are any floats: precorrected data, differences) ----
  // the value of a bin is +-(its distinct value of the first pass) or 0; every clause of the first pass is decided again
  if (X.c.value("signed_data", 0) != 0)
    {
      stats().cls("conversion also on data with negative values and exact zeros");
      const uint64_t sseed = X.c["seed_data"].get<uint64_t>() ^ 0x51e9edULL;
      std::vector<float> sv(vals);
      long nz = 0, nn = 0;
      for (long i = 0; i < N; ++i)
        {
          const double h = c20::hreal(sseed, uint64_t(i), 0., 1.);
          if (h < 0.04)
            sv[std::size_t(i)] = 0.F, ++nz;
          else if (h < 0.45)
            sv[std::size_t(i)] = -sv[std::size_t(i)], ++nn;
        }
      stats().count("signed pass: bins exactly 0", nz);
      stats().count("signed pass: bins negative", nn);
      ProjDataInMemory pdS(exam, X.pdi_sptr);
      store.to_projdata(pdS, sv);
      FanProjData fanS;
      make_fan_data_remove_gaps(fanS, pdS);
      for (const Entry& e : X.dom)
        {
          const DetectionPositionPair<> dp(DetectionPosition<>(B.orig_tr(e.a), B.orig_ax(e.ra)), DetectionPosition<>(B.orig_tr(e.b), B.orig_ax(e.rb)));
          Bin bin;
          float want = 0.F;
          if (p.get_bin_for_det_pos_pair(bin, dp) == Succeeded::yes
              && store.in_range(bin.segment_num(), bin.axial_pos_num(), bin.view_num(), bin.tangential_pos_num()) && std::abs(bin.tangential_pos_num()) <= F.half_fan)
            want = sv[std::size_t(store.index(bin.segment_num(), bin.axial_pos_num(), bin.view_num(), bin.tangential_pos_num()))];
          const float got = fanS(e.ra, e.a, e.rb, e.b);
          VF_CHECK(got == want, "make_fan_data_remove_gaps (data with negative values and zeros): entry (ra=", e.ra, ",a=", e.a, ",rb=", e.rb, ",b=", e.b, ") = ", got,
                   " but its bin (seg ", bin.segment_num(), ", ax ", bin.axial_pos_num(), ", view ", bin.view_num(), ", tang ", bin.tangential_pos_num(), ") holds ", want);
          VF_CHECK(fanS(e.rb, e.b, e.ra, e.a) == got, "fan data (negative values and zeros) not symmetric at (", e.ra, ",", e.a, ",", e.rb, ",", e.b, ")");
        }
      ProjDataInMemory pdS2(exam, X.pdi_sptr);
      pdS2.fill(-7.F);
      set_fan_data_add_gaps(pdS2, fanS, gap_value);
      const std::vector<float> backS = store.from_projdata(pdS2);
      for (int s = p.get_min_segment_num(); s <= p.get_max_segment_num(); ++s)
        for (int ax = p.get_min_axial_pos_num(s); ax <= p.get_max_axial_pos_num(s); ++ax)
          for (int v = p.get_min_view_num(); v <= p.get_max_view_num(); ++v)
            for (int t = p.get_min_tangential_pos_num(); t <= p.get_max_tangential_pos_num(); ++t)
              {
                const std::size_t idx = std::size_t(store.index(s, ax, v, t));
                DetectionPositionPair<> dp;
                p.get_det_pos_pair_for_bin(dp, Bin(s, v, ax, t));
                const bool gap = B.virt_tr(dp.pos1().tangential_coord()) || B.virt_tr(dp.pos2().tangential_coord()) || B.virt_ax(dp.pos1().axial_coord())
                                 || B.virt_ax(dp.pos2().axial_coord());
                if (std::abs(t) > F.half_fan)
                  {
                    // finding F1 (see the first pass)
                    if (no_exclude && !gap)
                      VF_CHECK(backS[idx] == sv[idx], "round trip loses bin (seg ", s, ", ax ", ax, ", view ", v, ", tang ", t, ") outside the symmetric fan");
                    continue;
                  }
                if (gap)
                  VF_CHECK(backS[idx] == gap_value, "gap bin (seg ", s, ", ax ", ax, ", view ", v, ", tang ", t, ") holds ", backS[idx], " instead of gap_value ", gap_value,
                           " (data with negative values and zeros)");
                else
                  VF_CHECK(backS[idx] == sv[idx], "round trip changes bin (seg ", s, ", ax ", ax, ", view ", v, ", tang ", t, ") of data with negative values and zeros: ",
                           backS[idx], " instead of ", sv[idx]);
              }
      out.has_signed = true;
      out.fan_signed = fanS;
    }
  out.fan = fan;
  out.vals = vals;
  out.back = back;
  return Result::pass();
}

// ---- generic "apply == direct loop, un-apply restores" -----------------------------------------------------
template <class ApplyF>
Result
check_apply(const char* what, const Ctx& X, const FanProjData& f0, const std::vector<double>& base, const std::vector<double>& factor, ApplyF apply)
{
  FanProjData f = f0;
  apply(f, true);
  const std::vector<double> got = snapshot(f, X.dom);
  double worst = 0;
  for (std::size_t i = 0; i < X.dom.size(); ++i)
    {
      const double want = base[i] * factor[i];
      const double err = std::fabs(got[i] - want) / std::max(std::fabs(want), 1e-30);
      if (want != 0)
        worst = std::max(worst, err);
      if (!(want == 0 ? got[i] == 0 : err <= TOL_APPLY))
        return Result::fail(cat(what, "(apply=true): entry (ra=", X.dom[i].ra, ",a=", X.dom[i].a, ",rb=", X.dom[i].rb, ",b=", X.dom[i].b, ") = ", got[i],
                                " expected ", base[i], " x ", factor[i], " = ", want));
    }
  smax(std::string("max rel err ") + what + " apply", worst);
  apply(f, false);
  const std::vector<double> back = snapshot(f, X.dom);
  worst = 0;
  for (std::size_t i = 0; i < X.dom.size(); ++i)
    {
      const double err = std::fabs(back[i] - base[i]) / std::max(std::fabs(base[i]), 1e-30);
      if (base[i] != 0)
        worst = std::max(worst, err);
      if (!(base[i] == 0 ? back[i] == 0 : err <= TOL_UNAPPLY))
        return Result::fail(cat(what, "(apply=false) does not restore entry (ra=", X.dom[i].ra, ",a=", X.dom[i].a, ",rb=", X.dom[i].rb, ",b=", X.dom[i].b,
                                "): ", back[i], " instead of ", base[i]));
    }
  smax(std::string("max rel err ") + what + " un-apply", worst);
  return Result::pass();
}

Result check_driver(const json& c);

Result
check(const json& c)
{
  g_excluded.clear();
  if (c.contains("driver"))
    return check_driver(c);
  if (c.contains("crystal"))
    return c20::check_crystal(c);
  shared_ptr<Scanner> sc;
  shared_ptr<ProjDataInfo> pdi_sptr;
  try
    {
      sc = c20::make_scanner(c["scanner"]);
      if (sc->check_consistency() != Succeeded::yes)
        return Result::reject("scanner inconsistent");
      pdi_sptr = vg::make_pdi(sc, c["pdi"]);
    }
  catch (const std::exception& e)
    {
      return Result::reject(std::string("construction rejected: ") + e.what());
    }
  const ProjDataInfoCylindricalNoArcCorr* pdi = dynamic_cast<const ProjDataInfoCylindricalNoArcCorr*>(pdi_sptr.get());
  if (!pdi)
    return Result::reject("not cylindrical non-arc-corrected data");
  const Blocks B = Blocks::from(*sc);
  const FanDims F = FanDims::from(*pdi, B);
  // preconditions asserted by the FanProjData constructor (ML_norm.cxx:729-731)
  if (!F.constructible(B))
    return Result::reject("fan not smaller than the ring (FanProjData constructor precondition)");
  Ctx X{ c, sc, pdi_sptr, pdi, B, F, fan_domain(B, F) };
  const int nph = B.nphys, nrph = B.nrphys;
  stats().cls(c["scanner"].contains("family") ? "family-typed small scanner" : (c["scanner"]["type"].get<int>() >= 0 ? "predefined scanner" : "generated scanner"));
  if (B.v_tr)
    stats().cls("virtual transaxial crystals");
  if (B.v_ax && B.nb_ax > 1)
    stats().cls("virtual axial crystals");
  if (F.max_delta > 0)
    stats().cls("max ring difference > 0");
  stats().count("detector pairs enumerated", long(X.dom.size()));

  // ---- (1) conversions -------------------------------------------------------------------------------------
  ConvOut conv;
  {
    Result r = check_conversion(X, conv);
    if (r.kind != Result::PASS)
      return r;
  }
  const FanProjData& fan0 = conv.fan;
  const bool big = X.dom.size() > 1500000;
  const std::vector<double> base = snapshot(fan0, X.dom);
  const uint64_t seed_par = c["seed_par"].get<uint64_t>();
  const ModelSpec M = ModelSpec::from(c);
  if (M.wide)
    {
      stats().cls("model: wide dynamic range");
      if (M.extreme_factors)
        stats().cls("model: some geometric/block factors extreme (1e-6, 1e-3, 1e5, 1e7)");
      if (M.dead)
        stats().cls("model: dead detectors (all LORs zero)");
      if (M.zero_frac > 0)
        stats().cls("model: exact zeros on a fraction of the LORs");
    }
  else
    stats().cls("model: flat (values in [1,50])");

  // ---- (2a) efficiencies ---------------------------------------------------------------------------------------
  DetectorEfficiencies eff(IndexRange2D(nrph, nph));
  for (int r = 0; r < nrph; ++r)
    for (int a = 0; a < nph; ++a)
      eff[r][a] = float(c20::hreal(seed_par, uint64_t(r) * 4096 + uint64_t(a), 0.2, 5.)); // efficiencies in [0.2,5] (DESIGN section 3)
  {
    std::vector<double> fac(X.dom.size());
    for (std::size_t i = 0; i < X.dom.size(); ++i)
      fac[i] = double(eff[X.dom[i].ra][X.dom[i].a]) * double(eff[X.dom[i].rb][X.dom[i].b]);
    Result r = check_apply("apply_efficiencies", X, fan0, base, fac, [&](FanProjData& f, bool ap) { apply_efficiencies(f, eff, ap); });
    if (r.kind == Result::PASS && conv.has_signed)
      r = check_apply("apply_efficiencies [negative values and zeros]", X, conv.fan_signed, snapshot(conv.fan_signed, X.dom), fac,
                      [&](FanProjData& f, bool ap) { apply_efficiencies(f, eff, ap); });
    if (r.kind != Result::PASS)
      return r;
  }

  // ---- (2a') dead detectors: efficiencies EXACTLY 0 (what iterate_efficiencies writes for a detector without counts) ----------------
  // "multiplies each detector-pair entry by the product of the factors of its two detectors": the product is 0 for every pair of a
  // dead detector, unchanged elsewhere.  apply=true only (un-applying would divide by 0: outside the statement).
  if (const int n_dead = c.value("dead_eff", 0))
    {
      stats().cls("apply_efficiencies with dead detectors (efficiency exactly 0)");
      DetectorEfficiencies eff0 = eff;
      for (int k = 0; k < n_dead; ++k)
        {
          const long di = long(c20::hreal(seed_par ^ 0xdeadeffULL, uint64_t(k), 0., 1.) * double(nrph) * double(nph)) % (long(nrph) * nph);
          eff0[int(di / nph)][int(di % nph)] = 0.F;
        }
      FanProjData f = fan0;
      apply_efficiencies(f, eff0, true);
      const std::vector<double> got = snapshot(f, X.dom);
      long n0 = 0;
      for (std::size_t i = 0; i < X.dom.size(); ++i)
        {
          const Entry& e = X.dom[i];
          const double fac = double(eff0[e.ra][e.a]) * double(eff0[e.rb][e.b]), want = base[i] * fac;
          if (fac == 0.)
            {
              ++n0;
              VF_CHECK(got[i] == 0., "apply_efficiencies: entry (ra=", e.ra, ",a=", e.a, ",rb=", e.rb, ",b=", e.b, ") of a detector with efficiency 0 holds ", got[i],
                       " (data value ", base[i], ")");
            }
          else
            VF_CHECK(std::fabs(got[i] - want) <= TOL_APPLY * std::fabs(want), "apply_efficiencies (with dead detectors elsewhere): entry (ra=", e.ra, ",a=", e.a,
                     ",rb=", e.rb, ",b=", e.b, ") = ", got[i], " expected ", base[i], " x ", fac, " = ", want);
        }
      stats().count("entries of dead detectors (product 0 expected)", n0);
    }

  // ---- (2b) block factors ----------------------------------------------------------------------------------------
  // BlockData3D as allocate()/ML_estimate build it: FanProjData(nb_ax, nb_tr, nb_ax-1, nb_tr-1): needs an even number of
  // transaxial blocks (constructor assert) and contains every block pair EXCEPT two blocks at the same transaxial position:
  // a detector pair inside one transaxial block position has no block factor, i.e. the factor 1 (fixed defect F3: the pair was
  // looked up outside the container).
  const bool block_ok = B.nb_tr >= 2 && B.nb_tr % 2 == 0;
  if (block_ok && F.new_half_fan > nph / 2 - B.p_tr)
    stats().cls("block factors: fan contains two detectors of one block");
  BlockData3D bd;
  std::vector<double> bfac;
  if (block_ok)
    {
      stats().cls("block factors checked");
      bd = BlockData3D(B.nb_ax, B.nb_tr, B.nb_ax - 1, B.nb_tr - 1);
      // symmetric under exchange of the two blocks (for two blocks of one axial position the container has two cells)
      for (int RA = bd.get_min_ra(); RA <= bd.get_max_ra(); ++RA)
        for (int A = bd.get_min_a(); A <= bd.get_max_a(); ++A)
          for (int RB = std::max(RA, bd.get_min_rb(RA)); RB <= bd.get_max_rb(RA); ++RB)
            for (int Bq = bd.get_min_b(A); Bq <= bd.get_max_b(A); ++Bq)
              bd(RA, A, RB, Bq) = c20::factor_value(M, seed_par ^ 0xb10cULL, c20::pair_key(RA, A, RB, Bq % B.nb_tr, B.nb_tr));
      bfac.resize(X.dom.size());
      for (std::size_t i = 0; i < X.dom.size(); ++i)
        {
          const Entry& e = X.dom[i];
          bfac[i] = e.a / B.p_tr == e.b / B.p_tr
                        ? 1.
                        : double(c20::factor_value(M, seed_par ^ 0xb10cULL, c20::pair_key(e.ra / B.p_ax, e.a / B.p_tr, e.rb / B.p_ax, e.b / B.p_tr, B.nb_tr)));
        }
      Result r = check_apply("apply_block_norm", X, fan0, base, bfac, [&](FanProjData& f, bool ap) { apply_block_norm(f, bd, ap); });
      if (r.kind == Result::PASS && conv.has_signed)
        r = check_apply("apply_block_norm [negative values and zeros]", X, conv.fan_signed, snapshot(conv.fan_signed, X.dom), bfac,
                        [&](FanProjData& f, bool ap) { apply_block_norm(f, bd, ap); });
      if (r.kind != Result::PASS)
        return r;
    }
  else
    stats().cls("block factors not applicable (odd number of blocks or one block)");

  // ---- (2c) geometric factors ----------------------------------------------------------------------------------------
  // symmetry unit: an even divisor of the physical detectors per ring (GeoData3D stores half a unit: allocate() passes unit/2)
  // and a divisor of the physical rings; the block / bucket sizes are preferred.
  int unit_tr = 0, unit_ax = 0;
  {
    std::vector<int> ut, ua;
    for (int d : vg::divisors(nph))
      if (d % 2 == 0)
        ut.push_back(d);
    for (int d : vg::divisors(nrph))
      ua.push_back(d);
    const int want_tr = c["geo_unit_tr"].get<int>(), want_ax = c["geo_unit_ax"].get<int>();
    if (!ut.empty())
      {
        if (want_tr == 0 && B.p_tr % 2 == 0)
          unit_tr = B.p_tr;
        else if (want_tr == 1 && (B.p_tr * B.bpb_tr) % 2 == 0 && nph % (B.p_tr * B.bpb_tr) == 0)
          unit_tr = B.p_tr * B.bpb_tr;
        else
          unit_tr = ut[std::size_t(want_tr) % ut.size()];
      }
    if (want_ax == 0)
      unit_ax = B.p_ax;
    else if (want_ax == 1 && nrph % (B.p_ax * B.bpb_ax) == 0)
      unit_ax = B.p_ax * B.bpb_ax;
    else
      unit_ax = ua[std::size_t(want_ax) % ua.size()];
  }
  const bool geo_ok = unit_tr > 0 && double(nph) * nph * nrph * nrph <= 3e6;
  GeoData3D gd;
  std::vector<double> gfac;
  if (geo_ok)
    {
      stats().cls("geometric factors checked");
      c20::GeoClasses cl(nph, nrph, unit_tr, unit_ax);
      gd = GeoData3D(unit_ax, unit_tr / 2, nrph, nph);
      auto gval = [&](int ra, int a, int rb, int b) { return c20::factor_value(M, seed_par ^ 0x6e0ULL, uint64_t(cl.cls(ra, a, rb, b))); };
      for (int ra = 0; ra < unit_ax; ++ra)
        for (int a = 0; a < unit_tr / 2; ++a)
          for (int rb = ra; rb < nrph; ++rb)
            for (int b = 0; b < nph; ++b)
              gd(ra, a, rb, b) = gval(ra, a, rb, b);
      gfac.resize(X.dom.size());
      for (std::size_t i = 0; i < X.dom.size(); ++i)
        gfac[i] = double(gval(X.dom[i].ra, X.dom[i].a, X.dom[i].rb, X.dom[i].b));
      Result r = check_apply("apply_geo_norm", X, fan0, base, gfac, [&](FanProjData& f, bool ap) { apply_geo_norm(f, gd, ap); });
      if (r.kind == Result::PASS && conv.has_signed)
        r = check_apply("apply_geo_norm [negative values and zeros]", X, conv.fan_signed, snapshot(conv.fan_signed, X.dom), gfac,
                        [&](FanProjData& f, bool ap) { apply_geo_norm(f, gd, ap); });
      if (r.kind != Result::PASS)
        return r;
    }
  else
    stats().cls(unit_tr > 0 ? "geometric factors skipped (too large for the class table)" : "geometric factors not applicable (no even unit)");

  // ---- output-argument re-use histories, 2-D family (c20_more.h) ------------------------------------------------------------------------
  if (c.contains("reuse"))
    {
      c20::ReuseIn in{ conv.exam, conv.pd.get(), &fan0, &conv.back, c["gap_value"].get<float>(), &eff, geo_ok ? unit_tr : 0, geo_ok ? unit_ax : 0, geo_ok, block_ok };
      Result r = c20::check_reuse(X, in);
      if (r.kind != Result::PASS)
        return r;
    }
  if (c.contains("twod"))
    {
      Result r = c20::check_2d(X, conv.exam, *conv.pd, conv.vals, M);
      if (r.kind != Result::PASS)
        return r;
    }

  if (big)
    {
      stats().cls("large case: iterations skipped");
      return Result::pass();
    }

  // ---- (3) fixed points --------------------------------------------------------------------------------------------------
  // model: positive, symmetric
  std::vector<double> model(X.dom.size());
  for (std::size_t i = 0; i < X.dom.size(); ++i)
    model[i] = double(float(c20::model_value(M, seed_par, X.dom[i], nph, nrph, F)));
  FanProjData mfan = fan0;
  set_all(mfan, X.dom, model);
  if (M.wide)
    {
      // the three kinds of factors applied to data with a wide dynamic range and exact zeros
      std::vector<double> fac(X.dom.size());
      for (std::size_t i = 0; i < X.dom.size(); ++i)
        fac[i] = double(eff[X.dom[i].ra][X.dom[i].a]) * double(eff[X.dom[i].rb][X.dom[i].b]);
      Result r = check_apply("apply_efficiencies [wide model]", X, mfan, model, fac, [&](FanProjData& f, bool ap) { apply_efficiencies(f, eff, ap); });
      if (r.kind == Result::PASS && block_ok)
        r = check_apply("apply_block_norm [wide model]", X, mfan, model, bfac, [&](FanProjData& f, bool ap) { apply_block_norm(f, bd, ap); });
      if (r.kind == Result::PASS && geo_ok)
        r = check_apply("apply_geo_norm [wide model]", X, mfan, model, gfac, [&](FanProjData& f, bool ap) { apply_geo_norm(f, gd, ap); });
      if (r.kind != Result::PASS)
        return r;
    }
  auto direct_sums = [&](const std::vector<double>& v) {
    std::vector<double> s(std::size_t(nrph) * nph, 0.);
    for (std::size_t i = 0; i < X.dom.size(); ++i)
      s[std::size_t(X.dom[i].ra) * nph + X.dom[i].a] += v[i];
    return s;
  };
  {
    // data = model x e_a e_b exactly
    std::vector<double> data(X.dom.size());
    for (std::size_t i = 0; i < X.dom.size(); ++i)
      data[i] = double(float(model[i] * double(eff[X.dom[i].ra][X.dom[i].a]) * double(eff[X.dom[i].rb][X.dom[i].b])));
    FanProjData dfan = fan0;
    set_all(dfan, X.dom, data);
    Array<2, float> sums(IndexRange2D(nrph, nph));
    make_fan_sum_data(sums, dfan);
    const std::vector<double> ref = direct_sums(data);
    for (int r = 0; r < nrph; ++r)
      for (int a = 0; a < nph; ++a)
        {
          const double want = ref[std::size_t(r) * nph + a];
          if (want == 0)
            {
              // wide model: every LOR of this detector is exactly 0
              VF_CHECK(sums[r][a] == 0, "make_fan_sum_data ring ", r, " det ", a, ": ", sums[r][a], " but all entries of the fan are 0");
              continue;
            }
          smax("max rel err fan sums", std::fabs(sums[r][a] - want) / want);
          VF_CHECK(std::fabs(sums[r][a] - want) <= TOL_SUMS * want, "make_fan_sum_data ring ", r, " det ", a, ": ", sums[r][a], " vs direct sum ", want);
        }
    DetectorEfficiencies e2 = eff;
    iterate_efficiencies(e2, sums, mfan);
    long n_dead = 0;
    for (int r = 0; r < nrph; ++r)
      for (int a = 0; a < nph; ++a)
        {
          if (ref[std::size_t(r) * nph + a] == 0)
            {
              // a detector without any data has no identifiable efficiency: iterate_efficiencies sets it to 0
              // ("if (data_fan_sums[ra][a] == 0) efficiencies[ra][a] = 0", ML_norm.cxx:1643)
              ++n_dead;
              VF_CHECK(e2[r][a] == 0, "iterate_efficiencies: detector ring ", r, " det ", a, " has fan sum 0 but gets efficiency ", e2[r][a]);
              continue;
            }
          const double err = std::fabs(e2[r][a] - eff[r][a]) / eff[r][a];
          smax(M.wide ? "max rel err fixed point efficiencies (wide model)" : "max rel err fixed point efficiencies", err);
          VF_CHECK(err <= TOL_FIXED, "iterate_efficiencies moves the exact parameters: ring ", r, " det ", a, ": ", eff[r][a], " -> ", e2[r][a]);
        }
    stats().count("fixed point: detectors with fan sum 0 (efficiency 0 expected)", n_dead);
    // KL(Array, Array, threshold) (template in ML_norm.h; the driver uses it on fan sums / geo data): sum of the documented term over
    // all elements.  Here: fan sums of the data against fan sums of the bare model (both 0 for a detector without data).
    {
      Array<2, float> msums(IndexRange2D(nrph, nph));
      make_fan_sum_data(msums, mfan);
      for (double thr : { 0., c["kl_threshold"].get<double>() })
        {
          double want = 0, mag = 0;
          for (int r = 0; r < nrph; ++r)
            for (int a = 0; a < nph; ++a)
              if (!(sums[r][a] == 0 && msums[r][a] == 0))
                {
                  want += c20::kl_term(double(sums[r][a]), double(msums[r][a]), thr);
                  mag += double(sums[r][a]) + double(msums[r][a]);
                }
          const double got = KL(sums, msums, thr);
          if (want > 1e-6 * mag)
            smax("max rel dev stir::KL(Array)", std::fabs(got - want) / want);
          VF_CHECK(std::fabs(got - want) <= TOL_KL * want + 1e-12 * mag, "stir::KL(Array<2>, Array<2>, ", thr, ") = ", got,
                   " but the sum of the documented term over all elements is ", want);
        }
    }
    // version without model (model == 1): fan sums from the efficiencies and the fixed point
    {
      Array<2, float> s1(IndexRange2D(nrph, nph));
      make_fan_sum_data(s1, eff, F.new_max_delta, F.new_half_fan);
      std::vector<double> ones(X.dom.size());
      for (std::size_t i = 0; i < X.dom.size(); ++i)
        ones[i] = double(eff[X.dom[i].ra][X.dom[i].a]) * double(eff[X.dom[i].rb][X.dom[i].b]);
      const std::vector<double> ref1 = direct_sums(ones);
      for (int r = 0; r < nrph; ++r)
        for (int a = 0; a < nph; ++a)
          {
            const double want = ref1[std::size_t(r) * nph + a];
            smax("max rel err fan sums", std::fabs(s1[r][a] - want) / want);
            VF_CHECK(std::fabs(s1[r][a] - want) <= TOL_SUMS * want, "make_fan_sum_data(efficiencies) ring ", r, " det ", a, ": ", s1[r][a], " vs direct ",
                     want);
          }
      DetectorEfficiencies e3 = eff;
      iterate_efficiencies(e3, s1, F.new_max_delta, F.new_half_fan);
      for (int r = 0; r < nrph; ++r)
        for (int a = 0; a < nph; ++a)
          {
            const double err = std::fabs(e3[r][a] - eff[r][a]) / eff[r][a];
            smax("max rel err fixed point efficiencies", err);
            VF_CHECK(err <= TOL_FIXED, "iterate_efficiencies (no model) moves the exact parameters: ring ", r, " det ", a, ": ", eff[r][a], " -> ", e3[r][a]);
          }
    }
  }
  if (geo_ok)
    {
      std::vector<double> data(X.dom.size());
      for (std::size_t i = 0; i < X.dom.size(); ++i)
        data[i] = double(float(model[i] * gfac[i]));
      FanProjData dfan = fan0;
      set_all(dfan, X.dom, data);
      GeoData3D measured(unit_ax, unit_tr / 2, nrph, nph), norm(unit_ax, unit_tr / 2, nrph, nph), msum(unit_ax, unit_tr / 2, nrph, nph);
      make_geo_data(measured, dfan);
      iterate_geo_norm(norm, measured, mfan);
      // The guard of iterate_geo_norm as the code states it (ML_norm.cxx:1712-1725; nothing else documents it):
      //    threshold = max(measured) / 10000;   factor = (measured >= threshold || measured < 10000 * model) ? measured / model : 0
      // i.e. a class is switched off (factor 0) only if its data are below 1e-4 of the largest class AND its factor would be >= 1e4.
      // The reference mirrors exactly this: `measured` is the argument handed to the function (so the first comparison is
      // reproduced bit by bit), the second comparison is decided by the true factor, which is either < 100 or >= 1e5 by construction
      // (never near 1e4); a class whose model sum is 0 has no data either and gets 0 through the same guard.
      make_geo_data(msum, mfan);
      const float thr = measured.find_max() / 10000.F;
      // no data in any class (a wide model whose zeros cover the whole fan): the guard's threshold is 0 and 0/0 is computed; nothing
      // is identifiable and nothing is demanded
      if (!(thr > 0))
        stats().cls("geo fixed point skipped: no data in any class");
      long n = 0, n_small = 0, n_off = 0, n_empty = 0;
      for (int ra = 0; ra < unit_ax; ++ra)
        for (int a = 0; a < unit_tr / 2; ++a)
          for (int rb = std::max(ra, mfan.get_min_rb(ra)); thr > 0 && rb <= mfan.get_max_rb(ra); ++rb)
            for (int b = mfan.get_min_b(a); b <= mfan.get_max_b(a); ++b)
              {
                const double g = gd(ra, a, rb, b % nph);
                const double got = norm(ra, a, rb, b % nph);
                const float meas = measured(ra, a, rb, b % nph);
                ++n;
                if (msum(ra, a, rb, b % nph) == 0)
                  {
                    ++n_empty;
                    VF_CHECK(meas == 0 && got == 0, "iterate_geo_norm: class (ra=", ra, ",a=", a, ",rb=", rb, ",b=", b % nph, ") has model sum 0, data sum ", meas,
                             " and gets factor ", got, " (0 expected)");
                    continue;
                  }
                if (meas < thr)
                  ++n_small;
                const bool on = meas >= thr || g < 1e4;
                if (!on)
                  {
                    ++n_off;
                    VF_CHECK(got == 0, "iterate_geo_norm: class (ra=", ra, ",a=", a, ",rb=", rb, ",b=", b % nph, ") with data sum ", meas, " < threshold ", thr,
                             " and true factor ", g, " >= 1e4 gets ", got, " (0 expected from the guard in the code)");
                    continue;
                  }
                const double err = std::fabs(got - g) / g;
                smax(M.wide ? "max rel err fixed point geo (wide model)" : "max rel err fixed point geo", err);
                VF_CHECK(err <= TOL_FIXED, "iterate_geo_norm moves the exact parameters: (ra=", ra, ",a=", a, ",rb=", rb, ",b=", b % nph, "): ", g, " -> ", got,
                         " (data sum of the class ", meas, ", largest class ", measured.find_max(), ")");
              }
      stats().count("geo parameters compared", n);
      stats().count("geo classes with data below 1e-4 of the largest class", n_small);
      stats().count("geo classes switched off by the guard (expected 0)", n_off);
      stats().count("geo classes without model and data (expected 0)", n_empty);
      if (n_small)
        stats().cls("geo fixed point: classes below 1e-4 of the largest class present");
    }
  if (block_ok)
    {
      std::vector<double> data(X.dom.size());
      for (std::size_t i = 0; i < X.dom.size(); ++i)
        data[i] = double(float(model[i] * bfac[i]));
      FanProjData dfan = fan0;
      set_all(dfan, X.dom, data);
      BlockData3D measured(B.nb_ax, B.nb_tr, B.nb_ax - 1, B.nb_tr - 1), norm(B.nb_ax, B.nb_tr, B.nb_ax - 1, B.nb_tr - 1);
      make_block_data(measured, dfan);
      iterate_block_norm(norm, measured, mfan);
      // same guard as iterate_geo_norm (ML_norm.cxx:1734-1744), mirrored in the same way
      BlockData3D msum(B.nb_ax, B.nb_tr, B.nb_ax - 1, B.nb_tr - 1);
      make_block_data(msum, mfan);
      const float thr = measured.find_max() / 10000.F;
      // no data in any block pair (all LORs between different blocks are exact zeros of a wide model): threshold 0, 0/0; not demanded
      if (!(thr > 0))
        stats().cls("block fixed point skipped: no data in any block pair");
      long n_small = 0, n_off = 0, n_empty = 0;
      // block pairs that contain at least one detector pair of the fan with ra <= rb (what make_block_data sums)
      std::vector<char> has(std::size_t(B.nb_ax) * B.nb_tr * B.nb_ax * B.nb_tr, 0);
      auto bidx = [&](int RA, int A, int RB, int Bq) { return ((std::size_t(RA) * B.nb_tr + A) * B.nb_ax + RB) * B.nb_tr + Bq; };
      for (const Entry& e : X.dom)
        if (e.ra <= e.rb && e.a / B.p_tr != e.b / B.p_tr)
          has[bidx(e.ra / B.p_ax, e.a / B.p_tr, e.rb / B.p_ax, e.b / B.p_tr)] = 1;
      long n = 0;
      for (int RA = norm.get_min_ra(); RA <= norm.get_max_ra(); ++RA)
        for (int A = norm.get_min_a(); A <= norm.get_max_a(); ++A)
          for (int RB = std::max(RA, norm.get_min_rb(RA)); thr > 0 && RB <= norm.get_max_rb(RA); ++RB)
            for (int Bq = norm.get_min_b(A); Bq <= norm.get_max_b(A); ++Bq)
              {
                if (!has[bidx(RA, A, RB, Bq % B.nb_tr)])
                  continue;
                const double want = bd(RA, A, RB, Bq);
                const double got = norm(RA, A, RB, Bq);
                const float meas = measured(RA, A, RB, Bq);
                ++n;
                if (msum(RA, A, RB, Bq) == 0)
                  {
                    ++n_empty;
                    VF_CHECK(meas == 0 && got == 0, "iterate_block_norm: blocks (", RA, ",", A, ",", RB, ",", Bq % B.nb_tr, ") have model sum 0, data sum ", meas,
                             " and get factor ", got, " (0 expected)");
                    continue;
                  }
                if (meas < thr)
                  ++n_small;
                if (!(meas >= thr || want < 1e4))
                  {
                    ++n_off;
                    VF_CHECK(got == 0, "iterate_block_norm: blocks (", RA, ",", A, ",", RB, ",", Bq % B.nb_tr, ") with data sum ", meas, " < threshold ", thr,
                             " and true factor ", want, " >= 1e4 get ", got, " (0 expected from the guard in the code)");
                    continue;
                  }
                const double err = std::fabs(got - want) / want;
                smax(M.wide ? "max rel err fixed point block (wide model)" : "max rel err fixed point block", err);
                VF_CHECK(err <= TOL_FIXED, "iterate_block_norm moves the exact parameters: blocks (", RA, ",", A, ",", RB, ",", Bq % B.nb_tr, "): ", want,
                         " -> ", got, " (data sum of the block pair ", meas, ", largest ", measured.find_max(), ")");
              }
      stats().count("block parameters compared", n);
      stats().count("block pairs with data below 1e-4 of the largest", n_small);
      stats().count("block pairs switched off by the guard (expected 0)", n_off);
      stats().count("block pairs without model and data (expected 0)", n_empty);
      if (n_small)
        stats().cls("block fixed point: block pairs below 1e-4 of the largest present");
    }

  // ---- (4) descent of the efficiency iterations ------------------------------------------------------------------------------
  {
    const double mean_scale = c["count_scale"].get<double>();
    std::vector<double> data(X.dom.size());
    double total = 0;
    for (std::size_t i = 0; i < X.dom.size(); ++i)
      {
        const Entry& e = X.dom[i];
        vf::SplitMix g(c["seed_noise"].get<uint64_t>() ^ (c20::pair_key(e.ra, e.a, e.rb, e.b, nph) * 0x9e3779b97f4a7c15ULL));
        g.next();
        const double mean = mean_scale * model[i] * double(eff[e.ra][e.a]) * double(eff[e.rb][e.b]);
        data[i] = double(poisson(g, mean)); // same stream for (p,q) and (q,p): symmetric data
        total += data[i];
      }
    FanProjData dfan = fan0;
    set_all(dfan, X.dom, data);
    Array<2, float> sums(IndexRange2D(nrph, nph));
    make_fan_sum_data(sums, dfan);
    bool any_zero_sum = false;
    for (int r = 0; r < nrph; ++r)
      for (int a = 0; a < nph; ++a)
        if (sums[r][a] == 0)
          any_zero_sum = true;
    if (any_zero_sum)
      stats().cls("descent: detector with zero fan sum");
    DetectorEfficiencies e(IndexRange2D(nrph, nph));
    for (int r = 0; r < nrph; ++r)
      for (int a = 0; a < nph; ++a)
        e[r][a] = float(c20::hreal(seed_par ^ 0x57a7ULL, uint64_t(r) * 4096 + uint64_t(a), 0.3, 3.) * std::sqrt(mean_scale));
    // harness KL: every LOR once (ordered domain / 2), in double
    auto kl_parts = [&](const DetectorEfficiencies& ee, double thr, double& same, double& cross) {
      same = cross = 0;
      for (std::size_t i = 0; i < X.dom.size(); ++i)
        {
          const Entry& en = X.dom[i];
          const double m = model[i] * double(ee[en.ra][en.a]) * double(ee[en.rb][en.b]);
          const double t = c20::kl_term(data[i], m, thr);
          (en.ra == en.rb ? same : cross) += 0.5 * t;
        }
    };
    double same, cross;
    kl_parts(e, 0., same, cross);
    double kl_prev = same + cross;
    const int iters = c["iterations"].get<int>();
    for (int k = 1; k <= iters; ++k)
      {
        iterate_efficiencies(e, sums, mfan);
        kl_parts(e, 0., same, cross);
        const double kl = same + cross;
        VF_CHECK(std::isfinite(kl), "KL not finite after efficiency iteration ", k);
        const double excess = (kl - kl_prev) / std::max(kl_prev, 1e-300);
        if (kl_prev > 1e-6 * total)
          smax("max relative KL increase in one efficiency iteration", excess);
        VF_CHECK(kl <= kl_prev * (1. + 1e-6) + 1e-9 * total, "efficiency iteration ", k, " increases KL: ", kl_prev, " -> ", kl);
        kl_prev = kl;
      }
    if (same + cross > 0)
      stats().cls("descent checked");
    // stir::KL on the same (float) model entries
    FanProjData mf = mfan;
    apply_efficiencies(mf, e, true);
    const std::vector<double> msnap = snapshot(mf, X.dom);
    for (double thr : { 0., c["kl_threshold"].get<double>() })
      {
        double s = 0, x = 0, mag = 0;
        for (std::size_t i = 0; i < X.dom.size(); ++i)
          {
            (X.dom[i].ra == X.dom[i].rb ? s : x) += 0.5 * c20::kl_term(data[i], msnap[i], thr);
            mag += data[i] + msnap[i];
          }
        const double stir_kl = KL(dfan, mf, thr);
        // every LOR counts equally: once (or twice, as the 2D DetPairData version does); fixed defect F2 counted the LORs inside
        // one ring twice and the LORs between rings once
        const double once = x + s;
        // the terms a log(a/b) + b - a cancel to ~1e-16 of (a+b) each: absolute slack relative to the summed magnitudes
        const double slack = 1e-12 * mag;
        auto close = [&](double ref) { return std::fabs(stir_kl - ref) <= TOL_KL * ref + slack; };
        if (once > 1e-6 * mag)
          smax("max rel dev stir::KL vs once-per-LOR KL", std::min(std::fabs(stir_kl - once), std::fabs(stir_kl - 2 * once)) / once);
        if (x > 1e-6 * mag && s > 1e-6 * mag)
          stats().cls("stir::KL compared on data with in-ring and cross-ring LORs");
        VF_CHECK(close(once) || close(2 * once), "stir::KL = ", stir_kl, " is neither the once-per-LOR KL ", once, " nor twice it (in-ring part ", s,
                 ", cross-ring part ", x, "), threshold ", thr);
      }
  }
  return Result::pass();
}

// ========================================================================================================================
// The estimation DRIVER  ML_estimate_component_based_normalisation(prefix, measured, model, num_eff_iterations, num_iterations,
//                                                                  do_geo, do_block, do_symmetry_per_block, do_KL, do_display)
// (src/recon_buildblock/ML_estimate_component_based_normalisation.cxx; called as the utility find_ML_normfactors3D calls it).
//
// A driver case = scanner + span-1 data as above + {do_geo, do_block, do_sym, outer (1..4), eff_iters (1..4), mode}.
// The harness generates model and measured values on the detector pairs of the fan (its own fan reference), writes them into
// projection data through get_bin_for_det_pos_pair (gap bins and bins outside the symmetric fan get a filler that must never be
// read), runs the driver in a per-case temporary directory and reads back the files it wrote
//      <prefix>_eff_<k>_<j>.out   <prefix>_geo_<k>.out   <prefix>_block_<k>.out        (k outer, j efficiency iteration)
// with its own parser (numbers in the order stir's operator<< writes nested arrays; 6 significant digits).
//
// Clauses:
//  (D1) FIXED POINT.  mode "fixed": measured = c^2 x model_data with model_data = model x eff x geo x block (harness product):
//       the parameters of these data w.r.t. model_data are (c,1,1), which is also where the driver starts, so after EVERY outer
//       iteration model_data x (read-back factors) must reproduce the measured data entry by entry (rel 2e-4).  (This is what
//       recon_test_pack/run_ML_norm_tests.sh does with one data set.)  For general true factors the driver's result after a
//       finite number of iterations does NOT reproduce the data (it starts from uniform efficiencies), so nothing of that kind is
//       demanded in the other modes.
//  (D2) STEP EQUALITY.  Every file of outer iteration k equals what the primitives of ML_norm.cxx give in the documented order
//       when started from the driver's own files of the previous step:
//         eff_k_j  = iterate_efficiencies(eff_k_(j-1) [eff_(k-1)_last for j=1], fan sums of the data, model x geo_(k-1) x block_(k-1))
//         geo_k    = do_geo   ? iterate_geo_norm(make_geo_data(data), model x eff_k_last x block_(k-1))  : geo_(k-1)
//         block_k  = do_block ? iterate_block_norm(make_block_data(data), model x eff_k_last x geo_k)    : block_(k-1)
//       with geo_0 = block_0 = 1.  The start value of the efficiencies is the driver's own business: eff_1_1 is not compared.
//  (D3) DESCENT.  The harness's double-precision once-per-LOR KL between the measured fan data and model x current factors does
//       not increase along eff_1_1, eff_1_2, ..., geo_1, block_1, eff_2_1, ... (each step is the exact conditional ML update of
//       one group of parameters).
// ========================================================================================================================

// the factors are read back with 6 significant digits (rel 5e-6 each, four factors per pair: worst case 2e-5; observed 1.1e-5)
const double TOL_DRV_FIXED = 2e-4;
// step equality: the inputs are read back with 6 significant digits (rel 5e-6 each), the updates are ratios of positive sums of
// products of <= 4 such factors: worst case ~2.5e-5; calibrated in props.d/C20.py
const double TOL_DRV_STEP = 3e-4;

//! diagnostic switch for sensitivity runs: VERIF_C20_DRIVER_CLAUSES=<subset of "123"> runs only these driver clauses (default: all)
inline bool
drv_clause(char k)
{
  static const char* e = std::getenv("VERIF_C20_DRIVER_CLAUSES");
  return !e || std::strchr(e, k) != nullptr;
}

struct TmpDir
{
  std::string path;
  TmpDir()
  {
    static long counter = 0;
    const char* base = std::getenv("VERIF_TMP");
    const std::string b = base ? std::string(base) : cat("/tmp/verif_", long(getpid()));
    path = cat(b, "/c20_", long(getpid()), "_", ++counter);
    std::filesystem::create_directories(path);
  }
  ~TmpDir()
  {
    std::error_code ec;
    std::filesystem::remove_all(path, ec);
    if (!std::getenv("VERIF_TMP"))
      std::filesystem::remove(cat("/tmp/verif_", long(getpid())), ec); // only succeeds when empty
  }
  TmpDir(const TmpDir&) = delete;
  TmpDir& operator=(const TmpDir&) = delete;
};

//! all numbers of a file written with stir's operator<< for (nested) arrays, in the order written
bool
read_values(const std::string& path, std::vector<double>& v, std::string& err)
{
  std::ifstream in(path);
  if (!in)
    {
      err = "cannot open " + path;
      return false;
    }
  const std::string txt((std::istreambuf_iterator<char>(in)), std::istreambuf_iterator<char>());
  const char* p = txt.c_str();
  while (*p)
    {
      if (*p == '{' || *p == '}' || *p == ',' || *p == ' ' || *p == '\n' || *p == '\r' || *p == '\t')
        {
          ++p;
          continue;
        }
      char* end = nullptr;
      const double x = std::strtod(p, &end);
      if (end == p)
        {
          err = cat("unexpected character '", *p, "' in ", path);
          return false;
        }
      v.push_back(x);
      p = end;
    }
  return true;
}

//! pointers to all cells of a container in STORAGE order (the order operator<< writes them)
std::vector<float*>
cells(Array<2, float>& a)
{
  std::vector<float*> v;
  for (auto it = a.begin_all(); it != a.end_all(); ++it)
    v.push_back(&*it);
  return v;
}
std::vector<float*>
cells(GeoData3D& a)
{
  std::vector<float*> v;
  Array<4, float>& base = a; // public base
  for (auto it = base.begin_all(); it != base.end_all(); ++it)
    v.push_back(&*it);
  return v;
}
//! FanProjData (also BlockData3D) hides its Array base: storage is [ra][a][rb][b] with rb >= ra, b in [min_b(a), max_b(a)]
//! (constructor, ML_norm.cxx:733-750); operator()(ra,a,rb,b) addresses that cell for ra < rb and the cell [rb][b][ra][a] otherwise
//! (ML_norm.cxx:765-772), so the storage cell [ra][a][ra][b] is reached as (ra, b mod n, ra, a)
std::vector<float*>
cells(FanProjData& f)
{
  std::vector<float*> v;
  const int n = f.get_num_detectors_per_ring();
  for (int ra = f.get_min_ra(); ra <= f.get_max_ra(); ++ra)
    for (int a = f.get_min_a(); a <= f.get_max_a(); ++a)
      for (int rb = std::max(ra, f.get_min_rb(ra)); rb <= f.get_max_rb(ra); ++rb)
        for (int b = f.get_min_b(a); b <= f.get_max_b(a); ++b)
          v.push_back(ra < rb ? &f(ra, a, rb, b) : &f(ra, b % n, ra, a));
  return v;
}

//! fills an array of the expected shape with the numbers of a file
template <class ArrayT>
Result
load_file(ArrayT& a, const std::string& path, const char* what)
{
  std::vector<double> v;
  std::string err;
  if (!read_values(path, v, err))
    return Result::fail(cat("driver output ", what, ": ", err));
  const std::vector<float*> cs = cells(a);
  VF_CHECK(cs.size() == v.size(), "driver output ", what, " holds ", v.size(), " numbers, the container for this scanner has ", cs.size());
  for (std::size_t k = 0; k < cs.size(); ++k)
    {
      VF_CHECK(std::isfinite(v[k]) && v[k] >= 0, "driver output ", what, ": entry ", k, " = ", v[k]);
      *cs[k] = float(v[k]);
    }
  return Result::pass();
}

//! element-wise comparison of two containers of the same shape (reference from the primitives vs file of the driver)
template <class ArrayT>
Result
same_values(const std::string& what, ArrayT& ref, ArrayT& got, const char* statkey)
{
  const std::vector<float*> r = cells(ref), g = cells(got);
  double worst = 0;
  for (std::size_t idx = 0; idx < r.size(); ++idx)
    {
      const double want = *r[idx], have = *g[idx];
      if (want == 0)
        {
          if (have != 0)
            return Result::fail(cat("driver: ", what, " entry ", idx, " = ", have, " but the ML step computed with the primitives gives 0"));
          continue;
        }
      const double err = std::fabs(have - want) / std::fabs(want);
      worst = std::max(worst, err);
      if (!(err <= TOL_DRV_STEP))
        return Result::fail(cat("driver: ", what, " entry ", idx, " = ", have, " but the ML step computed with the primitives from the driver's previous factors gives ",
                                want, " (rel ", err, ")"));
    }
  smax(statkey, worst);
  return Result::pass();
}

//! symmetry unit of the geometric factors as the driver documents it (release_5.0.htm: a bucket if there are several buckets,
//! a block otherwise or with --for-symmetry-per-block)
void
driver_units(const Blocks& B, bool do_sym, int& unit_tr, int& unit_ax)
{
  unit_tr = B.p_tr;
  unit_ax = B.p_ax;
  if (!do_sym)
    {
      if (B.nbuckets_tr > 1)
        unit_tr *= B.bpb_tr;
      if (B.nbuckets_ax > 1)
        unit_ax *= B.bpb_ax;
    }
}

//! preconditions of the driver that are not reported by error():
//!  - BlockData3D(nb_ax, nb_tr, nb_ax-1, nb_tr-1) is constructed unconditionally: FanProjData constructor asserts an even
//!    number of "detectors" (= transaxial blocks) (ML_norm.cxx:729);
//!  - GeoData3D stores HALF a symmetry unit (constructor argument half_num_transaxial_crystals_per_block, the driver passes
//!    unit/2 and make_geo_data/apply_geo_norm use 2*half): the unit must be even;
//!  - apply_block_norm / make_block_data assert blocks x crystals == detectors (true for physical crystals by construction).
bool
driver_applicable(const Blocks& B, bool do_sym)
{
  int ut, ua;
  driver_units(B, do_sym, ut, ua);
  return B.nb_tr >= 2 && B.nb_tr % 2 == 0 && ut % 2 == 0 && B.nphys % ut == 0 && B.nrphys % ua == 0;
}

Result
check_driver(const json& c)
{
  shared_ptr<Scanner> sc;
  shared_ptr<ProjDataInfo> pdi_sptr;
  try
    {
      sc = c20::make_scanner(c["scanner"]);
      if (sc->check_consistency() != Succeeded::yes)
        return Result::reject("scanner inconsistent");
      pdi_sptr = vg::make_pdi(sc, c["pdi"]);
    }
  catch (const std::exception& e)
    {
      return Result::reject(std::string("construction rejected: ") + e.what());
    }
  const ProjDataInfoCylindricalNoArcCorr* pdi = dynamic_cast<const ProjDataInfoCylindricalNoArcCorr*>(pdi_sptr.get());
  if (!pdi)
    return Result::reject("not cylindrical non-arc-corrected data");
  const Blocks B = Blocks::from(*sc);
  const FanDims F = FanDims::from(*pdi, B);
  if (!F.constructible(B))
    return Result::reject("fan not smaller than the ring (FanProjData constructor precondition)");
  const json& d = c["driver"];
  const bool do_geo = d["do_geo"].get<bool>(), do_block = d["do_block"].get<bool>(), do_sym = d["do_sym"].get<bool>();
  const bool do_KL = d.value("do_KL", false);
  const int outer = d["outer"].get<int>(), eff_iters = d["eff_iters"].get<int>();
  const std::string mode = d["mode"].get<std::string>();
  if (!driver_applicable(B, do_sym))
    return Result::reject("driver preconditions: even number of transaxial blocks and an even symmetry unit");
  if (outer < 1 || eff_iters < 1)
    return Result::reject("at least one outer and one efficiency iteration (else no file is written)");
  int unit_tr, unit_ax;
  driver_units(B, do_sym, unit_tr, unit_ax);
  const int nph = B.nphys, nrph = B.nrphys;
  if (double(nph) * nph * nrph * nrph > 3e6)
    return Result::reject("too large for the class table of the geometric factors");
  Ctx X{ c, sc, pdi_sptr, pdi, B, F, fan_domain(B, F) };
  const ProjDataInfoCylindricalNoArcCorr& p = *pdi;

  stats().cls("driver case");
  stats().cls(cat("driver: mode ", mode));
  stats().cls(cat("driver: do_geo=", int(do_geo), " do_block=", int(do_block), " do_sym=", int(do_sym)));
  stats().cls(cat("driver: outer iterations ", outer));
  stats().cls(cat("driver: efficiency iterations ", eff_iters));
  if (do_block && outer >= 2)
    stats().cls("driver: do_block with >= 2 outer iterations");
  if (B.v_tr || (B.v_ax && B.nb_ax > 1))
    stats().cls("driver: virtual crystals");
  if (unit_tr != B.p_tr || unit_ax != B.p_ax)
    stats().cls("driver: symmetry unit = bucket");
  stats().count("driver: detector pairs", long(X.dom.size()));

  // ---- bins of the detector pairs of the fan (harness reference, as in clause 1) ---------------------------------------------
  c20::BinStore store(pdi_sptr);
  std::vector<long> bin_of(X.dom.size(), -1);
  for (std::size_t i = 0; i < X.dom.size(); ++i)
    {
      const Entry& e = X.dom[i];
      const DetectionPositionPair<> dp(DetectionPosition<>(B.orig_tr(e.a), B.orig_ax(e.ra)), DetectionPosition<>(B.orig_tr(e.b), B.orig_ax(e.rb)));
      Bin bin;
      if (p.get_bin_for_det_pos_pair(bin, dp) == Succeeded::yes
          && store.in_range(bin.segment_num(), bin.axial_pos_num(), bin.view_num(), bin.tangential_pos_num())
          && std::abs(bin.tangential_pos_num()) <= F.half_fan)
        bin_of[i] = store.index(bin.segment_num(), bin.axial_pos_num(), bin.view_num(), bin.tangential_pos_num());
    }
  // finding F1 (even number of tangential positions: the bins at min_tang are outside the symmetric fan and never read): the
  // driver cases hold a filler there and nothing is demanded about them - same exclusion as in the round-trip clause
  if (p.get_max_tangential_pos_num() != -p.get_min_tangential_pos_num() && !no_exclude)
    excluded(SIG_F1);

  // ---- true parameters and data on the fan --------------------------------------------------------------------------------------
  const uint64_t seed_par = c["seed_par"].get<uint64_t>();
  // wide dynamic range models (compact source, exact zeros, dead detectors) are generated for the modes "fixed" and "exact" only: with
  // Poisson data a single count in a class whose model sum is < 1e-4 counts makes the guard of iterate_geo_norm / iterate_block_norm
  // (factor >= 1e4 and data below 1e-4 of the largest class => factor 0) switch off a class that has data, which is the behaviour the
  // code states but leaves the KL of clause D3 infinite.
  const ModelSpec M = ModelSpec::from(c);
  if (M.wide)
    stats().cls("driver: model with a wide dynamic range");
  DetectorEfficiencies eff_true(IndexRange2D(nrph, nph));
  for (int r = 0; r < nrph; ++r)
    for (int a = 0; a < nph; ++a)
      eff_true[r][a] = float(c20::hreal(seed_par, uint64_t(r) * 4096 + uint64_t(a), 0.4, 2.5));
  c20::GeoClasses cl(nph, nrph, unit_tr, unit_ax);
  const std::size_t N = X.dom.size();
  std::vector<double> model(N), truth(N), data(N);
  for (std::size_t i = 0; i < N; ++i)
    {
      const Entry& e = X.dom[i];
      const double g = double(float(c20::hreal(seed_par ^ 0x6e0ULL, uint64_t(cl.cls(e.ra, e.a, e.rb, e.b)), 0.5, 2.)));
      const double b = e.a / B.p_tr == e.b / B.p_tr
                           ? 1.
                           : double(float(c20::hreal(seed_par ^ 0xb10cULL, c20::pair_key(e.ra / B.p_ax, e.a / B.p_tr, e.rb / B.p_ax, e.b / B.p_tr, B.nb_tr), 0.5, 2.)));
      truth[i] = double(eff_true[e.ra][e.a]) * double(eff_true[e.rb][e.b]) * g * b;
      model[i] = bin_of[i] < 0 ? 0. : double(float(c20::model_value(M, seed_par, e, nph, nrph, F)));
    }
  double total = 0;
  if (mode == "fixed")
    {
      // model_data := model x true product; measured := c^2 x model_data
      const double cc = c20::hreal(seed_par ^ 0xf1edULL, 1, 0.3, 3.);
      for (std::size_t i = 0; i < N; ++i)
        {
          model[i] = double(float(model[i] * truth[i]));
          data[i] = double(float(cc * cc * model[i]));
        }
    }
  else if (mode == "exact")
    for (std::size_t i = 0; i < N; ++i)
      data[i] = double(float(model[i] * truth[i]));
  else
    {
      const double mean_scale = c["count_scale"].get<double>();
      for (std::size_t i = 0; i < N; ++i)
        {
          const Entry& e = X.dom[i];
          vf::SplitMix g(c["seed_noise"].get<uint64_t>() ^ (c20::pair_key(e.ra, e.a, e.rb, e.b, nph) * 0x9e3779b97f4a7c15ULL));
          g.next();
          data[i] = double(poisson(g, mean_scale * model[i] * truth[i])); // same stream for (p,q) and (q,p): symmetric data
        }
    }
  for (std::size_t i = 0; i < N; ++i)
    total += 0.5 * data[i];
  if (!(total > 0))
    return Result::reject("no counts at all");

  // ---- projection data for the driver ------------------------------------------------------------------------------------------------
  shared_ptr<ExamInfo> exam(new ExamInfo);
  ProjDataInMemory pd_model(exam, X.pdi_sptr), pd_data(exam, X.pdi_sptr);
  {
    std::vector<float> vm(std::size_t(store.total), 5.F), vd(std::size_t(store.total), 3.F); // fillers: gap bins, bins outside the fan
    for (std::size_t i = 0; i < N; ++i)
      if (bin_of[i] >= 0)
        {
          vm[std::size_t(bin_of[i])] = float(model[i]);
          vd[std::size_t(bin_of[i])] = float(data[i]);
        }
    store.to_projdata(pd_model, vm);
    store.to_projdata(pd_data, vd);
  }

  // ---- run the driver ------------------------------------------------------------------------------------------------------------------
  TmpDir tmp;
  const std::string prefix = tmp.path + "/norm";
  ML_estimate_component_based_normalisation(prefix, pd_data, pd_model, eff_iters, outer, do_geo, do_block, do_sym, do_KL, /*do_display=*/false);

  // ---- harness side: fan data, sums of the data ------------------------------------------------------------------------------------
  const int fan_size = 2 * F.new_half_fan + 1;
  FanProjData mfan(nrph, nph, F.new_max_delta, fan_size), dfan(nrph, nph, F.new_max_delta, fan_size);
  set_all(mfan, X.dom, model);
  set_all(dfan, X.dom, data);
  Array<2, float> sums(IndexRange2D(nrph, nph));
  make_fan_sum_data(sums, dfan);
  GeoData3D measured_geo(unit_ax, unit_tr / 2, nrph, nph);
  make_geo_data(measured_geo, dfan);
  BlockData3D measured_block(B.nb_ax, B.nb_tr, B.nb_ax - 1, B.nb_tr - 1);
  make_block_data(measured_block, dfan);
  // seen, outside the statement: when NO geometric class / NO block pair has any data (tiny scanner, wide model with many exact zeros)
  // the guard's threshold max/10000 is 0, "0 >= 0" holds and 0/0 = NaN is written.  Nothing is identifiable there: not generated.
  if (M.wide && ((do_geo && !(measured_geo.find_max() > 0)) || (do_block && !(measured_block.find_max() > 0))))
    return Result::reject("no data in any geometric class / block pair (degenerate wide model)");
  bool zero_sum = false;
  for (int r = 0; r < nrph; ++r)
    for (int a = 0; a < nph; ++a)
      if (sums[r][a] == 0)
        zero_sum = true;
  if (zero_sum)
    stats().cls("driver: detector with zero fan sum");

  // model x factors per detector pair, in double (efficiencies and block factors by direct lookup; the geometric factor of a pair
  // is what apply_geo_norm puts on a fan of ones - the assignment of representatives to pairs is the library's, clause 2c)
  auto prediction = [&](const DetectorEfficiencies& e, const GeoData3D& g, const BlockData3D& bd) {
    FanProjData ones(nrph, nph, F.new_max_delta, fan_size);
    ones.fill(1.F);
    apply_geo_norm(ones, g, true);
    const std::vector<double> gsnap = snapshot(ones, X.dom);
    std::vector<double> pred(N);
    for (std::size_t i = 0; i < N; ++i)
      {
        const Entry& en = X.dom[i];
        double bf = 1.;
        if (en.a / B.p_tr != en.b / B.p_tr)
          bf = en.ra <= en.rb ? bd(en.ra / B.p_ax, en.a / B.p_tr, en.rb / B.p_ax, en.b / B.p_tr) : bd(en.rb / B.p_ax, en.b / B.p_tr, en.ra / B.p_ax, en.a / B.p_tr);
        pred[i] = model[i] * double(e[en.ra][en.a]) * double(e[en.rb][en.b]) * gsnap[i] * bf;
      }
    return pred;
  };
  auto kl_of = [&](const std::vector<double>& pred) {
    double s = 0;
    for (std::size_t i = 0; i < N; ++i)
      if (!(data[i] == 0 && pred[i] == 0))
        s += 0.5 * c20::kl_term(data[i], pred[i], 0.);
    return s;
  };

  // ---- walk through the files --------------------------------------------------------------------------------------------------------
  DetectorEfficiencies eff_prev(IndexRange2D(nrph, nph));
  GeoData3D geo_prev(unit_ax, unit_tr / 2, nrph, nph);
  BlockData3D blk_prev(B.nb_ax, B.nb_tr, B.nb_ax - 1, B.nb_tr - 1);
  geo_prev.fill(1.F);
  blk_prev.fill(1.F);
  bool have_eff = false;
  double kl_prev = -1;
  std::string kl_prev_label;
  // The block step is the exact conditional ML update of the block factors EXCEPT for block pairs inside one axial block
  // position when these contain both LORs inside one ring and LORs between rings (p_ax >= 2 and ring differences > 0):
  // BlockData3D has two cells for such a pair ("lower ring in block A" / "lower ring in block B"), make_block_data adds every
  // in-ring LOR to both with weight 1 (it is stored twice in the fan data) although each copy has weight 1/2 in the likelihood.
  // From the first such block step on the two stored copies of an in-ring LOR can differ, the steps are weighted updates, and
  // descent is not a theorem (observed increases ~1e-4 relative).  The property text asks descent of the efficiency iterations
  // for a symmetric product model only, so nothing is demanded there; the increases are recorded.
  const bool block_step_inexact = do_block && B.p_ax >= 2 && F.new_max_delta >= 1;
  if (block_step_inexact)
    stats().cls("driver: block step not an exact ML update (descent not demanded after the first block step)");
  // The geo step is the exact conditional ML update when the number of (physical) rings is even.  With an odd number,
  // make_geo_data adds the axial mirror image only "if (ra != mra && rb != mrb)": LORs that touch the middle ring enter the sums
  // of their class once, all others twice (once as themselves, once as the mirror image of their mirror image), so the update
  // is a weighted one and can increase the KL slightly (observed ~1e-3 relative at low counts).  Not demanded, recorded.
  const bool geo_step_inexact = do_geo && nrph % 2 != 0;
  if (geo_step_inexact)
    stats().cls("driver: geo step not an exact ML update (odd number of rings; descent of the geo step not demanded)");
  bool symmetric_model = true; // false after the first inexact block step
  auto descent = [&](const std::string& label, const DetectorEfficiencies& e, const GeoData3D& g, const BlockData3D& bd, const std::string& step, bool strict) -> Result {
    const double kl = kl_of(prediction(e, g, bd));
    VF_CHECK(std::isfinite(kl), "driver: KL between the data and model x factors is not finite after ", label);
    if (std::getenv("VERIF_C20_TRACE"))
      std::cerr << "C20 driver trace: after " << label << " KL = " << cat(kl) << (strict ? "" : "  [descent not demanded]") << " (total counts " << total << ")\n";
    if (kl_prev >= 0)
      {
        const std::string tag = strict ? "" : " [not demanded]";
        if (kl_prev > 1e-6 * total)
          smax("driver: max relative KL increase in " + step + tag, (kl - kl_prev) / kl_prev);
        smax("driver: max KL increase / total counts" + tag, (kl - kl_prev) / total);
        if (strict)
          smax("driver: max KL increase / tolerance (1e-6 KL + 1e-9 counts)", (kl - kl_prev) / (1e-6 * kl_prev + 1e-9 * total));
        if (strict && drv_clause('3'))
          {
            stats().count("driver: descent steps checked");
            VF_CHECK(kl <= kl_prev * (1. + 1e-6) + 1e-9 * total, "driver: KL between the measured data and model x factors goes up from ", kl_prev, " (after ",
                     kl_prev_label, ") to ", kl, " (after ", label, "); total counts ", total);
          }
      }
    kl_prev = kl;
    kl_prev_label = label;
    return Result::pass();
  };

  for (int k = 1; k <= outer; ++k)
    {
      // efficiencies
      FanProjData fan = mfan;
      apply_geo_norm(fan, geo_prev);
      apply_block_norm(fan, blk_prev);
      for (int j = 1; j <= eff_iters; ++j)
        {
          const std::string label = cat("eff_", k, "_", j);
          DetectorEfficiencies eff_file(IndexRange2D(nrph, nph));
          {
            Result r = load_file(eff_file, cat(prefix, "_eff_", k, "_", j, ".out"), label.c_str());
            if (r.kind != Result::PASS)
              return r;
          }
          if (have_eff && drv_clause('2'))
            {
              DetectorEfficiencies e = eff_prev;
              iterate_efficiencies(e, sums, fan);
              Result r = same_values(label, e, eff_file, "driver: max rel dev step equality efficiencies");
              if (r.kind != Result::PASS)
                return r;
              stats().count("driver: efficiency steps compared");
            }
          {
            Result r = descent(label, eff_file, geo_prev, blk_prev, "an efficiency iteration", symmetric_model);
            if (r.kind != Result::PASS)
              return r;
          }
          eff_prev = eff_file;
          have_eff = true;
        }
      // geometric factors
      {
        const std::string label = cat("geo_", k);
        GeoData3D geo_file(unit_ax, unit_tr / 2, nrph, nph);
        {
          Result r = load_file(geo_file, cat(prefix, "_geo_", k, ".out"), label.c_str());
          if (r.kind != Result::PASS)
            return r;
        }
        GeoData3D ref = geo_prev;
        if (do_geo)
          {
            FanProjData f2 = mfan;
            apply_efficiencies(f2, eff_prev);
            apply_block_norm(f2, blk_prev);
            iterate_geo_norm(ref, measured_geo, f2);
          }
        Result r = drv_clause('2') ? same_values(label, ref, geo_file, "driver: max rel dev step equality geo") : Result::pass();
        if (r.kind != Result::PASS)
          return r;
        stats().count("driver: geo steps compared");
        r = descent(label, eff_prev, geo_file, blk_prev, "a geo step", symmetric_model && !geo_step_inexact);
        if (r.kind != Result::PASS)
          return r;
        geo_prev = geo_file;
      }
      // block factors
      {
        const std::string label = cat("block_", k);
        BlockData3D blk_file(B.nb_ax, B.nb_tr, B.nb_ax - 1, B.nb_tr - 1);
        {
          Result r = load_file(blk_file, cat(prefix, "_block_", k, ".out"), label.c_str());
          if (r.kind != Result::PASS)
            return r;
        }
        BlockData3D ref = blk_prev;
        if (do_block)
          {
            FanProjData f3 = mfan;
            apply_efficiencies(f3, eff_prev);
            apply_geo_norm(f3, geo_prev);
            iterate_block_norm(ref, measured_block, f3);
          }
        Result r = drv_clause('2') ? same_values(label, ref, blk_file, "driver: max rel dev step equality block") : Result::pass();
        if (r.kind != Result::PASS)
          return r;
        stats().count("driver: block steps compared");
        if (block_step_inexact)
          symmetric_model = false;
        r = descent(label, eff_prev, geo_prev, blk_file, "a block step", symmetric_model);
        if (r.kind != Result::PASS)
          return r;
        blk_prev = blk_file;
      }
      // (D1) fixed point: after every outer iteration the read-back factors reproduce the data
      if (mode == "fixed" && drv_clause('1'))
        {
          const std::vector<double> pred = prediction(eff_prev, geo_prev, blk_prev);
          double worst = 0;
          for (std::size_t i = 0; i < N; ++i)
            {
              if (data[i] == 0)
                {
                  VF_CHECK(pred[i] == 0, "driver fixed point: pair (", X.dom[i].ra, ",", X.dom[i].a, ",", X.dom[i].rb, ",", X.dom[i].b, ") has no data but model x factors = ",
                           pred[i]);
                  continue;
                }
              const double err = std::fabs(pred[i] - data[i]) / data[i];
              worst = std::max(worst, err);
              VF_CHECK(err <= TOL_DRV_FIXED, "driver fixed point: after outer iteration ", k, " model x factors read back = ", pred[i], " but the data (generated exactly from the model) are ",
                       data[i], " at pair (ra=", X.dom[i].ra, ",a=", X.dom[i].a, ",rb=", X.dom[i].rb, ",b=", X.dom[i].b, ")");
            }
          smax("driver: max rel err fixed point (model x factors vs data)", worst);
          stats().count("driver: fixed points compared");
        }
    }
  return Result::pass();
}

// ---- generator -------------------------------------------------------------------------------------------------
struct Family
{
  int type, v_tr, v_ax;
};
const std::vector<Family>&
families()
{
  static const std::vector<Family> f = { { int(Scanner::Siemens_mMR), 1, 0 },        { int(Scanner::Siemens_mCT), 1, 1 }, { int(Scanner::E1080), 1, 1 },
                                         { int(Scanner::Siemens_Vision_600), 1, 0 }, { int(Scanner::UPENN_5rings), 1, 0 } };
  return f;
}

//! largest number of tangential positions <= tang for which the FanProjData constructor precondition holds for this scanner
int
fit_tang(const json& scanner, int tang)
{
  json c;
  c["scanner"] = scanner;
  c["pdi"]["tang"] = tang;
  void fix_tang(json&);
  fix_tang(c);
  return c["pdi"]["tang"].get<int>();
}

void
fix_tang(json& c)
{
  // shrink the number of tangential positions until the FanProjData constructor precondition holds
  shared_ptr<Scanner> sc = c20::make_scanner(c["scanner"]);
  const Blocks B = Blocks::from(*sc);
  for (int t = c["pdi"]["tang"].get<int>(); t >= 1; --t)
    {
      c["pdi"]["tang"] = t;
      const int max_t = -(t / 2) + t - 1; // the range is [-(t/2), -(t/2)+t-1]
      const int half_fan = std::min(max_t, t / 2);
      const int fan = 2 * half_fan + 1;
      const int new_half = (fan - (fan / B.c_tr) * B.v_tr) / 2;
      if (2 * new_half + 1 < B.nphys)
        return;
    }
}

//! scanner for a driver case, built constructively so that driver_applicable() holds (see there for the sources)
json
driver_scanner(int family_type, int v_tr, int v_ax, int p_tr, int bpb_tr, int nbuckets_tr, int p_ax, int bpb_ax, int nbuckets_ax, double radius, double doi,
               double ring_spacing, double bin_size, double tilt)
{
  json j;
  const int n = (p_tr + v_tr) * bpb_tr * nbuckets_tr;
  const int rings = (p_ax + v_ax) * bpb_ax * nbuckets_ax - v_ax;
  j["ndet"] = n;
  j["rings"] = rings;
  j["tr_cryst_per_block"] = p_tr + v_tr;
  j["ax_cryst_per_block"] = p_ax + v_ax;
  j["tr_blocks_per_bucket"] = bpb_tr;
  j["ax_blocks_per_bucket"] = bpb_ax;
  j["max_tang"] = n - 1;
  j["radius"] = radius;
  j["doi"] = doi;
  j["ring_spacing"] = ring_spacing;
  j["bin_size"] = bin_size;
  if (family_type >= 0)
    j["family"] = family_type;
  else
    {
      j["type"] = -1;
      j["singles_units"] = 1;
      j["tilt"] = tilt;
      j["tof_poss"] = 0;
      j["geometry"] = "Cylindrical";
    }
  return j;
}

json
driver_pdi(const json& scanner, int max_delta, int tang)
{
  shared_ptr<Scanner> sc = c20::make_scanner(scanner);
  json p;
  p["span"] = 1; // get_fan_info: "Can only process data without axial compression (i.e. span=1)"
  p["max_delta"] = std::min(max_delta, sc->get_num_rings() - 1);
  p["views"] = sc->get_num_detectors_per_ring() / 2; // "Can only process data without mashing of views"
  p["tang"] = std::max(1, std::min(tang, sc->get_max_num_non_arccorrected_bins()));
  p["arccorr"] = false; // "Can only process not arc-corrected data"
  p["tof_mash"] = 0;    // "make_fan_data: Incompatible with TOF data"
  p["trim"] = json::object();
  return p;
}

void fix_tang(json& c);

json
gen_driver(Src& s, int size)
{
  json c;
  const bool big = size > 80; // thorough tier only (quick runs with size <= 80)
  const int max_ndet = big ? 64 : (size < 30 ? 24 : 40);
  const int max_rings = big ? 6 : 4;
  const bool do_sym = s.coin();
  const bool family = s.chance(1, 3);
  int type = -1, v_tr = 0, v_ax = 0;
  if (family)
    {
      const Family f = s.pick(families());
      type = f.type;
      v_tr = f.v_tr;
      v_ax = f.v_ax;
    }
  int p_tr, bpb_tr, nbk_tr, guard = 0;
  for (;;)
    {
      p_tr = int(s.small(1, 6));
      bpb_tr = int(s.small(1, 3));
      nbk_tr = int(s.small(1, 8));
      const int nb = bpb_tr * nbk_tr;
      const int unit = (do_sym || nbk_tr == 1) ? p_tr : p_tr * bpb_tr;
      const int n = (p_tr + v_tr) * nb;
      if (nb % 2 == 0 && unit % 2 == 0 && n % 2 == 0 && n >= 4 && n <= max_ndet)
        break;
      if (++guard > 80)
        {
          p_tr = 2;
          bpb_tr = 1;
          nbk_tr = 4;
          break;
        }
    }
  int p_ax, bpb_ax, nbk_ax;
  guard = 0;
  for (;;)
    {
      p_ax = int(s.small(1, 3));
      bpb_ax = int(s.small(1, 2));
      nbk_ax = int(s.small(1, 3));
      if ((p_ax + v_ax) * bpb_ax * nbk_ax - v_ax <= max_rings)
        break;
      if (++guard > 80)
        {
          p_ax = bpb_ax = nbk_ax = 1;
          break;
        }
    }
  c["scanner"] = driver_scanner(type, v_tr, v_ax, p_tr, bpb_tr, nbk_tr, p_ax, bpb_ax, nbk_ax, s.nice_real(50., 450.), s.coin() ? 0. : s.nice_real(0., 12.),
                                s.nice_real(1., 8.), s.nice_real(1., 6.), s.chance(1, 4) ? s.real(-0.5, 0.5) : 0.);
  const int rings = c["scanner"]["rings"].get<int>(), n = c["scanner"]["ndet"].get<int>();
  c["pdi"] = driver_pdi(c["scanner"], s.chance(1, 2) ? rings - 1 : int(s.range(0, rings - 1)), s.chance(1, 3) ? n - 1 : int(s.range(std::min(3, n - 1), n - 1)));
  fix_tang(c);
  c["seed_par"] = s.seed64();
  c["seed_noise"] = s.seed64();
  c["count_scale"] = s.pick(std::vector<double>{ 0.05, 0.3, 1., 1., 4., 20. });
  json d;
  d["do_geo"] = s.chance(2, 3);
  d["do_block"] = s.chance(2, 3);
  d["do_sym"] = do_sym;
  // > 2 outer iterations only in the thorough tier
  d["outer"] = big ? (s.chance(2, 3) ? int(s.range(3, 4)) : int(s.range(1, 2))) : (s.chance(1, 6) ? 1 : 2);
  d["eff_iters"] = int(s.range(1, 4));
  d["mode"] = s.pick(std::vector<std::string>{ "poisson", "poisson", "poisson", "exact", "fixed" });
  d["do_KL"] = false; // do_KL=true ends the first outer iteration with boost::bad_format_string (malformed "%1%, %2" in the last info() call):
                      // a printing defect outside the property; the KL values it prints are not part of any file
  c["driver"] = d;
  if (d["mode"] != "poisson" && s.coin())
    {
      c["model"] = ModelSpec::gen(s);
      c["model"]["extreme_factors"] = false;
    }
  return c;
}

//! bounded-exhaustive part: every combination of do_geo / do_block / do_sym x outer x efficiency iterations x mode on two small
//! scanners (generated with buckets of 2 blocks; mMR-like with one virtual crystal per block); quick: outer <= 2, thorough: 1..4
bool
enumerate(uint64_t idx, int tier, json& c)
{
  const int max_outer = tier == 1 ? 4 : 2;
  const uint64_t n_modes = tier == 1 ? 3 : 2;
  uint64_t i = idx;
  const int scn = int(i % 2);
  i /= 2;
  const int flags = int(i % 8);
  i /= 8;
  const int outer = 1 + int(i % uint64_t(max_outer));
  i /= uint64_t(max_outer);
  const int eff_iters = 1 + int(i % 4);
  i /= 4;
  const int mode = int(i % n_modes);
  i /= n_modes;
  if (i != 0)
    return false;
  c = json::object();
  if (scn == 0)
    c["scanner"] = driver_scanner(-1, 0, 0, 2, 2, 4, 2, 1, 2, 100., 0., 4., 3., 0.); // 16 detectors, 8 blocks in 4 buckets; 4 rings in 2 buckets
  else
    c["scanner"] = driver_scanner(int(Scanner::Siemens_mMR), 1, 0, 2, 1, 6, 1, 2, 2, 150., 5., 3., 2., 0.); // 18 detectors (12 physical), 4 rings
  c["pdi"] = driver_pdi(c["scanner"], scn == 0 ? 3 : 2, scn == 0 ? 11 : 9);
  fix_tang(c);
  c["seed_par"] = 4242 + idx;
  c["seed_noise"] = 1717 + idx;
  c["count_scale"] = 1.;
  json d;
  d["do_geo"] = (flags & 1) != 0;
  d["do_block"] = (flags & 2) != 0;
  d["do_sym"] = (flags & 4) != 0;
  d["outer"] = outer;
  d["eff_iters"] = eff_iters;
  d["mode"] = mode == 0 ? "poisson" : (mode == 1 ? "fixed" : "exact");
  d["do_KL"] = false;
  c["driver"] = d;
  return true;
}

//! a case for multiply_crystal_factors: any cylindrical scanner (TOF too), any span / view mashing / TOF mashing, non-arc-corrected
json
gen_crystal(Src& s, int size)
{
  json c;
  vg::ScannerOpts so;
  so.max_ndet = size < 30 ? 16 : 32;
  so.max_rings = size < 30 ? 3 : 5;
  so.allow_tof = true;
  so.allow_blocks = false; // the Cylindrical branch of multiply_crystal_factors; BlocksOnCylindrical is not covered by this property
  c["scanner"] = vg::gen_scanner(s, so);
  shared_ptr<Scanner> sc = c20::make_scanner(c["scanner"]);
  vg::PdiOpts po;
  po.allow_arccorr = false; // error("Can only process not arc-corrected data")
  c["pdi"] = vg::gen_pdi(s, *sc, po);
  c["crystal"] = { { "seed", s.seed64() }, { "global_factor", s.pick(std::vector<double>{ 1., 1., 0.5, 3.75, 1e-3 }) }, { "history", int(s.range(0, 2)) } };
  return c;
}

json
gen(Src& s, int size)
{
  if (s.chance(2, 5))
    return gen_driver(s, size);
  if (s.chance(1, 8))
    return gen_crystal(s, size);
  json c;
  const bool family = s.chance(1, 3);
  vg::ScannerOpts so_other;
  if (!family)
    {
      vg::ScannerOpts so;
      so.max_ndet = size < 30 ? 24 : (size < 70 ? 48 : 64);
      so.max_rings = size < 30 ? 3 : 6;
      so.allow_tof = false; // the functions reject TOF data (error() at ML_norm.cxx:1063,1145); non-TOF data only
      so.allow_blocks = false;
      so.allow_tilt = true;
      so_other = so;
      c["scanner"] = vg::gen_scanner(s, so);
      // an even number of transaxial blocks is needed for the block factors: bias towards it
      if (s.coin() && c["scanner"]["ndet"].get<int>() / c["scanner"]["tr_cryst_per_block"].get<int>() % 2 != 0)
        for (int tries = 0; tries < 4 && c["scanner"]["ndet"].get<int>() / c["scanner"]["tr_cryst_per_block"].get<int>() % 2 != 0; ++tries)
          c["scanner"] = vg::gen_scanner(s, so);
    }
  else
    {
      const Family f = s.pick(families());
      json j;
      j["family"] = f.type;
      int p_tr, nb_tr, n, guard = 0;
      do
        {
          p_tr = int(s.small(1, 7));
          nb_tr = int(s.small(2, 12));
          n = (p_tr + f.v_tr) * nb_tr;
          if (++guard > 60)
            {
              p_tr = 2;
              nb_tr = 4;
              n = 12;
            }
      } while (n % 2 != 0 || (p_tr * nb_tr) % 2 != 0 || n > (size < 30 ? 40 : 72));
      const int p_ax = int(s.small(1, 3)), nb_ax = int(s.small(1, 3));
      const int rings = (p_ax + f.v_ax) * nb_ax - f.v_ax;
      j["ndet"] = n;
      j["rings"] = rings;
      j["tr_cryst_per_block"] = p_tr + f.v_tr;
      j["ax_cryst_per_block"] = p_ax + f.v_ax;
      j["tr_blocks_per_bucket"] = int(s.pick(vg::divisors(nb_tr)));
      j["ax_blocks_per_bucket"] = int(s.pick(vg::divisors(nb_ax)));
      j["max_tang"] = n - 1;
      j["radius"] = s.nice_real(50., 450.);
      j["doi"] = s.coin() ? 0. : s.nice_real(0., 12.);
      j["ring_spacing"] = s.nice_real(1., 8.);
      j["bin_size"] = s.nice_real(1., 6.);
      c["scanner"] = j;
    }
  shared_ptr<Scanner> sc = c20::make_scanner(c["scanner"]);
  const int rings = sc->get_num_rings(), n = sc->get_num_detectors_per_ring();
  const int max_tang = sc->get_max_num_non_arccorrected_bins();
  json p;
  p["span"] = 1; // get_fan_info: "Can only process data without axial compression (i.e. span=1)"
  p["max_delta"] = s.chance(1, 3) ? rings - 1 : int(s.range(0, rings - 1));
  p["views"] = n / 2; // "Can only process data without mashing of views"
  p["tang"] = s.chance(1, 3) ? max_tang : int(s.range(std::min(2, max_tang), max_tang));
  p["arccorr"] = false;
  p["tof_mash"] = 0;
  p["trim"] = json::object();
  c["pdi"] = p;
  fix_tang(c);
  c["seed_data"] = s.seed64();
  c["seed_par"] = s.seed64();
  c["seed_noise"] = s.seed64();
  c["gap_value"] = s.pick(std::vector<double>{ 0., 0., 1., -1., 0.5 });
  c["geo_unit_tr"] = int(s.range(0, 5));
  c["geo_unit_ax"] = int(s.range(0, 3));
  c["count_scale"] = s.pick(std::vector<double>{ 0.05, 0.3, 1., 1., 4. });
  c["iterations"] = 10;
  c["kl_threshold"] = s.pick(std::vector<double>{ 0.5, 2., 10. });
  // ---- further parts (c20_more.h); at least a third of the cases stay as they were -----------------------------------------------
  if (s.chance(1, 2))
    c["model"] = ModelSpec::gen(s);
  if (s.chance(1, 2))
    {
      // the geometry the containers were used for BEFORE: 0 other number of tangential positions (other fan size), 1 other max ring
      // difference (and fan), 2 another scanner, 3 the same geometry (other values)
      json r;
      const int kind = int(s.pick(std::vector<int>{ 0, 0, 0, 0, 1, 1, 2, 2, 3 }));
      json sc2 = c["scanner"];
      if (kind == 2)
        {
          if (family)
            {
              so_other.max_ndet = 32;
              so_other.max_rings = 4;
              so_other.allow_tof = false;
              so_other.allow_blocks = false;
            }
          sc2 = vg::gen_scanner(s, so_other);
          r["scanner"] = sc2;
        }
      shared_ptr<Scanner> s2 = c20::make_scanner(sc2);
      const int mt2 = s2->get_max_num_non_arccorrected_bins(), r2 = s2->get_num_rings();
      r["max_delta"] = (kind == 0 || kind == 3) ? std::min(c["pdi"]["max_delta"].get<int>(), r2 - 1) : int(s.range(0, r2 - 1));
      r["tang"] = kind == 3 ? c["pdi"]["tang"].get<int>() : fit_tang(sc2, int(s.range(1, mt2)));
      c["reuse"] = r;
    }
  if (s.chance(1, 2))
    c["twod"] = { { "seg", int(s.range(0, 11)) }, { "neg_seg", s.chance(1, 4) }, { "ax", int(s.range(0, 11)) }, { "unit", int(s.range(0, 3)) }, { "seed", s.seed64() } };
  // conversions and apply_* also on data with negative values and exact zeros (second pass of check_conversion)
  c["signed_data"] = s.chance(1, 3) ? 1 : 0;
  // efficiencies exactly 0 for one or two detectors (apply only)
  c["dead_eff"] = s.chance(1, 3) ? int(s.range(1, 2)) : 0;
  return c;
}

std::vector<json>
fixed_cases(int tier)
{
  std::vector<json> v;
  struct P
  {
    int type, max_delta, tang;
  };
  std::vector<P> ps = { { int(Scanner::Siemens_mMR), 1, 21 }, { int(Scanner::Siemens_mCT), 1, 30 }, { int(Scanner::E953), 2, 63 } };
  if (tier == 1)
    {
      ps.push_back({ int(Scanner::E1080), 2, 64 });
      ps.push_back({ int(Scanner::Siemens_mCT), 14, 15 });
      ps.push_back({ int(Scanner::Siemens_mMR), 9, 19 });
      ps.push_back({ int(Scanner::Siemens_Vision_600), 1, 43 });
      ps.push_back({ int(Scanner::UPENN_5rings), 1, 33 });
    }
  for (const P& q : ps)
    {
      json c;
      c["scanner"] = { { "type", q.type } };
      shared_ptr<Scanner> sc(new Scanner(static_cast<Scanner::Type>(q.type)));
      c["pdi"] = { { "span", 1 },
                   { "max_delta", q.max_delta },
                   { "views", sc->get_num_detectors_per_ring() / 2 },
                   { "tang", q.tang },
                   { "arccorr", false },
                   { "tof_mash", 0 },
                   { "trim", json::object() } };
      c["seed_data"] = 12345 + q.type;
      c["seed_par"] = 777 + q.type;
      c["seed_noise"] = 999 + q.type;
      c["gap_value"] = q.type % 2 ? 0. : 1.;
      c["geo_unit_tr"] = 0;
      c["geo_unit_ax"] = 0;
      c["count_scale"] = 1.;
      c["iterations"] = 3;
      c["kl_threshold"] = 2.;
      v.push_back(c);
    }
  // ---- corner configurations of the further parts (always run): a container used for a WIDER fan before, for a NARROWER fan
  // before, for another scanner before; wide-dynamic-range models with dead detectors, exact zeros and extreme factors; the 2-D
  // family on a direct and on an oblique sinogram pair
  {
    auto gen_sc = [](int ndet, int rings, int cpb_tr, int bpb_tr, int cpb_ax, int bpb_ax) {
      json j;
      j["type"] = -1;
      j["ndet"] = ndet;
      j["rings"] = rings;
      j["tr_cryst_per_block"] = cpb_tr;
      j["tr_blocks_per_bucket"] = bpb_tr;
      j["ax_cryst_per_block"] = cpb_ax;
      j["ax_blocks_per_bucket"] = bpb_ax;
      j["singles_units"] = 1;
      j["max_tang"] = ndet - 1;
      j["radius"] = 120.;
      j["doi"] = 3.;
      j["ring_spacing"] = 4.;
      j["bin_size"] = 2.;
      j["tilt"] = 0.;
      j["tof_poss"] = 0;
      j["geometry"] = "Cylindrical";
      return j;
    };
    auto base = [](const json& sc, int ndet, int max_delta, int tang, uint64_t seed) {
      json c;
      c["scanner"] = sc;
      c["pdi"] = { { "span", 1 }, { "max_delta", max_delta }, { "views", ndet / 2 }, { "tang", tang }, { "arccorr", false }, { "tof_mash", 0 }, { "trim", json::object() } };
      c["seed_data"] = seed;
      c["seed_par"] = seed + 1;
      c["seed_noise"] = seed + 2;
      c["gap_value"] = 0.5;
      c["geo_unit_tr"] = 0;
      c["geo_unit_ax"] = 0;
      c["count_scale"] = 1.;
      c["iterations"] = 5;
      c["kl_threshold"] = 2.;
      return c;
    };
    const json scA = gen_sc(24, 4, 4, 2, 2, 1);
    {
      json c = base(scA, 24, 3, 15, 31001);
      c["reuse"] = { { "max_delta", 3 }, { "tang", 7 } }; // narrower fan before
      c["model"] = { { "kind", "wide" }, { "e_off", 6 }, { "e_ring", 1 }, { "e_det", 3 }, { "det_shape", 0 }, { "dead", 1 }, { "zero_frac", 0.05 }, { "extreme_factors", true } };
      c["twod"] = { { "seg", 1 }, { "neg_seg", false }, { "ax", 1 }, { "unit", 0 }, { "seed", 31005 } };
      c["signed_data"] = 1;
      c["dead_eff"] = 2;
      v.push_back(c);
    }
    {
      json c = base(scA, 24, 3, 7, 32001);
      c["reuse"] = { { "max_delta", 3 }, { "tang", 15 } }; // wider fan before
      c["model"] = { { "kind", "wide" }, { "e_off", 8 }, { "e_ring", 0 }, { "e_det", 0 }, { "det_shape", 1 }, { "dead", 0 }, { "zero_frac", 0. }, { "extreme_factors", false } };
      c["twod"] = { { "seg", 0 }, { "neg_seg", false }, { "ax", 2 }, { "unit", 1 }, { "seed", 32005 } };
      v.push_back(c);
    }
    {
      json c = base(scA, 24, 2, 10, 33001);
      c["reuse"] = { { "max_delta", 1 }, { "tang", 10 } }; // other max ring difference before
      c["model"] = { { "kind", "wide" }, { "e_off", 3 }, { "e_ring", 2 }, { "e_det", 4 }, { "det_shape", 0 }, { "dead", 2 }, { "zero_frac", 0.3 }, { "extreme_factors", true } };
      c["twod"] = { { "seg", 2 }, { "neg_seg", true }, { "ax", 0 }, { "unit", 2 }, { "seed", 33005 } };
      v.push_back(c);
    }
    {
      // small scanner of the mMR family (one virtual crystal per transaxial block): 8 blocks x (2+1), 3 rings
      json j;
      j["family"] = int(Scanner::Siemens_mMR);
      j["ndet"] = 24;
      j["rings"] = 3;
      j["tr_cryst_per_block"] = 3;
      j["ax_cryst_per_block"] = 1;
      j["tr_blocks_per_bucket"] = 2;
      j["ax_blocks_per_bucket"] = 1;
      j["max_tang"] = 23;
      j["radius"] = 150.;
      j["doi"] = 5.;
      j["ring_spacing"] = 3.;
      j["bin_size"] = 2.;
      json c = base(j, 24, 2, 11, 34001);
      c["reuse"] = { { "scanner", gen_sc(16, 2, 2, 2, 1, 1) }, { "max_delta", 1 }, { "tang", 9 } }; // another scanner before
      c["twod"] = { { "seg", 1 }, { "neg_seg", false }, { "ax", 0 }, { "unit", 0 }, { "seed", 34005 } };
      c["signed_data"] = 1;
      c["dead_eff"] = 2;
      v.push_back(c);
    }
    {
      // multiply_crystal_factors: span 3, view mashing 2, 3 TOF bins; output used before
      json sc = gen_sc(16, 4, 2, 2, 1, 2);
      // Scanner::check_consistency wants the coincidence window within [1/2,2] x the FOV diameter (as vg::gen_scanner does it)
      const double w_ps = 2. * vg::make_scanner(sc)->get_max_FOV_radius() / 0.149896229;
      sc["tof_poss"] = 9;
      sc["tof_size"] = w_ps / 9.;
      sc["tof_res"] = w_ps * 0.25;
      json c;
      c["scanner"] = sc;
      c["pdi"] = { { "span", 3 }, { "max_delta", 3 }, { "views", 4 }, { "tang", 9 }, { "arccorr", false }, { "tof_mash", 3 }, { "trim", json::object() } };
      c["crystal"] = { { "seed", 35001 }, { "global_factor", 3.75 }, { "history", 2 } };
      v.push_back(c);
    }
  }
  return v;
}

bool
nontrivial(const json& c)
{
  try
    {
      shared_ptr<Scanner> sc = c20::make_scanner(c["scanner"]);
      const Blocks B = Blocks::from(*sc);
      if (B.v_tr > 0 || (B.v_ax > 0 && B.nb_ax > 1))
        return true;
      const int t = c["pdi"]["tang"].get<int>();
      const int half_fan = std::min(-(t / 2) + t - 1, t / 2);
      return sc->get_num_rings() >= 2 && 2 * half_fan + 1 < B.n - 1;
    }
  catch (...)
    {
      return false;
    }
}

} // namespace

const Property&
the_property()
{
  static Property p;
  p.id = "C20";
  p.gen = gen;
  p.check = check;
  p.nontrivial = nontrivial;
  p.fixed_cases = fixed_cases;
  p.enumerate = enumerate;
  p.rule = ">= 2 rings and fan smaller than the full ring, or virtual crystals present";
  return p;
}

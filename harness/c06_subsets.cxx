// C06 — ordered subsets partition the data; every subset is used once per iteration.
//
// Bounded-EXHAUSTIVE enumeration (Property::enumerate) of
//   (a)/(b) geometry/symmetry configurations: num_views 1..96 x view mashing m in {1,2} x segment ranges
//           x TOF bins {1,3} x the symmetry objects the projectors really use; inside one Case ALL
//           num_subsets 1..num_views and all subsets are checked (counting-partition oracle, balancedness);
//   (c)     subset schedules: all (num_subsets <= 12, start_subset, start_subiteration <= 2N+1, randomise,
//           two lengths) run through OSMAPOSLReconstruction with a harness-side recording objective function.
// No projector is ever run for (a)/(b) except in the small "set_up agrees with the predicate" sample.
//
// Extension: OBJECT-REUSE HISTORIES (the enumeration above runs every case on FRESH objects).
//   (c')    kind "hist": 2-4 consecutive runs on ONE OSMAPOSLReconstruction / OSSPSReconstruction object; between runs
//           the public setters (set_num_subsets, set_num_subiterations, set_start_subiteration_num,
//           set_start_subset_num, set_randomise_subset_order, set_objective_function_sptr) change the configuration
//           (N2 < N1, N2 > N1, N2 == N1, randomise switched on/off, starts inside an iteration, resumes), then set_up
//           (or no set_up where none is required); EVERY run's recorded schedule must satisfy the validity predicate of
//           a fresh object.  A bounded-exhaustive block of 2- and 3-run histories is part of the enumeration (both
//           flavours: the ASan build decides the out-of-range reads), generated histories go beyond it.
//   (a'/b') kind "cfgops": ONE symmetries object / ONE objective function is asked for (num_subsets, subset) lists and
//           for the balancedness predicate in GENERATED order (num_subsets going up and down, repeated,
//           max_segment_num_to_process changed in between, set_up of the objective function in between): repeated
//           answers must be identical, the lists collected for one num_subsets must still be the counting partition,
//           the predicate must equal the harness's own count for the CURRENT (num_subsets, segment range).
#include "explicit_p.h"
#include "stir/ProjDataInfoSubsetByView.h"
#include "stir/ProjDataInMemory.h"
#include "stir/ExamData.h"
#include "stir/ExamInfo.h"
#include "stir/ViewSegmentNumbers.h"
#include "stir/DataSymmetriesForViewSegmentNumbers.h"
#include "stir/recon_buildblock/TrivialDataSymmetriesForBins.h"
#include "stir/recon_buildblock/DataSymmetriesForBins_PET_CartesianGrid.h"
#include "stir/recon_buildblock/find_basic_vs_nums_in_subsets.h"
#include "stir/recon_buildblock/ProjectorByBinPairUsingProjMatrixByBin.h"
#include "stir/recon_buildblock/ProjectorByBinPairUsingSeparateProjectors.h"
#include "stir/recon_buildblock/BackProjectorByBin.h"
#include "stir/recon_buildblock/PoissonLogLikelihoodWithLinearModelForMeanAndProjData.h"
#include "stir/recon_buildblock/PoissonLogLikelihoodWithLinearModelForMean.h"
#include "stir/OSMAPOSL/OSMAPOSLReconstruction.h"
#include "stir/OSSPS/OSSPSReconstruction.h"
#include "stir/analytic/FBP2D/FBP2DReconstruction.h"
#include "stir/recon_buildblock/ForwardProjectorByBin.h"
#include "stir/ProjDataInterfile.h"
#include "stir/RegisteredParsingObject.h"
#include "stir/RelatedViewgrams.h"
#include "stir/Viewgram.h"
#include "stir/TextWriter.h"
#include <cstdlib>
#include <cstdio>
#include <algorithm>
#include <unistd.h>
#include <sys/stat.h>
#include <sstream>
#include <map>
#include <set>

#ifndef __has_feature
#  define __has_feature(x) 0
#endif
#if defined(__SANITIZE_ADDRESS__) || __has_feature(address_sanitizer)
#  define C06_SANITIZED 1
#else
#  define C06_SANITIZED 0
#endif

using namespace vf;
using namespace stir;

namespace {

typedef DiscretisedDensity<3, float> Target;

// ------------------------------------------------------------------------------------------------
// symmetry codes of a configuration Case
//   0 TrivialDataSymmetriesForBins
//   1 DataSymmetriesForBins_PET_CartesianGrid, everything off
//   2 swap-segment only      3 180 degrees only      4 180 + swap-segment
//   5 90 (+180, implied by the constructor)          6 90 + 180 + swap-segment
//   7 all on (90, 180, swap-segment, swap-s, shift-z: the projectors' default)
struct SymSwitches
{
  bool s90, s180, swap_seg, swap_s, shift_z;
};
SymSwitches
switches(int code)
{
  switch (code)
    {
    case 1:
      return { false, false, false, false, false };
    case 2:
      return { false, false, true, false, false };
    case 3:
      return { false, true, false, false, false };
    case 4:
      return { false, true, true, false, false };
    case 5:
      return { true, true, false, false, false };
    case 6:
      return { true, true, true, false, false };
    default:
      return { true, true, true, true, true };
    }
}

// a back projector that only reports TrivialDataSymmetriesForBins (what the SPECT/GPU projectors of the
// library do); used to put that symmetry object behind PoissonLogLikelihoodWithLinearModelForMeanAndProjData
class TrivialSymBackProjector : public BackProjectorByBin
{
public:
  shared_ptr<DataSymmetriesForViewSegmentNumbers> sym;
  void set_up(const shared_ptr<const ProjDataInfo>& p, const shared_ptr<const DiscretisedDensity<3, float>>& d) override
  {
    BackProjectorByBin::set_up(p, d);
    sym.reset(new TrivialDataSymmetriesForBins(p));
  }
  const DataSymmetriesForViewSegmentNumbers* get_symmetries_used() const override { return sym.get(); }
  BackProjectorByBin* clone() const override { return new TrivialSymBackProjector(*this); }
  std::string get_registered_name() const override { return "verif trivial-symmetries back projector"; }
};

json
scanner_spec(int ndet, int rings, bool tilt, int tof_bins /* Case field "tof": 1 = non-TOF, else the (odd) number of TOF bins */)
{
  const bool tof = tof_bins > 1;
  json sc;
  sc["type"] = -1;
  sc["ndet"] = ndet;
  sc["rings"] = rings;
  sc["tr_cryst_per_block"] = 1;
  sc["tr_blocks_per_bucket"] = 1;
  sc["ax_cryst_per_block"] = 1;
  sc["ax_blocks_per_bucket"] = 1;
  sc["singles_units"] = 0;
  sc["max_tang"] = std::min(3, ndet - 1);
  sc["radius"] = 300.;
  sc["doi"] = 0.;
  sc["ring_spacing"] = 4.;
  sc["bin_size"] = 2.;
  sc["tilt"] = tilt ? 0.1 : 0.;
  sc["tof_poss"] = 0;
  sc["geometry"] = "Cylindrical";
  if (tof)
    { // TOF sizes consistent with the FOV (Scanner::check_consistency)
      const double fov_d = 2. * vg::make_scanner(sc)->get_max_FOV_radius();
      // ProjDataInfo::set_tof_mash_factor: "Number of TOF bins should be an odd number" -> 3, 5, ...
      const int T = tof_bins % 2 ? tof_bins : tof_bins + 1;
      sc["tof_poss"] = T;
      sc["tof_size"] = fov_d / 0.149896229 / T;
      sc["tof_res"] = fov_d / 0.149896229 / (T + 1);
    }
  return sc;
}

struct Geo
{
  shared_ptr<Scanner> sc;
  shared_ptr<ProjDataInfo> full_pdi; // cylindrical
  shared_ptr<ProjDataInfo> pdi;      // what the symmetries/projectors see (possibly a view subset)
  shared_ptr<VoxelsOnCartesianGrid<float>> image;
};

Geo
build_geo(const json& c)
{
  Geo g;
  const int views = c["views"], m = c["m"], segs = c["segs"];
  const bool tof = c["tof"].get<int>() > 1;
  g.sc = vg::make_scanner(scanner_spec(2 * views * m, segs + 1, c.value("tilt", false), c["tof"].get<int>()));
  if (g.sc->check_consistency() != Succeeded::yes)
    error("scanner inconsistent");
  g.full_pdi.reset(
      ProjDataInfo::construct_proj_data_info(g.sc, 1, segs, views, g.sc->get_max_num_non_arccorrected_bins(), false, tof ? 1 : 0).release());
  const int seg_lo = c.value("seg_lo", -segs), seg_hi = c.value("seg_hi", segs);
  if (seg_lo != -segs || seg_hi != segs)
    g.full_pdi->reduce_segment_range(seg_lo, seg_hi);
  g.pdi = g.full_pdi;
  const int step = c.value("subset_by_view", 0);
  if (step > 0)
    {
      std::vector<int> vs;
      for (int v = c.value("subset_by_view_offset", 0) % step; v < views; v += step)
        vs.push_back(v);
      g.pdi.reset(new ProjDataInfoSubsetByView(g.full_pdi, vs));
    }
  json im;
  im["nx"] = 3;
  im["ny"] = 3;
  im["z_div"] = 1;
  im["nz_extra"] = 0;
  im["vx_rel"] = c.value("vx_rel", 1.); // (1: voxel size = tangential sampling; other values only in triage cases)
  im["vy_same"] = !c.value("nonsquare", false);
  im["vy_rel"] = 2.;
  im["z_shift_planes"] = 0;
  im["ox"] = 0.;
  im["oy"] = 0.;
  g.image = vg::make_image(im, *g.full_pdi, 5);
  return g;
}

typedef std::tuple<int, int> VS; // (segment, view)

// ---- (a) + own counts for one (symmetries, segment range, num_subsets) -------------------------
// Fills per-subset viewgram counts (own count, for (b)).
Result
check_partition(const ProjDataInfo& pdi,
                const DataSymmetriesForViewSegmentNumbers& sym,
                const int smin,
                const int smax,
                const int N,
                std::vector<long>& own_count,
                int& max_group,
                const std::vector<std::vector<ViewSegmentNumbers>>* given = nullptr) // lists obtained earlier (reuse histories)
{
  const int vmin = pdi.get_min_view_num(), vmax = pdi.get_max_view_num();
  const int nv = vmax - vmin + 1, ns = smax - smin + 1;
  const int tmin = pdi.get_min_tof_pos_num(), tmax = pdi.get_max_tof_pos_num();
  const int nt = tmax - tmin + 1;
  // counter over (segment, view, TOF bin)
  std::vector<int> count(std::size_t(ns) * nv * nt, 0);
  std::vector<int> owner(std::size_t(ns) * nv, -1);
  own_count.assign(std::size_t(N), 0);
  std::vector<ViewSegmentNumbers> rel;
  for (int subset = 0; subset < N; ++subset)
    {
      const std::vector<ViewSegmentNumbers> L
          = given ? (*given)[std::size_t(subset)] : detail::find_basic_vs_nums_in_subset(pdi, sym, smin, smax, subset, N);
      for (const ViewSegmentNumbers& vs : L)
        {
          VF_CHECK(vs.segment_num() >= smin && vs.segment_num() <= smax && vs.view_num() >= vmin && vs.view_num() <= vmax,
                   "num_subsets=", N, " subset ", subset, ": returned view/segment (", vs.view_num(), ",", vs.segment_num(), ") outside the data");
          VF_CHECK((vs.view_num() - vmin) % N == subset, "num_subsets=", N, " subset ", subset, ": returned view ", vs.view_num(),
                   " does not belong to this subset");
          VF_CHECK(sym.is_basic(vs), "num_subsets=", N, " subset ", subset, ": returned view/segment (", vs.view_num(), ",", vs.segment_num(),
                   ") is not basic");
          sym.get_related_view_segment_numbers(rel, vs);
          VF_CHECK(int(rel.size()) == sym.num_related_view_segment_numbers(vs), "num_related_view_segment_numbers(", vs.view_num(), ",",
                   vs.segment_num(), ")=", sym.num_related_view_segment_numbers(vs), " but the related list has ", rel.size(), " entries");
          max_group = std::max(max_group, int(rel.size()));
          bool self = false;
          for (const ViewSegmentNumbers& r : rel)
            {
              VF_CHECK(r.segment_num() >= smin && r.segment_num() <= smax && r.view_num() >= vmin && r.view_num() <= vmax, "num_subsets=", N,
                       " subset ", subset, ": related view/segment (", r.view_num(), ",", r.segment_num(), ") of basic (", vs.view_num(), ",",
                       vs.segment_num(), ") is outside the data");
              ViewSegmentNumbers b = r;
              sym.find_basic_view_segment_numbers(b);
              VF_CHECK(b == vs, "related (", r.view_num(), ",", r.segment_num(), ") of basic (", vs.view_num(), ",", vs.segment_num(),
                       ") has basic (", b.view_num(), ",", b.segment_num(), ")");
              self = self || r == vs;
              const std::size_t i = std::size_t(r.segment_num() - smin) * nv + (r.view_num() - vmin);
              // every user of the list (distributable_computation, the projectors' subset loops, the Hessian
              // code) combines each list entry with every TOF bin
              for (int k = 0; k < nt; ++k)
                ++count[i * nt + k];
              VF_CHECK(owner[i] == -1 || owner[i] == subset, "view ", r.view_num(), " segment ", r.segment_num(), " is processed for subset ",
                       owner[i], " and for subset ", subset, " (num_subsets=", N, ")");
              owner[i] = subset;
              own_count[std::size_t(subset)] += nt;
            }
          VF_CHECK(self, "the related list of (", vs.view_num(), ",", vs.segment_num(), ") does not contain itself");
        }
    }
  for (int s = smin; s <= smax; ++s)
    for (int v = vmin; v <= vmax; ++v)
      for (int k = 0; k < nt; ++k)
        {
          const int n = count[(std::size_t(s - smin) * nv + (v - vmin)) * nt + k];
          VF_CHECK(n == 1, "num_views=", nv, " num_subsets=", N, " segments ", smin, "..", smax, ": (segment ", s, ", view ", v, ", TOF bin ", tmin + k,
                   ") is processed ", n, " times over all subsets (expected exactly once)");
        }
  stats().count("viewgram groups counted", long(ns) * nv * nt);
  return Result::pass();
}

shared_ptr<ExamInfo>
pet_exam_info()
{
  shared_ptr<ExamInfo> e(new ExamInfo);
  e->imaging_modality = ImagingModality(ImagingModality::PT);
  return e;
}

//! the symmetries objects for symmetry code `code` on geometry g (projector pair's and directly constructed)
Result
build_pair(const int code, const Geo& g, shared_ptr<ProjectorByBinPair>& pair, shared_ptr<DataSymmetriesForViewSegmentNumbers>& direct_sym)
{
  const SymSwitches sw = switches(code);
  try
    {
      if (code == 0)
        {
          shared_ptr<TrivialSymBackProjector> bp(new TrivialSymBackProjector);
          bp->set_up(g.pdi, g.image);
          pair.reset(new ProjectorByBinPairUsingSeparateProjectors(shared_ptr<ForwardProjectorByBin>(), bp));
          direct_sym.reset(new TrivialDataSymmetriesForBins(g.pdi));
        }
      else
        {
          shared_ptr<ProjMatrixByBin> mat = vp::make_matrix(vp::MatrixOpts(), sw.s90, sw.s180, sw.swap_seg, sw.swap_s, sw.shift_z, false, false);
          pair.reset(new ProjectorByBinPairUsingProjMatrixByBin(mat));
          if (pair->set_up(g.pdi, g.image) != Succeeded::yes)
            return Result::reject("projector pair set_up failed");
          direct_sym.reset(new DataSymmetriesForBins_PET_CartesianGrid(g.pdi, g.image, sw.s90, sw.s180, sw.swap_seg, sw.swap_s, sw.shift_z));
        }
    }
  catch (const stir_verif::AssertionFailure&)
    {
      throw;
    }
  catch (const std::exception& e)
    {
      return Result::reject(std::string("construction rejected: ") + e.what());
    }
  return Result::pass();
}

//! geometry + the symmetries objects of a configuration case
Result
build_config(const json& c, Geo& g, shared_ptr<ProjectorByBinPair>& pair, shared_ptr<DataSymmetriesForViewSegmentNumbers>& direct_sym)
{
  try
    {
      g = build_geo(c);
    }
  catch (const stir_verif::AssertionFailure&)
    {
      throw;
    }
  catch (const std::exception& e)
    {
      return Result::reject(std::string("construction rejected: ") + e.what());
    }
  return build_pair(c["sym"], g, pair, direct_sym);
}

// (d)-(g): the OPERATIONAL partition clauses on the subset-taking entry points (counting projectors, indicator inputs)
#include "c06_operational.h"

Result
check_config(const json& c)
{
  Geo g;
  shared_ptr<ProjectorByBinPair> pair;
  shared_ptr<DataSymmetriesForViewSegmentNumbers> direct_sym; // constructed directly
  const int code = c["sym"];
  const Result br = build_config(c, g, pair, direct_sym);
  if (br.kind != Result::PASS)
    return br;
  const DataSymmetriesForViewSegmentNumbers& sym = *pair->get_back_projector_sptr()->get_symmetries_used();
  // (operator== of two distinct DataSymmetriesForBins_PET_CartesianGrid objects recurses without end,
  //  see work/notes/C06_findings.md "incidental"; the objects are therefore compared by behaviour below)

  const ProjDataInfo& pdi = *g.pdi;
  const int views = pdi.get_num_views();
  const int data_smin = pdi.get_min_segment_num(), data_smax = pdi.get_max_segment_num();
  const int proc_max = c.value("proc_max", -1); // max_segment_num_to_process (-1: all)
  const bool symmetric_data = data_smin == -data_smax;
  const int only_N = c.value("num_subsets", 0);

  // the objective function whose balancedness predicate is compared with the harness's own count
  PoissonLogLikelihoodWithLinearModelForMeanAndProjData<Target> obj;
  // Asymmetric segment range of the data (audit): the objective function processes -pm..pm, legal as soon as these
  // segments exist (set_up only rejects max_segment_num_to_process > max segment of the data) -> pm <= min(-smin, smax)
  const bool have_obj = data_smin <= 0 && data_smax >= 0;
  const int pm = symmetric_data ? (proc_max >= 0 ? proc_max : data_smax)
                                : std::min(proc_max >= 0 ? proc_max : data_smax, std::min(-data_smin, data_smax));
  // the harness's own statement of the sizes of the data (not read back from the ProjDataInfo under test)
  if (c.value("subset_by_view", 0) == 0)
    VF_CHECK(views == c["views"].get<int>(), "the data have ", views, " views, the Case says ", c["views"].get<int>());
  VF_CHECK(pdi.get_num_tof_poss() == (c["tof"].get<int>() > 1 ? c["tof"].get<int>() | 1 : 1), "the data have ", pdi.get_num_tof_poss(),
           " TOF bins, the Case says ", c["tof"].get<int>());
  if (have_obj)
    {
      // (segments -pm..pm are what the objective function processes: it needs them to exist)
      shared_ptr<ProjData> pd(new ProjDataInMemory(pet_exam_info(), g.pdi, false));
      obj.set_proj_data_sptr(pd);
      obj.set_projector_pair_sptr(pair);
      obj.set_max_segment_num_to_process(pm);
    }

  int max_group = 1;
  long n_balanced = 0, n_unbalanced = 0;
  for (int N = (only_N > 0 ? only_N : 1); N <= (only_N > 0 ? only_N : views); ++N)
    {
      std::vector<long> own;
      // the projectors' own subset loops use the whole segment range of the data
      Result r = check_partition(pdi, sym, data_smin, data_smax, N, own, max_group);
      if (r.failed())
        return r;
      if (code != 0 || N == 1)
        { // the directly constructed object must behave identically
          std::vector<long> own2;
          int mg = 1;
          r = check_partition(pdi, *direct_sym, data_smin, data_smax, N, own2, mg);
          if (r.failed())
            return Result::fail("directly constructed symmetries: " + r.msg);
          VF_CHECK(own == own2, "per-subset counts differ between the projector's and the directly constructed symmetries object, num_subsets=", N);
        }
      if (have_obj)
        {
          // the objective function restricts to -max_segment_num_to_process..+max_segment_num_to_process
          if (pm != data_smax || !symmetric_data)
            {
              r = check_partition(pdi, sym, -pm, pm, N, own, max_group);
              if (r.failed())
                return r;
            }
          // (b) balancedness predicate vs own count of viewgrams per subset
          bool own_balanced = true;
          for (long n : own)
            own_balanced = own_balanced && n == own[0];
          obj.set_num_subsets(N);
          const bool lib_balanced = obj.subsets_are_approximately_balanced();
          if (lib_balanced != own_balanced)
            {
              std::string counts;
              for (long n : own)
                counts += cat(n, " ");
              return Result::fail(cat("num_views=", views, " num_subsets=", N, " max_segment_num_to_process=", pm,
                                      ": subsets_are_approximately_balanced()=", lib_balanced, " but the viewgrams per subset are ", counts));
            }
          (own_balanced ? n_balanced : n_unbalanced)++;
        }
      stats().count("configurations x num_subsets");
    }
  stats().count("balanced", n_balanced);
  stats().count("unbalanced", n_unbalanced);
  stats().cls(cat("sym code ", code));
  if (max_group > 1)
    stats().cls(cat("effective symmetry group size ", max_group));
  else
    stats().cls("effective symmetry group size 1");
  if (pdi.is_tof_data())
    stats().cls("TOF");
  if (c.value("tilt", false))
    stats().cls("view offset (symmetries switched off)");
  if (c.value("nonsquare", false))
    stats().cls("non-square voxels");
  if (c.value("subset_by_view", 0) > 0)
    stats().cls("ProjDataInfoSubsetByView");
  if (!symmetric_data)
    stats().cls("asymmetric segment range");
  if (!symmetric_data && have_obj)
    stats().cls("asymmetric segment range: balancedness predicate decided on -pm..pm");
  if (-data_smin > data_smax)
    stats().cls("asymmetric segment range: more negative than positive segments");
  if (pdi.get_num_tof_poss() > 3)
    stats().cls("TOF: 5 TOF bins");
  if (proc_max >= 0 && proc_max < data_smax)
    stats().cls("max_segment_num_to_process < max segment");

  // ---- set_up of the objective function agrees with the predicate (small, non-TOF only) ----
  // PoissonLogLikelihoodWithLinearModelForMean::set_up: "if (!subsets_are_approximately_balanced() &&
  // !get_use_subset_sensitivities()) error(...)"
  if (c.value("check_set_up", false) && symmetric_data && code != 0 && !pdi.is_tof_data())
    for (int N = 1; N <= views; ++N)
      {
        PoissonLogLikelihoodWithLinearModelForMeanAndProjData<Target> o2;
        shared_ptr<ProjData> pd(new ProjDataInMemory(pet_exam_info(), g.pdi, true));
        o2.set_proj_data_sptr(pd);
        o2.set_projector_pair_sptr(pair);
        o2.set_max_segment_num_to_process(pm);
        o2.set_use_subset_sensitivities(false);
        o2.set_num_subsets(N);
        shared_ptr<Target> target(g.image->clone());
        target->set_exam_info(*pet_exam_info());
        bool threw = false;
        Succeeded ok = Succeeded::no;
        std::string what;
        try
          {
            ok = o2.set_up(target);
          }
        catch (const stir_verif::AssertionFailure&)
          {
            throw;
          }
        catch (const std::exception& e)
          {
            threw = true;
            what = e.what();
          }
        std::vector<long> own;
        int mg = 1;
        // (set_up of the objective function sets the projector pair up again, which creates a NEW symmetries object:
        //  the object is fetched again, `sym` from above no longer exists)
        Result r = check_partition(pdi, *pair->get_back_projector_sptr()->get_symmetries_used(), -pm, pm, N, own, mg);
        if (r.failed())
          return r;
        bool own_balanced = true;
        for (long n : own)
          own_balanced = own_balanced && n == own[0];
        VF_CHECK((ok == Succeeded::yes && !threw) == own_balanced, "num_views=", views, " num_subsets=", N,
                 " use_subset_sensitivities=false: set_up succeeded=", ok == Succeeded::yes && !threw, " but own balancedness=", own_balanced, " (",
                 what.substr(0, 120), ")");
        stats().count("set_up vs balancedness checks");
      }
  return Result::pass();
}

// ------------------------------------------------------------------------------------------------
// (c) schedules

//! thrown by the recording objective function when it is asked for a subset that does not exist (the library would
//! go on to index its subset sensitivities with it)
struct SubsetOutOfRange : std::runtime_error
{
  using std::runtime_error::runtime_error;
};

class RecordingObjective : public PoissonLogLikelihoodWithLinearModelForMean<Target>
{
  typedef PoissonLogLikelihoodWithLinearModelForMean<Target> base_type;

public:
  std::vector<int> gradient_subsets; // subset_num of every gradient(+sensitivity) request, in call order
  shared_ptr<ExamData> input;
  shared_ptr<Target> proto;
  RecordingObjective()
  {
    this->set_defaults();
    input.reset(new ExamData(pet_exam_info()));
    proto.reset(
        new VoxelsOnCartesianGrid<float>(IndexRange3D(0, 0, 0, 0, 0, 0), CartesianCoordinate3D<float>(0, 0, 0), CartesianCoordinate3D<float>(1, 1, 1)));
    proto->set_exam_info(*pet_exam_info());
  }
  std::string get_registered_name() const override { return "verif recording objective function"; }
  Target* construct_target_ptr() const override { return proto->get_empty_copy(); }
  int set_num_subsets(const int n) override
  {
    this->already_set_up = this->already_set_up && (this->num_subsets == n);
    this->num_subsets = std::max(n, 1);
    return this->num_subsets;
  }
  void set_input_data(const shared_ptr<ExamData>& d) override { input = d; }
  const ExamData& get_input_data() const override { return *input; }
  void set_additive_proj_data_sptr(const shared_ptr<ExamData>&) override {}
  void set_normalisation_sptr(const shared_ptr<BinNormalisation>&) override {}
  void add_subset_sensitivity(Target& sensitivity, const int) const override
  {
    for (auto it = sensitivity.begin_all(); it != sensitivity.end_all(); ++it)
      *it += 1.F;
  }
  void actual_compute_subset_gradient_without_penalty(Target& gradient, const Target&, const int subset_num, const bool) override
  {
    gradient_subsets.push_back(subset_num);
    // a subset that does not exist is recorded (the oracle reports it) and the run is stopped here: OSMAPOSL would use
    // it as an index into the subset sensitivities next
    if (subset_num < 0 || subset_num >= this->num_subsets)
      throw SubsetOutOfRange(cat("the objective function (num_subsets=", this->num_subsets, ") is asked for subset ", subset_num));
    gradient.fill(1.F);
  }

protected:
  Succeeded set_up_before_sensitivity(shared_ptr<const Target> const&) override { return Succeeded::yes; }
  double actual_compute_objective_function_without_penalty(const Target&, const int) override { return 0.; }
  bool actual_subsets_are_approximately_balanced(std::string&) const override { return true; }
};

//! the recording objective function in the registry of objective functions: OSMAPOSLReconstruction::parse can then be given
//! "objective function type := verif recording objective function" -- the parameter-file way of configuring the subsets
//! (keys "number of subsets", "start at subset", "start at subiteration number", "number of subiterations", "uniformly
//! randomise subset order"), which is how the OSMAPOSL executable is driven
class ParsedRecordingObjective : public RegisteredParsingObject<ParsedRecordingObjective, GeneralisedObjectiveFunction<Target>, RecordingObjective>
{
public:
  static const char* const registered_name;

protected:
  void initialise_keymap() override
  {
    RecordingObjective::initialise_keymap();
    this->parser.add_start_key("Verif Recording Objective Function Parameters");
    this->parser.add_stop_key("End Verif Recording Objective Function Parameters");
  }
};
const char* const ParsedRecordingObjective::registered_name = "verif recording objective function";
static ParsedRecordingObjective::RegisterIt c06_register_recording_objective;

//! the validity predicate of clause (c) for ONE run: sub-iterations start_subiter..K with N subsets.
/*! every completely run window [kN+1,(k+1)N] contains every subset exactly once; distinct subsets in a partially run
    window; all subset numbers in [0,N); without randomisation the documented formula (IterativeReconstruction.h,
    get_subset_num).  `stopped` = the run was stopped by the recorder/an exception: the number of requests is then not
    checked (the reason is reported by the caller if the recorded part is valid). */
Result
validate_schedule(const std::vector<int>& used,
                  const int N,
                  const int start_subset,
                  const int start_subiter,
                  const int K,
                  const bool randomise,
                  const std::string& where,
                  const bool stopped,
                  long& complete)
{
  std::string seq;
  for (int s : used)
    seq += cat(s, " ");
  const int expected_calls = std::max(0, K - start_subiter + 1);
  if (!stopped)
    VF_CHECK(int(used.size()) == expected_calls, where, "sub-iterations ", start_subiter, "..", K, " should request ", expected_calls,
             " subset gradients, got ", used.size(), ": ", seq);
  std::map<int, std::set<int>> window; // window index -> subsets used in it
  std::map<int, int> window_len;
  for (std::size_t i = 0; i < used.size(); ++i)
    {
      const int t = start_subiter + int(i); // sub-iteration number (1-based)
      const int s = used[i];
      VF_CHECK(s >= 0 && s < N, where, "sub-iteration ", t, " used subset ", s, " outside 0..", N - 1, "; observed: ", seq);
      if (!randomise)
        VF_CHECK(s == (t + start_subset - 1) % N, where, "sub-iteration ", t, " used subset ", s, " instead of (", t, "+", start_subset, "-1) mod ", N,
                 "; observed: ", seq);
      const int w = (t - 1) / N;
      VF_CHECK(window[w].insert(s).second, where, "subset ", s, " is used twice within full iteration ", w + 1, " (sub-iterations ", w * N + 1, "..",
               (w + 1) * N, "); num_subsets=", N, " start sub-iteration ", start_subiter, " randomise=", randomise, "; observed: ", seq);
      ++window_len[w];
    }
  complete = 0;
  for (auto& kv : window_len)
    if (kv.second == N)
      {
        VF_CHECK(int(window[kv.first].size()) == N, where, "full iteration ", kv.first + 1, " does not use every subset; observed: ", seq);
        ++complete;
      }
  return Result::pass();
}

Result
check_schedule(const json& c)
{
  const int N = c["N"], start_subset = c["start_subset"], start_subiter = c["start_subiter"], K = c["num_subiters"];
  const bool randomise = c["randomise"];
  // via_parse: the configuration is given as a parameter file (KeyParser keys) and the run is started with the
  // parameterless reconstruct() (initial estimate "1", set_up inside), as the OSMAPOSL executable does
  const bool via_parse = c.value("via_parse", false);
  shared_ptr<RecordingObjective> obj(new RecordingObjective);
  OSMAPOSLReconstruction<Target> recon;
  shared_ptr<Target> target(obj->construct_target_ptr());
  target->fill(1.F);
  try
    {
      if (via_parse)
        {
          std::stringstream par;
          par << "OSMAPOSLParameters :=\n"
              << "objective function type := " << ParsedRecordingObjective::registered_name << "\n"
              << "  Verif Recording Objective Function Parameters :=\n"
              << "  End Verif Recording Objective Function Parameters :=\n"
              << "disable output := 1\n"
              << "number of subsets := " << N << "\n"
              << "start at subset := " << start_subset << "\n"
              << "start at subiteration number := " << start_subiter << "\n"
              << "number of subiterations := " << K << "\n"
              << "uniformly randomise subset order := " << (randomise ? 1 : 0) << "\n"
              << "End :=\n";
          if (!recon.parse(par))
            return Result::reject("parsing the OSMAPOSL parameters failed");
          obj = dynamic_pointer_cast<RecordingObjective>(recon.get_objective_function_sptr());
          VF_CHECK(!!obj, "the parsed reconstruction object does not hold the recording objective function");
          VF_CHECK(recon.get_num_subsets() == N && recon.get_start_subset_num() == start_subset && recon.get_start_subiteration_num() == start_subiter
                       && recon.get_num_subiterations() == K && recon.get_randomise_subset_order() == randomise,
                   "after parsing, the object reports num_subsets=", recon.get_num_subsets(), " start_subset=", recon.get_start_subset_num(),
                   " start_subiteration=", recon.get_start_subiteration_num(), " num_subiterations=", recon.get_num_subiterations(),
                   " randomise=", recon.get_randomise_subset_order());
        }
      else
        {
          recon.set_objective_function_sptr(obj);
          recon.set_disable_output(true);
          recon.set_num_subsets(N);
          recon.set_num_subiterations(K);
          recon.set_start_subiteration_num(start_subiter);
          recon.set_start_subset_num(start_subset);
          recon.set_randomise_subset_order(randomise);
          if (recon.set_up(target) != Succeeded::yes)
            return Result::reject("reconstruction set_up failed");
        }
    }
  catch (const stir_verif::AssertionFailure&)
    {
      throw;
    }
  catch (const std::exception& e)
    {
      return Result::reject(std::string("reconstruction set_up rejected: ") + e.what());
    }
  obj->gradient_subsets.clear();
#if C06_SANITIZED
  // under ASan/UBSan the sanitizer is the oracle for memory errors: Release behaviour (no assert()) is executed
  stir_verif::asserts_on = false;
#endif
  Succeeded ok = Succeeded::no;
  std::string stopped;
  try
    {
      ok = via_parse ? recon.reconstruct() : recon.reconstruct(target);
    }
  catch (const SubsetOutOfRange& e)
    {
      stir_verif::asserts_on = false; // (running timers, see below)
      stopped = e.what();
    }
  catch (...)
    {
      // the timers of the reconstruction object are still running while the exception unwinds; their
      // destructors assert(!running), which would terminate the process instead of reporting the case
      stir_verif::asserts_on = false;
      throw;
    }
  long complete = 0;
  const Result r = validate_schedule(obj->gradient_subsets, N, start_subset, start_subiter, K, randomise, "", !stopped.empty(), complete);
  if (r.failed())
    return r;
  VF_CHECK(stopped.empty(), stopped);
  stir_verif::asserts_on = true;
  VF_CHECK(ok == Succeeded::yes, "reconstruct() did not succeed");
  stats().count("complete iterations checked", complete);
  stats().count("sub-iterations observed", long(obj->gradient_subsets.size()));
  stats().cls(randomise ? "schedule: randomised" : "schedule: sequential");
  if (via_parse)
    stats().cls("schedule: configured by parsing, parameterless reconstruct()");
  if ((start_subiter - 1) % N != 0)
    stats().cls("schedule: starts inside an iteration");
  if (start_subset != 0)
    stats().cls("schedule: start_subset != 0");
  return Result::pass();
}

// ------------------------------------------------------------------------------------------------
// (c') object-reuse histories: several runs on ONE reconstruction object
//
// Case: { kind:"hist", algo: 0 (OSMAPOSL) | 1 (OSSPS), maxN, rseed, ops: [ ["run", aN, aSS, aSSI, aExtra, aRand, flags], ... ] }
// The arguments are interpreted modulo the state (any sub-sequence of the list is a valid history):
//   num_subsets N      = 1 + aN mod maxN                 (flags&1: set_num_subsets is NOT called, N stays)
//   randomise          = aRand&1                         (flags&2: set_randomise_subset_order is NOT called)
//   start_subset       = aSS mod N                       (flags&4: set_start_subset_num is NOT called if the old value is
//                                                         still < N; IterativeReconstruction::set_up: "Range error in
//                                                         starting subset (has to be between 0 and num_subsets-1)")
//   start sub-iteration= 1 + aSSI mod (3N+1)             (flags&16: previous num_subiterations + 1, i.e. a resume)
//   num_subiterations  = max(1, start + (aExtra mod (4N+2)) - 1)   (start-1 = an empty run; set_up: "has to be >= 1")
//   flags&8 : no set_up before this run where none is required: Reconstruction::check only demands set_up after
//             set_num_subsets / set_input_data / set_post_processor_sptr (they reset _already_set_up); OSSPS documents
//             "you have to call set_up() before running a new reconstruction", so OSSPS is always set up again
//   flags&32: a NEW objective function object is given to the reconstruction object (then set_up is needed)
// The first run sets everything (exactly the calls of check_schedule).  rand() is seeded by the harness after set_up
// (which seeds it from the clock) and before reconstruct(): the permutations are a pure function of the Case.
struct HistRun
{
  int N, start_subset, start_subiter, K;
  bool randomise;
  bool call_set_N, call_set_rand, call_set_ss, do_set_up, resume, new_objective;
};

Result
check_history(const json& c)
{
  const bool ossps = c.value("algo", 0) == 1;
  const int maxN = std::max(1, c.value("maxN", 12));
  const unsigned rseed = unsigned(c.value("rseed", 1));
  const json& ops = c["ops"];
  const char* const algo = ossps ? "OSSPSReconstruction" : "OSMAPOSLReconstruction";
  shared_ptr<RecordingObjective> obj(new RecordingObjective);
  shared_ptr<IterativeReconstruction<Target>> recon;
  shared_ptr<Target> target(obj->construct_target_ptr());
  target->fill(1.F);
  try
    {
      if (ossps)
        {
          shared_ptr<OSSPSReconstruction<Target>> r(new OSSPSReconstruction<Target>);
          r->set_objective_function_sptr(obj);
          r->set_disable_output(true);
          // the precomputed denominator has no setter; "1" = all ones (OSSPSReconstruction::set_up), nothing is written to file
          std::stringstream par("OSSPSParameters :=\nprecomputed denominator := 1\nEnd :=\n");
          if (!r->parse(par))
            return Result::reject("parsing the OSSPS parameters failed");
          recon = r;
        }
      else
        {
          recon.reset(new OSMAPOSLReconstruction<Target>);
          recon->set_objective_function_sptr(obj);
          recon->set_disable_output(true);
        }
    }
  catch (const stir_verif::AssertionFailure&)
    {
      throw;
    }
  catch (const std::exception& e)
    {
      return Result::reject(std::string("construction rejected: ") + e.what());
    }

  // what the setters were last given (the documented state of the object)
  HistRun cur{ 0, 0, 1, 1, false, false, false, false, false, false, false };
  bool first = true;
  int run_no = 0;
  for (const json& op : ops)
    {
      ++run_no;
      const long aN = op.at(1), aSS = op.at(2), aSSI = op.at(3), aExtra = op.at(4), aRand = op.at(5), flags = op.at(6);
      HistRun r = cur;
      r.call_set_N = first || !(flags & 1);
      if (r.call_set_N)
        r.N = 1 + int(aN % maxN);
      r.call_set_rand = first || !(flags & 2);
      if (r.call_set_rand)
        r.randomise = (aRand & 1) != 0;
      r.call_set_ss = first || !(flags & 4) || cur.start_subset >= r.N;
      if (r.call_set_ss)
        r.start_subset = int(aSS % r.N);
      r.resume = !first && (flags & 16);
      r.start_subiter = r.resume ? cur.K + 1 : 1 + int(aSSI % (3 * r.N + 1));
      r.K = std::max(1, r.start_subiter + int(aExtra % (4 * r.N + 2)) - 1);
      r.new_objective = !first && (flags & 32);
      r.do_set_up = first || r.call_set_N || r.new_objective || ossps || !(flags & 8);
      const std::string where = cat("run ", run_no, " of ", ops.size(), " on ONE ", algo, " object (num_subsets ", cur.N, "->", r.N, r.call_set_N ? "" : " [kept]",
                                    ", randomise ", cur.randomise, "->", r.randomise, ", start subset ", r.start_subset, ", sub-iterations ", r.start_subiter, "..",
                                    r.K, r.resume ? " [resume]" : "", r.new_objective ? ", new objective function object" : "",
                                    r.do_set_up ? ", set_up" : ", NO set_up", "): ");
      try
        {
          if (r.new_objective)
            {
              obj.reset(new RecordingObjective);
              recon->set_objective_function_sptr(obj);
            }
          if (r.call_set_N)
            recon->set_num_subsets(r.N);
          recon->set_num_subiterations(r.K);
          recon->set_start_subiteration_num(r.start_subiter);
          if (r.call_set_ss)
            recon->set_start_subset_num(r.start_subset);
          if (r.call_set_rand)
            recon->set_randomise_subset_order(r.randomise);
          if (r.do_set_up && recon->set_up(target) != Succeeded::yes)
            return Result::reject(where + "set_up failed");
        }
      catch (const stir_verif::AssertionFailure&)
        {
          throw;
        }
      catch (const std::exception& e)
        {
          // (never observed: every generated configuration satisfies the range tests of IterativeReconstruction::set_up)
          return Result::reject(where + "set_up rejected: " + e.what());
        }
      // the model agrees with what the object reports
      VF_CHECK(recon->get_num_subsets() == r.N && recon->get_start_subset_num() == r.start_subset && recon->get_start_subiteration_num() == r.start_subiter
                   && recon->get_num_subiterations() == r.K && recon->get_randomise_subset_order() == r.randomise,
               where, "the object reports num_subsets=", recon->get_num_subsets(), " start_subset=", recon->get_start_subset_num(),
               " start_subiteration=", recon->get_start_subiteration_num(), " num_subiterations=", recon->get_num_subiterations(),
               " randomise=", recon->get_randomise_subset_order());
      obj->gradient_subsets.clear();
      std::srand(rseed * 7919u + unsigned(run_no));
#if C06_SANITIZED
      // under ASan/UBSan the sanitizer is the oracle for memory errors: Release behaviour (no assert()) is executed
      stir_verif::asserts_on = false;
#endif
      Succeeded ok = Succeeded::no;
      std::string stopped;
      try
        {
          ok = recon->reconstruct(target);
        }
      catch (const std::exception& e)
        {
          // (SubsetOutOfRange of the recorder, error() of the library, a failed assert() of the library.)
          // The timers of the reconstruction object are still running; their destructors assert(!running), which would
          // terminate the process instead of reporting the case
          stir_verif::asserts_on = false;
          stopped = cat(dynamic_cast<const stir_verif::AssertionFailure*>(&e) ? "ASSERT " : "", e.what());
        }
      long complete = 0;
      const Result v = validate_schedule(obj->gradient_subsets, r.N, r.start_subset, r.start_subiter, r.K, r.randomise, where, !stopped.empty(), complete);
      if (v.failed())
        return stopped.empty() ? v : Result::fail(v.msg + " [run stopped: " + stopped + "]");
      VF_CHECK(stopped.empty(), where, "the run was stopped: ", stopped);
      stir_verif::asserts_on = true;
      VF_CHECK(ok == Succeeded::yes, where, "reconstruct() did not succeed");
      stats().count("complete iterations checked", complete);
      stats().count("sub-iterations observed", long(obj->gradient_subsets.size()));
      if (!first)
        {
          stats().count("reuse: runs on a used object checked");
          stats().cls(r.N < cur.N ? "reuse: N2 < N1" : r.N > cur.N ? "reuse: N2 > N1" : "reuse: N2 == N1");
          stats().cls(cat("reuse: randomise ", cur.randomise ? "on" : "off", " -> ", r.randomise ? "on" : "off"));
          if (r.randomise && r.N != cur.N && (r.start_subiter - 1) % r.N != 0)
            stats().cls("reuse: randomised, num_subsets changed, start inside an iteration");
          if ((r.start_subiter - 1) % r.N != 0)
            stats().cls("reuse: run starts inside an iteration");
          if (r.resume)
            stats().cls("reuse: resume at previous end + 1");
          if (!r.do_set_up)
            stats().cls("reuse: no set_up before the run");
          if (r.new_objective)
            stats().cls("reuse: new objective function object");
          if (!r.call_set_ss)
            stats().cls("reuse: start subset kept");
          if (r.K < r.start_subiter)
            stats().cls("reuse: empty run");
        }
      cur = r;
      first = false;
    }
  stats().cls(cat("history: ", algo, ", ", std::min<std::size_t>(ops.size(), 4), ops.size() > 4 ? "+" : "", " runs"));
  return Result::pass();
}

// ------------------------------------------------------------------------------------------------
// (a'/b') ONE symmetries object / ONE objective function asked in generated order
//
// Case: the fields of a configuration case + sym_alt + ops: [ [op, a, b], ... ], interpreted modulo the state:
//   op mod 6 = 0  list of (num_subsets N = 1 + a mod views, subset = b mod N) over the whole segment range of the data
//              (a/views odd: asked of the directly constructed symmetries object instead of the projector's)
//            1  the same over -pm..pm, pm = the CURRENT max_segment_num_to_process (symmetric data only)
//            2  obj.set_num_subsets(N); subsets_are_approximately_balanced() == own count for (N, pm)
//            3  obj.set_max_segment_num_to_process(pm = a mod (max segment+1)); the predicate for the CURRENT N
//            4  a second objective function object (use_subset_sensitivities=false): set_num_subsets(N),
//               set_max_segment_num_to_process(b mod ..), set_up: succeeds exactly when balanced (as the fresh-object
//               sample; non-TOF, not the trivial-symmetries stub, not in the sanitizer build, <= 24 views); its set_up
//               sets the SHARED projector pair up again, i.e. replaces the symmetries object the later queries see
//            5  obj.set_projector_pair_sptr(the other of two projector pairs: symmetry code sym / sym_alt on the same
//               geometry); the predicate for the CURRENT (N, pm) now has to follow the other symmetries object
//               (the same num_subsets is balanced for one symmetry group and unbalanced for another)
// Every repeated list of the same object must be identical to its first answer; at the end (for the projector's object:
// before its pair is set up again) the subsets never asked for are asked in DESCENDING order and the counting-partition
// oracle runs over the collected lists.
Result
check_cfgops(const json& c)
{
  Geo g;
  shared_ptr<ProjectorByBinPair> pair;
  shared_ptr<DataSymmetriesForViewSegmentNumbers> direct_sym;
  const Result br = build_config(c, g, pair, direct_sym);
  if (br.kind != Result::PASS)
    return br;
  const int code = c["sym"];
  auto sym = [&]() -> const DataSymmetriesForViewSegmentNumbers& { return *pair->get_back_projector_sptr()->get_symmetries_used(); };
  const ProjDataInfo& pdi = *g.pdi;
  const int views = pdi.get_num_views();
  const int data_smin = pdi.get_min_segment_num(), data_smax = pdi.get_max_segment_num();
  const bool symmetric_data = data_smin == -data_smax;
  const bool can_set_up = symmetric_data && code != 0 && !pdi.is_tof_data() && !C06_SANITIZED && views <= 24;

  // the second projector pair / symmetries object that op 5 switches the objective function to
  shared_ptr<ProjectorByBinPair> pairs[2] = { pair, shared_ptr<ProjectorByBinPair>() };
  shared_ptr<DataSymmetriesForViewSegmentNumbers> direct_syms[2] = { direct_sym, shared_ptr<DataSymmetriesForViewSegmentNumbers>() };
  const int alt_code = c.value("sym_alt", -1);
  if (symmetric_data && alt_code >= 0 && alt_code != code)
    if (build_pair(alt_code, g, pairs[1], direct_syms[1]).kind != Result::PASS)
      pairs[1].reset();
  int cur_pair = 0;

  PoissonLogLikelihoodWithLinearModelForMeanAndProjData<Target> obj;
  int cur_N = 1, cur_pm = data_smax;
  if (symmetric_data)
    {
      shared_ptr<ProjData> pd(new ProjDataInMemory(pet_exam_info(), g.pdi, false));
      obj.set_proj_data_sptr(pd);
      obj.set_projector_pair_sptr(pair);
      obj.set_max_segment_num_to_process(cur_pm);
      obj.set_num_subsets(cur_N);
    }
  shared_ptr<PoissonLogLikelihoodWithLinearModelForMeanAndProjData<Target>> o2;
  shared_ptr<Target> target2;

  // own count of viewgrams per subset (fresh queries of the directly constructed object) -> balanced?
  std::map<std::tuple<int, int, int>, bool> own_cache;
  std::set<std::tuple<int, int, bool>> verdicts; // (N, pm, balanced) over both symmetries objects
  auto own_balanced = [&](const int which, const int N, const int pm, bool& balanced) -> Result {
    auto it = own_cache.find(std::make_tuple(which, N, pm));
    if (it == own_cache.end())
      {
        std::vector<long> own;
        int mg = 1;
        const Result r = check_partition(pdi, *direct_syms[which], -pm, pm, N, own, mg);
        if (r.failed())
          return r;
        bool b = true;
        for (long n : own)
          b = b && n == own[0];
        it = own_cache.insert({ std::make_tuple(which, N, pm), b }).first;
      }
    balanced = it->second;
    return Result::pass();
  };
  auto predicate = [&](const std::string& what) -> Result {
    bool own = true;
    const Result r = own_balanced(cur_pair, cur_N, cur_pm, own);
    if (r.failed())
      return r;
    const bool lib = obj.subsets_are_approximately_balanced();
    VF_CHECK(lib == own, what, ": ONE objective function object, now num_subsets=", cur_N, " max_segment_num_to_process=", cur_pm, " symmetry code ",
             cur_pair ? alt_code : code, " (num_views=", views, "): subsets_are_approximately_balanced()=", lib, " but the own count says ", own);
    if (verdicts.count(std::make_tuple(cur_N, cur_pm, !own)))
      stats().count("reuse: predicate asked where the other symmetries object gave the other answer");
    verdicts.insert(std::make_tuple(cur_N, cur_pm, own));
    stats().count("reuse: predicate evaluations on a used objective function");
    stats().count(own ? "balanced" : "unbalanced");
    return Result::pass();
  };

  // lists per (object, segment range, num_subsets); an object = the projector's symmetries object (until the pair is set
  // up again: its set_up creates a new one, the lists of the old one are completed and checked at that moment) or the
  // directly constructed one.  Nothing is demanded across different objects.
  typedef std::tuple<int, int, int, int> Key; // (0 projector's | 1 direct, min segment, max segment, num_subsets)
  std::map<Key, std::vector<std::vector<ViewSegmentNumbers>>> lists;
  std::map<Key, std::vector<char>> have;
  int max_group = 1;
  auto query = [&](const Key& k, const int subset, const std::string& what) -> Result {
    const int N = std::get<3>(k);
    auto& L = lists[k];
    auto& H = have[k];
    L.resize(std::size_t(N));
    H.resize(std::size_t(N), 0);
    const std::vector<ViewSegmentNumbers> now
        = detail::find_basic_vs_nums_in_subset(pdi, std::get<0>(k) ? *direct_sym : sym(), std::get<1>(k), std::get<2>(k), subset, N);
    if (H[std::size_t(subset)])
      {
        VF_CHECK(now == L[std::size_t(subset)], what, ": the list for (num_subsets=", N, ", subset ", subset, ", segments ", std::get<1>(k), "..", std::get<2>(k),
                 ") has ", now.size(), " entries now and had ", L[std::size_t(subset)].size(), " (or other entries) when the SAME symmetries object was asked first",
                 " (num_views=", views, ")");
        stats().count("reuse: repeated list queries compared");
      }
    else
      {
        L[std::size_t(subset)] = now;
        H[std::size_t(subset)] = 1;
      }
    return Result::pass();
  };
  // completion (the subsets never asked for, DESCENDING) + the counting partition over the collected lists
  auto finalize = [&](const bool projector_only) -> Result {
    for (auto it = lists.begin(); it != lists.end();)
      {
        const Key k = it->first;
        if (projector_only && std::get<0>(k) != 0)
          {
            ++it;
            continue;
          }
        const int N = std::get<3>(k);
        for (int subset = N - 1; subset >= 0; --subset)
          if (!have[k][std::size_t(subset)])
            {
              const Result r = query(k, subset, "completion");
              if (r.failed())
                return r;
            }
        std::vector<long> own;
        const Result r = check_partition(pdi, std::get<0>(k) ? *direct_sym : sym(), std::get<1>(k), std::get<2>(k), N, own, max_group, &it->second);
        if (r.failed())
          return Result::fail("lists collected in generated order from ONE symmetries object: " + r.msg);
        stats().count("reuse: partitions assembled from out-of-order queries");
        have.erase(k);
        it = lists.erase(it);
      }
    return Result::pass();
  };

  std::set<int> distinct_N;
  int op_no = 0;
  for (const json& op : c["ops"])
    {
      ++op_no;
      const long a = op.at(1), b = op.at(2);
      int kind = int(op.at(0).get<long>() % 6);
      const int N = 1 + int(a % views);
      if (kind == 5 && !pairs[1])
        kind = 2;
      if ((kind == 1 || kind == 2 || kind == 3) && !symmetric_data)
        kind = 0; // the objective function needs segments -pm..pm to exist
      if (kind == 4 && !can_set_up)
        kind = symmetric_data ? 2 : 0;
      const std::string what = cat("op ", op_no, " of ", c["ops"].size());
      distinct_N.insert(N);
      if (kind == 0 || kind == 1)
        {
          const int direct = (a / views) % 2 == 1 ? 1 : 0;
          const Key k = kind == 0 ? Key(direct, data_smin, data_smax, N) : Key(direct, -cur_pm, cur_pm, N);
          const Result r = query(k, int(b % N), what);
          if (r.failed())
            return r;
        }
      else if (kind == 2)
        {
          obj.set_num_subsets(N);
          cur_N = N;
          const Result r = predicate(what + " set_num_subsets");
          if (r.failed())
            return r;
        }
      else if (kind == 3)
        {
          cur_pm = int(a % (data_smax + 1));
          obj.set_max_segment_num_to_process(cur_pm);
          const Result r = predicate(what + " set_max_segment_num_to_process");
          if (r.failed())
            return r;
        }
      else if (kind == 5)
        {
          cur_pair = 1 - cur_pair;
          obj.set_projector_pair_sptr(pairs[cur_pair]);
          const Result r = predicate(what + " set_projector_pair_sptr");
          if (r.failed())
            return r;
          stats().count("reuse: projector pair of the objective function exchanged");
        }
      else
        {
          const int pm2 = int(b % (data_smax + 1));
          if (!o2)
            {
              o2.reset(new PoissonLogLikelihoodWithLinearModelForMeanAndProjData<Target>);
              shared_ptr<ProjData> pd(new ProjDataInMemory(pet_exam_info(), g.pdi, true));
              o2->set_proj_data_sptr(pd);
              o2->set_projector_pair_sptr(pair);
              o2->set_use_subset_sensitivities(false);
              target2.reset(g.image->clone());
              target2->set_exam_info(*pet_exam_info());
            }
          // (the set_up below replaces the projector's symmetries object: finish with the lists of the current one)
          const Result fr = finalize(true);
          if (fr.failed())
            return fr;
          o2->set_max_segment_num_to_process(pm2);
          o2->set_num_subsets(N);
          bool threw = false;
          Succeeded ok = Succeeded::no;
          std::string msg;
          try
            {
              ok = o2->set_up(target2);
            }
          catch (const stir_verif::AssertionFailure&)
            {
              throw;
            }
          catch (const std::exception& e)
            {
              threw = true;
              msg = e.what();
            }
          bool own = true;
          const Result r = own_balanced(0, N, pm2, own);
          if (r.failed())
            return r;
          // PoissonLogLikelihoodWithLinearModelForMean::set_up: "if (!subsets_are_approximately_balanced() &&
          // !get_use_subset_sensitivities()) error(...)"
          VF_CHECK((ok == Succeeded::yes && !threw) == own, what, ": set_up number ", stats().counters["reuse: set_ups on a used objective function"] + 1,
                   " of ONE objective function, num_views=", views, " num_subsets=", N, " max_segment_num_to_process=", pm2,
                   " use_subset_sensitivities=false: set_up succeeded=", ok == Succeeded::yes && !threw, " but own balancedness=", own, " (", msg.substr(0, 120), ")");
          stats().count("reuse: set_ups on a used objective function");
        }
    }
  const Result fr = finalize(false);
  if (fr.failed())
    return fr;
  stats().cls("cfgops: one symmetries object / objective function, generated order");
  stats().cls(cat("cfgops: sym code ", code));
  if (max_group > 1)
    stats().cls("cfgops: effective symmetry group size > 1");
  if (pdi.is_tof_data())
    stats().cls("cfgops: TOF");
  if (o2)
    stats().cls("cfgops: with set_up of a used objective function");
  if (distinct_N.size() >= 3)
    stats().cls("cfgops: >= 3 distinct num_subsets");
  return Result::pass();
}

Result
check(const json& c)
{
  vg::quiet();
  stir_verif::asserts_on = true; // (a failing schedule case leaves them off while its objects are destroyed)
  if (c["kind"] == "sched")
    return check_schedule(c);
  if (c["kind"] == "hist")
    return check_history(c);
  if (c["kind"] == "cfgops")
    return check_cfgops(c);
  if (c["kind"] == "opcount")
    return check_opcount(c);
  if (c["kind"] == "opreal")
    return check_opreal(c);
  if (c["kind"] == "fbp")
    return check_fbp(c);
  if (c["kind"] == "opobj")
    return check_opobj(c);
  return check_config(c);
}

// ------------------------------------------------------------------------------------------------
// the enumerated space (built once)
json
cfg_case(int views, int m, int segs, int proc_max, int tof, int sym)
{
  json c;
  c["kind"] = "cfg";
  c["views"] = views;
  c["m"] = m;
  c["segs"] = segs;
  c["proc_max"] = proc_max;
  c["tof"] = tof;
  c["sym"] = sym;
  return c;
}

json
hist_run(int N, int start_subset, int start_subiter, int K, bool randomise, int flags)
{
  // (decoded by check_history: N = 1 + aN mod maxN, start = 1 + aSSI mod (3N+1), K = max(1, start + aExtra mod (4N+2) - 1))
  return json::array({ "run", N - 1, start_subset, start_subiter - 1, K - start_subiter + 1, randomise ? 1 : 0, flags });
}

json
hist_case(int algo, int maxN, int rseed, std::vector<json> runs)
{
  json c;
  c["kind"] = "hist";
  c["algo"] = algo;
  c["maxN"] = maxN;
  c["rseed"] = rseed;
  c["ops"] = json(runs);
  return c;
}

// (c') bounded-exhaustive block of object-reuse histories (both flavours):
//  2 runs: all (N1, N2) in 1..M x randomise (off/on)^2 x run 1 = sub-iterations 1..K1, K1 in {N1 (a whole iteration),
//          N1 + ceil(N1/2) (ends inside one)} x run 2 starting at every position of its first iteration and at the first
//          of the second (start 1..N2+1), running to the end of that iteration and through one more; start subset
//          N1-1 in run 1, kept in run 2 where it is still valid; 2 rand() seeds when a run is randomised;
//          M = 6 (OSMAPOSL) / 4 (OSSPS), thorough: 9 / 6
//  3 runs: randomised(N1) -> sequential(N2) -> randomised(N3), all N in 1..4 (a permutation cached two runs ago),
//          run 3 starting at every position of its first iteration
//  2 runs without set_up in between: N kept, randomise switched on/off, resume at the previous end + 1
void
add_history_space(std::vector<json>& out, int tier)
{
  for (int algo = 0; algo <= 1; ++algo)
    {
      const int M = tier ? (algo ? 6 : 9) : (algo ? 4 : 6);
      for (int N1 = 1; N1 <= M; ++N1)
        for (int N2 = 1; N2 <= M; ++N2)
          for (int r1 = 0; r1 <= 1; ++r1)
            for (int r2 = 0; r2 <= 1; ++r2)
              for (int K1 : { N1, N1 + (N1 + 1) / 2 })
                for (int start2 = 1; start2 <= N2 + 1; ++start2)
                  for (int rseed = 1; rseed <= ((r1 || r2) ? 2 : 1); ++rseed)
                    {
                      if (K1 != N1 && N1 == 1 && start2 > 1)
                        continue; // (N1 = 1: both lengths end on an iteration boundary; keep one representative)
                      const int K2 = ((start2 - 1) / N2 + 2) * N2;
                      out.push_back(hist_case(algo, M, rseed,
                                              { hist_run(N1, N1 - 1, 1, K1, r1 == 1, 0), hist_run(N2, std::min(N1, N2) - 1, start2, K2, r2 == 1, 4) }));
                    }
      const int M3 = algo ? 3 : 4;
      for (int N1 = 1; N1 <= M3; ++N1)
        for (int N2 = 1; N2 <= M3; ++N2)
          for (int N3 = 1; N3 <= M3; ++N3)
            for (int start3 = 1; start3 <= N3; ++start3)
              for (int rseed = 1; rseed <= 2; ++rseed)
                out.push_back(hist_case(algo, M3, rseed,
                                        { hist_run(N1, 0, 1, N1 + (N1 + 1) / 2, true, 0), hist_run(N2, 0, 2, 2 * N2, false, 0),
                                          hist_run(N3, N3 - 1, start3, ((start3 - 1) / N3 + 2) * N3, true, 0) }));
    }
  // OSMAPOSL without set_up between the runs (flags 1|8: N kept, no set_up; 16: resume)
  for (int N = 1; N <= 6; ++N)
    for (int r1 = 0; r1 <= 1; ++r1)
      for (int r2 = 0; r2 <= 1; ++r2)
        for (int K1 : { N, N + (N + 1) / 2 })
          for (int resume = 0; resume <= 1; ++resume)
            for (int start2 = 1; start2 <= (resume ? 1 : N + 1); ++start2)
              {
                const int s2 = resume ? K1 + 1 : start2;
                out.push_back(hist_case(0, 6, 1,
                                        { hist_run(N, 0, 1, K1, r1 == 1, 0), hist_run(N, N - 1, s2, s2 + 2 * N - 1, r2 == 1, 1 | 8 | (resume ? 16 : 0)) }));
              }
}

// (a'/b') deterministic block of generated-order cases: num_subsets DESCENDING from num_views to 1 and up again on one
// objective function / symmetries object, the projector pair exchanged and exchanged back at every step (predicate
// asked each time), lists asked for the last subset first, max_segment_num_to_process lowered half-way, a used second
// objective function set up for every num_subsets (descending)
void
add_cfgops_space(std::vector<json>& out)
{
  struct SymPair
  {
    int sym, alt;
  };
  for (int views : { 3, 4, 6, 8, 12, 16, 24 })
    for (const SymPair sp : { SymPair{ 0, 7 }, SymPair{ 7, 0 }, SymPair{ 3, 5 }, SymPair{ 2, 7 }, SymPair{ 5, 2 } })
      for (int segs = 0; segs <= 1; ++segs)
        {
          json c = cfg_case(views, 1, segs, -1, 1, sp.sym);
          c["kind"] = "cfgops";
          c["sym_alt"] = sp.alt;
          json ops = json::array();
          for (int N = views; N >= 1; --N)
            {
              ops.push_back(json::array({ 2, N - 1, 0 }));
              ops.push_back(json::array({ 5, 0, 0 }));
              ops.push_back(json::array({ 0, N - 1, N - 1 }));
              ops.push_back(json::array({ 1, N - 1 + views, 0 }));
              ops.push_back(json::array({ 5, 0, 0 }));
              ops.push_back(json::array({ 4, N - 1, segs }));
              if (N == views / 2)
                ops.push_back(json::array({ 3, 0, 0 }));
            }
          for (int N = 1; N <= views; ++N)
            {
              ops.push_back(json::array({ 2, N - 1, 0 }));
              ops.push_back(json::array({ 0, N - 1, N - 1 }));
              ops.push_back(json::array({ 4, N - 1, 0 }));
            }
          c["ops"] = ops;
          out.push_back(c);
        }
}

// (d)-(g) bounded-exhaustive block of the operational clauses (see c06_operational.h).  "Ns" absent = ALL num_subsets
// 1..num_views; else a list of (num_subsets - 1).  The sanitizer build (~20x slower) runs a reduced range of view counts and
// not the objective function (its set_up reads a never-initialised member, see above).
json
op_case(const char* kind, int views, int segs, int tof, int sym)
{
  json c = cfg_case(views, 1, segs, -1, tof, sym);
  c["kind"] = kind;
  return c;
}

json
sampled_subset_counts(int views)
{ // num_subsets 1,2,3,4, around a quarter and a half of the views, views-1, views (stored as num_subsets - 1)
  std::set<int> Ns = { 1, 2, 3, 4, views / 4, views / 4 + 1, views / 2 - 1, views / 2, views / 2 + 1, views - 1, views };
  json a = json::array();
  for (int N : Ns)
    if (N >= 1 && N <= views)
      a.push_back(N - 1);
  return a;
}

void
add_operational_space(std::vector<json>& out, int tier)
{
  // ---- (d) counting projectors: all entry points, all num_subsets
  const int max_cnt = C06_SANITIZED ? 6 : (tier ? 24 : 12);
  for (int views = 2; views <= max_cnt; ++views)
    {
      for (int segs = 0; segs <= 2; ++segs)
        {
          for (int sym = 0; sym <= 7; ++sym)
            out.push_back(op_case("opcount", views, segs, 1, sym));
          for (int sym : { 0, 7 })
            out.push_back(op_case("opcount", views, segs, 3, sym));
        }
      json c = op_case("opcount", views, 1, 1, 7);
      c["tilt"] = true;
      out.push_back(c);
      c = op_case("opcount", views, 1, 1, 6);
      c["nonsquare"] = true;
      out.push_back(c);
      for (int step : { 2, 3 })
        if (views >= step)
          {
            c = op_case("opcount", views, 1, 1, 7);
            c["subset_by_view"] = step;
            c["subset_by_view_offset"] = views % step;
            out.push_back(c);
          }
      for (int sym : { 0, 3, 5 })
        { // asymmetric segment range: only without swap-segment (assertion in find_basic_vs_nums_in_subset)
          c = op_case("opcount", views, 2, 1, sym);
          c["seg_lo"] = -1;
          c["seg_hi"] = 2;
          out.push_back(c);
          if (sym != 3)
            { // (audit) mirrored: more negative than positive segments
              c["seg_lo"] = -2;
              c["seg_hi"] = 1;
              out.push_back(c);
            }
        }
      if (views <= 6)
        out.push_back(op_case("opcount", views, 1, 5, 7)); // (audit) 5 TOF bins
    }
  // larger view counts with a sample of num_subsets
  if (!C06_SANITIZED)
    for (int views : { 16, 24, 32, 36, 48, 64, 90, 96 })
      for (int sym : { 0, 2, 3, 5, 7 })
        for (int tof : { 1, 3 })
          {
            if (tof == 3 && sym != 0 && sym != 7)
              continue;
            json c = op_case("opcount", views, 1, tof, sym);
            c["Ns"] = sampled_subset_counts(views);
            c["rot"] = views / 3;
            out.push_back(c);
          }
  // ---- (e) the ray-tracing projector pair with indicator inputs
  const int max_real = C06_SANITIZED ? 4 : (tier ? 12 : 8);
  for (int views = 2; views <= max_real; ++views)
    for (int segs = 0; segs <= 1; ++segs)
      {
        for (int sym = 1; sym <= 7; ++sym)
          out.push_back(op_case("opreal", views, segs, 1, sym));
        if (views <= 6)
          for (int sym : { 1, 7 })
            out.push_back(op_case("opreal", views, segs, 3, sym));
      }
  if (!C06_SANITIZED)
    for (int views : { 12, 16, 24 })
      for (int sym : { 3, 5, 7 })
        {
          json c = op_case("opreal", views, 1, 1, sym);
          c["Ns"] = sampled_subset_counts(views);
          c["max_indicators"] = 16;
          out.push_back(c);
        }
  // ---- (f) FBP2DReconstruction with the counting back projector
  std::vector<int> fbp_views;
  for (int v = 2; v <= (C06_SANITIZED ? 4 : 16); ++v)
    fbp_views.push_back(v);
  if (C06_SANITIZED)
    for (int v : { 6, 8 })
      fbp_views.push_back(v);
  if (!C06_SANITIZED)
    for (int v : { 20, 24, 32, 48, 64, 96 })
      fbp_views.push_back(v);
  for (int views : fbp_views)
    for (int segs = 0; segs <= (C06_SANITIZED ? 1 : views <= 16 ? 2 : 1); ++segs)
      for (int sym : { 0, 2, 3, 5, 7 })
        for (int variant = 0; variant < 3; ++variant)
          {
            if (C06_SANITIZED && (sym == 2 || sym == 5))
              continue; // (each reconstruction reads its data from a file: ~0.1 s in the sanitizer build) // 0: default num_segments_to_combine (-1: SSRB of 3 segments when there are any), 1: no SSRB, 2: default, arc-corrected data
            if (variant == 1 && segs == 0)
              continue;
            json c = op_case("fbp", views, segs, 1, sym);
            c["num_segments_to_combine"] = variant == 1 ? 1 : -1;
            c["arccorr"] = variant == 2;
            out.push_back(c);
          }
  // ---- (g) the objective function on the counting projector pair
  if (!C06_SANITIZED)
    for (int views = 2; views <= (tier ? 16 : 10); ++views)
      for (int segs = 0; segs <= 2; ++segs)
        for (int sym : { 0, 2, 3, 5, 7 })
          for (int tof : { 1, 3 })
            {
              if (tof == 3 && sym != 0 && sym != 7)
                continue;
              out.push_back(op_case("opobj", views, segs, tof, sym));
              if (segs == 2)
                {
                  json c = op_case("opobj", views, segs, tof, sym);
                  c["proc_max"] = 1;
                  out.push_back(c);
                }
            }
}

const std::vector<json>&
space(int tier)
{
  static std::vector<json> v[2];
  std::vector<json>& out = v[tier ? 1 : 0];
  if (!out.empty())
    return out;
  // the ASan/UBSan build (clang -O1, ~20x slower here) runs the same schedules but a reduced range of view counts
  const int max_views = C06_SANITIZED ? 32 : 96;
  // (a)/(b): views x mashing x segment ranges x TOF x symmetry objects
  for (int views = 1; views <= max_views; ++views)
    for (int m = 1; m <= 2; ++m)
      {
        if (views * m < 2)
          continue; // a ring needs at least 4 detectors: 1 view exists only with mashing
        struct SegCfg
        {
          int segs, proc_max;
        };
        for (const SegCfg sc : { SegCfg{ 0, -1 }, SegCfg{ 1, -1 }, SegCfg{ 2, -1 }, SegCfg{ 2, 1 } })
          {
            for (int sym : { 0, 2, 3, 5, 7 })
              out.push_back(cfg_case(views, m, sc.segs, sc.proc_max, 1, sym));
            // TOF data: the constructor switches every view/segment symmetry off; two objects suffice
            for (int sym : { 0, 7 })
              out.push_back(cfg_case(views, m, sc.segs, sc.proc_max, 3, sym));
          }
      }
  // 1 view without mashing does not exist (2 detectors per ring); use mashing 4 instead
  for (int sym : { 0, 2, 3, 5, 7 })
    out.push_back(cfg_case(1, 4, 1, -1, 1, sym));
  // switches that silently reduce the symmetry group, ProjDataInfoSubsetByView, asymmetric segment ranges
  for (int views = 2; views <= max_views; ++views)
    {
      json c = cfg_case(views, 1, 1, -1, 1, 7);
      c["tilt"] = true; // intrinsic tilt: view offset -> 90/180 symmetries switched off
      out.push_back(c);
      c = cfg_case(views, 1, 1, -1, 1, 6);
      c["nonsquare"] = true; // x and y voxel sizes differ -> 90 degrees switched off
      out.push_back(c);
      for (int step : { 2, 3 })
        if (views >= step)
          {
            c = cfg_case(views, 1, 1, -1, 1, 7);
            c["subset_by_view"] = step;
            c["subset_by_view_offset"] = views % step;
            out.push_back(c);
          }
      // asymmetric segment ranges; with swap-segment the related segment would not exist:
      // find_basic_vs_nums_in_subset.cxx asserts that related segments stay inside [min,max] -> only without it
      for (int sym : { 0, 3, 5 })
        {
          c = cfg_case(views, 1, 2, -1, 1, sym);
          c["seg_lo"] = -1;
          c["seg_hi"] = 2;
          out.push_back(c);
        }
      c = cfg_case(views, 1, 2, -1, 1, 1);
      c["seg_lo"] = 0;
      c["seg_hi"] = 1;
      out.push_back(c);
      // (audit) the MIRRORED asymmetric ranges: more negative than positive segments
      for (int sym : { 0, 3, 5 })
        {
          c = cfg_case(views, 1, 2, -1, 1, sym);
          c["seg_lo"] = -2;
          c["seg_hi"] = 1;
          out.push_back(c);
        }
      c = cfg_case(views, 1, 2, -1, 1, 1);
      c["seg_lo"] = -1;
      c["seg_hi"] = 0;
      out.push_back(c);
      // (audit) 5 TOF bins (the enumeration above has 1 and 3)
      if (views <= 24)
        for (int sym : { 0, 7 })
          out.push_back(cfg_case(views, 1, 1, -1, 5, sym));
      // (not in the sanitizer build: set_up of the objective function reads the never-initialised member
      //  distributed_cache_enabled, which UBSan reports -- a C05 matter, see work/notes/C05_findings.md)
      if (views <= 16 && !C06_SANITIZED)
        for (int sym : { 2, 3, 6, 7 })
          {
            c = cfg_case(views, 1, 1, -1, 1, sym);
            c["check_set_up"] = true;
            out.push_back(c);
          }
    }
  // (c) schedules
  for (int N = 1; N <= 12; ++N)
    for (int start_subset = 0; start_subset < N; ++start_subset)
      for (int start_subiter = 1; start_subiter <= 2 * N + 1; ++start_subiter)
        for (int randomise = 0; randomise <= 1; ++randomise)
          for (int K : { 3 * N, 2 * N + (N + 1) / 2 })
            {
              if (K < start_subiter || (K != 3 * N && N == 1))
                continue;
              json c;
              c["kind"] = "sched";
              c["N"] = N;
              c["start_subset"] = start_subset;
              c["start_subiter"] = start_subiter;
              c["randomise"] = randomise == 1;
              c["num_subiters"] = K;
              out.push_back(c);
            }
  // (c) the same through the parameter-file keys and the parameterless reconstruct()
  for (int N = 1; N <= (tier ? 8 : 6); ++N)
    for (int start_subset = 0; start_subset < N; ++start_subset)
      for (int start_subiter = 1; start_subiter <= 2 * N + 1; ++start_subiter)
        for (int randomise = 0; randomise <= 1; ++randomise)
          {
            json c;
            c["kind"] = "sched";
            c["via_parse"] = true;
            c["N"] = N;
            c["start_subset"] = start_subset;
            c["start_subiter"] = start_subiter;
            c["randomise"] = randomise == 1;
            c["num_subiters"] = 3 * N;
            out.push_back(c);
          }
  add_history_space(out, tier);
  add_cfgops_space(out);
  add_operational_space(out, tier);
  return out;
}

bool
enumerate(uint64_t idx, int tier, json& c)
{
  const std::vector<json>& s = space(tier);
  if (idx >= s.size())
    return false;
  c = s[std::size_t(idx)];
  return true;
}

// Known finding (audit of the generator domains): data whose segment range contains a NEGATIVE segment -s without its positive
// counterpart +s (e.g. reduce_segment_range(-1, 0)) are accepted by ProjDataInfo, by the symmetries constructor and by set_up
// of the ray-tracing projector pair, but DataSymmetriesForBins_PET_CartesianGrid::find_sym_op_general_bin / find_sym_op_bin0
// call find_transform_z(abs(segment_num), ...), which indexes the per-segment tables deltas / num_planes_per_axial_pos /
// axial_pos_to_z_offset (allocated min_segment..max_segment of the DATA) at +s: out-of-range read (assertion in
// VectorWithOffset::operator[] in debug builds).  Seen with every symmetry switch off as well.
const char* const SIG_NEGSEG = "C06:raytracing-pair:negative-segment-without-positive-counterpart:table-index";

// generated cases beyond the enumerated bounds (larger view counts, more subsets, longer runs)
json
gen(Src& s, int size)
{
  json c;
  const int which = int(s.range(0, 11));
  if (which >= 9)
    { // operational clauses beyond the enumerated bounds: more views, a generated list of num_subsets
      const int kind = int(s.range(0, C06_SANITIZED ? 5 : 7)); // 0-2 opcount, 3 opreal, 4-5 fbp, 6-7 opobj
      const bool real = kind == 3, fbp = kind == 4 || kind == 5, obj = kind >= 6;
      const int views = int(s.range(2, C06_SANITIZED ? (real ? 6 : 12) : (real ? 16 : obj ? 32 : 40 + size)));
      const int segs = int(s.range(0, real ? 1 : 2));
      int sym = int(s.range(real ? 1 : 0, 7));
      const int tof = s.chance(1, 4) ? (s.chance(1, 3) ? 5 : 3) : 1; // (fbp + TOF: known finding, excluded by known_signature)
      c = cfg_case(views, int(s.pick(std::vector<int>{ 1, 1, 2 })), segs, -1, tof, sym);
      c["kind"] = real ? "opreal" : fbp ? "fbp" : obj ? "opobj" : "opcount";
      if (fbp)
        {
          c["num_segments_to_combine"] = int(s.pick(std::vector<int>{ -1, -1, 1, 3 }));
          if (c["num_segments_to_combine"].get<int>() == 3 && segs == 0)
            c["num_segments_to_combine"] = -1; // (SSRB of 3 segments needs them)
          c["arccorr"] = s.chance(1, 3);
          c["image_xy"] = int(s.pick(std::vector<int>{ 3, 3, 4, 5 }));
          if (s.chance(1, 8))
            c["tilt"] = true;
          return c;
        }
      json Ns = json::array();
      const int n = int(s.range(1, real ? 3 : 6));
      for (int k = 0; k < n; ++k)
        Ns.push_back(int(s.chance(1, 2) ? s.range(0, 5) : s.range(0, views - 1)));
      c["Ns"] = Ns;
      c["rot"] = int(s.range(0, 999));
      if (real)
        c["max_indicators"] = 12;
      if (obj && segs > 0 && s.chance(1, 3))
        c["proc_max"] = int(s.range(0, segs));
      if (s.chance(1, 8))
        c["tilt"] = true;
      if (s.chance(1, 8))
        c["nonsquare"] = true;
      if (!obj && s.chance(1, 8))
        {
          const int step = int(s.range(2, 4));
          c["subset_by_view"] = step;
          c["subset_by_view_offset"] = int(s.range(0, std::min(step, views) - 1)); // (build_geo: first view = offset mod step, must exist)
        }
      const bool swap_seg = sym == 2 || sym == 4 || sym >= 6;
      if (!obj && segs > 0 && !swap_seg && s.chance(1, 8))
        { // asymmetric range (only without swap-segment: assertion in find_basic_vs_nums_in_subset)
          c["seg_lo"] = -int(s.range(0, segs - 1));
          c["seg_hi"] = segs;
          const bool mirror = s.coin();
          // known finding C06:raytracing-pair:negative-segment-without-positive-counterpart (see known_signature): the real
          // ray-tracing pair is not given such data; the counting projectors and the configuration cases are
          const char* e = std::getenv("VERIF_NO_EXCLUDE");
          if (mirror && real && !(e && *e))
            {
              stats().excluded_known++;
              stats().count(std::string("excluded:") + SIG_NEGSEG);
            }
          else if (mirror)
            { // mirrored: more negative than positive segments
              c["seg_hi"] = -c["seg_lo"].get<int>();
              c["seg_lo"] = -segs;
            }
        }
      return c;
    }
  if (which <= 2)
    { // object-reuse history: 2-4 runs on one reconstruction object
      const int algo = s.chance(1, 4) ? 1 : 0;
      const int maxN = int(s.pick(std::vector<int>{ 2, 3, 4, 6, 12, 13 + size / 4 }));
      std::vector<json> runs;
      const int n = int(s.range(2, 4));
      for (int k = 0; k < n; ++k)
        {
          int flags = 0;
          flags |= s.chance(1, 4) ? 1 : 0;  // num_subsets kept
          flags |= s.chance(1, 4) ? 2 : 0;  // randomise kept
          flags |= s.chance(1, 2) ? 4 : 0;  // start subset kept where still valid
          flags |= s.chance(1, 2) ? 8 : 0;  // no set_up where none is required
          flags |= s.chance(1, 3) ? 16 : 0; // resume
          flags |= s.chance(1, 6) ? 32 : 0; // new objective function object
          runs.push_back(json::array({ "run", int(s.range(0, 999)), int(s.range(0, 999)), int(s.range(0, 999)), int(s.range(0, 999)),
                                       s.chance(2, 3) ? 1 : 0, flags }));
        }
      return hist_case(algo, maxN, int(s.range(1, 1000)), runs);
    }
  if (which == 3 || which == 4)
    { // one symmetries object / objective function asked in generated order
      const int views = int(s.range(2, C06_SANITIZED ? 24 : 40 + size));
      c = cfg_case(views, int(s.pick(std::vector<int>{ 1, 1, 2 })), int(s.range(0, 2)), -1, s.chance(1, 4) ? (s.chance(1, 3) ? 5 : 3) : 1, int(s.range(0, 7)));
      c["kind"] = "cfgops";
      c["sym_alt"] = int(s.range(0, 7));
      if (s.chance(1, 8))
        c["tilt"] = true;
      if (s.chance(1, 8))
        c["nonsquare"] = true;
      if (s.chance(1, 8))
        {
          c["subset_by_view"] = int(s.range(2, 3));
          c["subset_by_view_offset"] = int(s.range(0, 2));
        }
      const int sym = c["sym"], segs = c["segs"];
      const bool swap_seg = sym == 2 || sym == 4 || sym >= 6;
      if (segs > 0 && !swap_seg && s.chance(1, 8))
        { // asymmetric range (only without swap-segment: assertion in find_basic_vs_nums_in_subset)
          c["seg_lo"] = -int(s.range(0, segs - 1));
          c["seg_hi"] = segs;
          if (s.coin())
            { // mirrored: more negative than positive segments
              c["seg_hi"] = -c["seg_lo"].get<int>();
              c["seg_lo"] = -segs;
            }
        }
      json ops = json::array();
      const int n = int(s.range(4, 24));
      for (int k = 0; k < n; ++k)
        // (small arguments half of the time: the same few num_subsets come back, lists are asked for repeatedly)
        ops.push_back(json::array({ int(s.range(0, 5)), int(s.chance(1, 2) ? s.range(0, 5) : s.range(0, 999)), int(s.range(0, 999)) }));
      c["ops"] = ops;
      return c;
    }
  if (which <= 6)
    {
      c["kind"] = "sched";
      const int N = int(s.range(1, 13 + size / 4));
      c["N"] = N;
      c["start_subset"] = int(s.range(0, N - 1));
      c["start_subiter"] = int(s.range(1, 3 * N + 1));
      c["randomise"] = s.coin();
      c["num_subiters"] = c["start_subiter"].get<int>() + int(s.range(0, 4 * N));
      if (s.chance(1, 3))
        c["via_parse"] = true;
      return c;
    }
  const int views = int(s.range(2, C06_SANITIZED ? 40 : 97 + size * 2)); // (the sanitizer build is ~20x slower)
  c = cfg_case(views, int(s.pick(std::vector<int>{ 1, 1, 2, 3 })), int(s.range(0, 3)), -1, s.chance(1, 4) ? (s.chance(1, 3) ? 5 : 3) : 1, int(s.range(0, 7)));
  const int segs = c["segs"];
  if (segs > 0 && s.chance(1, 3))
    c["proc_max"] = int(s.range(0, segs));
  if (s.chance(1, 8))
    c["tilt"] = true;
  if (s.chance(1, 8))
    c["nonsquare"] = true;
  if (s.chance(1, 8))
    {
      c["subset_by_view"] = int(s.range(2, 5));
      c["subset_by_view_offset"] = int(s.range(0, 4));
    }
  const int sym = c["sym"];
  const bool swap_seg = sym == 2 || sym == 4 || sym >= 6;
  if (segs > 0 && !swap_seg && c["proc_max"].get<int>() < 0 && s.chance(1, 6))
    { // asymmetric range (only without swap-segment, see above)
      c["seg_lo"] = -int(s.range(0, segs));
      c["seg_hi"] = segs;
      if (s.coin())
        { // mirrored: more negative than positive segments
          c["seg_hi"] = -c["seg_lo"].get<int>();
          c["seg_lo"] = -segs;
        }
    }
  // a random selection of subset numbers keeps big view counts cheap
  if (views > 120)
    c["num_subsets"] = int(s.range(1, views));
  return c;
}

bool
nontrivial(const json& c)
{
  if (c["kind"] == "sched")
    return c["randomise"].get<bool>() || c["start_subset"].get<int>() != 0 || c["start_subiter"].get<int>() != 1;
  // a history is non-trivial when the object is really used again; generated-order queries when something can repeat
  if (c["kind"] == "hist")
    return c["ops"].size() >= 2;
  if (c["kind"] == "cfgops")
    return c["ops"].size() >= 3 && c["views"].get<int>() >= 3;
  // (operational clauses: as the configuration cases; with a list of num_subsets one of them has to be > 1;
  //  FBP2D has no subsets: a symmetry group > 1 or >= 3 views)
  if (c.contains("Ns") && c["kind"] != "fbp")
    {
      bool any = false;
      const int views = c["views"];
      for (const json& n : c["Ns"])
        any = any || 1 + int((n.get<long>() % views + views) % views) > 1;
      return any && (views >= 3 || c["sym"].get<int>() >= 2);
    }
  // all num_subsets 1..views are run inside a case: some do not divide num_views as soon as views >= 3
  return c["views"].get<int>() >= 3 || c["sym"].get<int>() >= 2;
}

// known findings (see known_findings.json): the class is excluded by signature unless VERIF_NO_EXCLUDE is set
std::string
known_signature(const json& c)
{
  const char* e = std::getenv("VERIF_NO_EXCLUDE");
  if (e && *e)
    return "";
  // FBP2DReconstruction accepts TOF data and reconstructs only TOF bin 0 of every view
  if (c["kind"] == "fbp" && c.value("tof", 1) > 1)
    return "C06:FBP2D:TOF-data:only-TOF-bin-0-processed";
  // the real ray-tracing pair on data with a negative segment whose positive counterpart is missing
  if (c["kind"] == "opreal" && c.contains("seg_lo") && c.contains("seg_hi") && -c["seg_lo"].get<int>() > c["seg_hi"].get<int>())
    return SIG_NEGSEG;
  return "";
}

} // namespace

const Property&
the_property()
{
  static Property p;
  p.id = "C06";
  p.gen = gen;
  p.check = check;
  p.nontrivial = nontrivial;
  p.enumerate = enumerate;
  p.known_signature = known_signature;
  p.shrink_lists = { "ops" };
  return p;
}

// C06 — ordered subsets partition the data; every subset is used once per iteration.
//
// Bounded-EXHAUSTIVE enumeration (Property::enumerate) of
//   (a)/(b) geometry/symmetry configurations: num_views 1..96 x view mashing m in {1,2} x segment ranges
//           x TOF bins {1,3} x the symmetry objects the projectors really use; inside one Case ALL
//           num_subsets 1..num_views and all subsets are checked (counting-partition oracle, balancedness);
//   (c)     subset schedules: all (num_subsets <= 12, start_subset, start_subiteration <= 2N+1, randomise,
//           two lengths) run through OSMAPOSLReconstruction with a harness-side recording objective function.
// No projector is ever run for (a)/(b) except in the small "set_up agrees with the predicate" sample.
#include "explicit_p.h"
#include "stir/ProjDataInfoSubsetByView.h"
#include "stir/ProjDataInMemory.h"
#include "stir/ExamData.h"
#include "stir/ExamInfo.h"
#include "stir/ViewSegmentNumbers.h"
#include "stir/DataSymmetriesForViewSegmentNumbers.h"
#include "stir/recon_buildblock/TrivialDataSymmetriesForBins.h"
#include "stir/recon_buildblock/DataSymmetriesForBins_PET_CartesianGrid.h"
#include "stir/recon_buildblock/find_basic_vs_nums_in_subsets.h"
#include "stir/recon_buildblock/ProjectorByBinPairUsingProjMatrixByBin.h"
#include "stir/recon_buildblock/ProjectorByBinPairUsingSeparateProjectors.h"
#include "stir/recon_buildblock/BackProjectorByBin.h"
#include "stir/recon_buildblock/PoissonLogLikelihoodWithLinearModelForMeanAndProjData.h"
#include "stir/recon_buildblock/PoissonLogLikelihoodWithLinearModelForMean.h"
#include "stir/OSMAPOSL/OSMAPOSLReconstruction.h"
#include <map>
#include <set>

#ifndef __has_feature
#  define __has_feature(x) 0
#endif
#if defined(__SANITIZE_ADDRESS__) || __has_feature(address_sanitizer)
#  define C06_SANITIZED 1
#else
#  define C06_SANITIZED 0
#endif

using namespace vf;
using namespace stir;

namespace {

typedef DiscretisedDensity<3, float> Target;

// ------------------------------------------------------------------------------------------------
// symmetry codes of a configuration Case
//   0 TrivialDataSymmetriesForBins
//   1 DataSymmetriesForBins_PET_CartesianGrid, everything off
//   2 swap-segment only      3 180 degrees only      4 180 + swap-segment
//   5 90 (+180, implied by the constructor)          6 90 + 180 + swap-segment
//   7 all on (90, 180, swap-segment, swap-s, shift-z: the projectors' default)
struct SymSwitches
{
  bool s90, s180, swap_seg, swap_s, shift_z;
};
SymSwitches
switches(int code)
{
  switch (code)
    {
    case 1:
      return { false, false, false, false, false };
    case 2:
      return { false, false, true, false, false };
    case 3:
      return { false, true, false, false, false };
    case 4:
      return { false, true, true, false, false };
    case 5:
      return { true, true, false, false, false };
    case 6:
      return { true, true, true, false, false };
    default:
      return { true, true, true, true, true };
    }
}

// a back projector that only reports TrivialDataSymmetriesForBins (what the SPECT/GPU projectors of the
// library do); used to put that symmetry object behind PoissonLogLikelihoodWithLinearModelForMeanAndProjData
class TrivialSymBackProjector : public BackProjectorByBin
{
public:
  shared_ptr<DataSymmetriesForViewSegmentNumbers> sym;
  void set_up(const shared_ptr<const ProjDataInfo>& p, const shared_ptr<const DiscretisedDensity<3, float>>& d) override
  {
    BackProjectorByBin::set_up(p, d);
    sym.reset(new TrivialDataSymmetriesForBins(p));
  }
  const DataSymmetriesForViewSegmentNumbers* get_symmetries_used() const override { return sym.get(); }
  BackProjectorByBin* clone() const override { return new TrivialSymBackProjector(*this); }
  std::string get_registered_name() const override { return "verif trivial-symmetries back projector"; }
};

json
scanner_spec(int ndet, int rings, bool tilt, bool tof)
{
  json sc;
  sc["type"] = -1;
  sc["ndet"] = ndet;
  sc["rings"] = rings;
  sc["tr_cryst_per_block"] = 1;
  sc["tr_blocks_per_bucket"] = 1;
  sc["ax_cryst_per_block"] = 1;
  sc["ax_blocks_per_bucket"] = 1;
  sc["singles_units"] = 0;
  sc["max_tang"] = std::min(3, ndet - 1);
  sc["radius"] = 300.;
  sc["doi"] = 0.;
  sc["ring_spacing"] = 4.;
  sc["bin_size"] = 2.;
  sc["tilt"] = tilt ? 0.1 : 0.;
  sc["tof_poss"] = 0;
  sc["geometry"] = "Cylindrical";
  if (tof)
    { // TOF sizes consistent with the FOV (Scanner::check_consistency)
      const double fov_d = 2. * vg::make_scanner(sc)->get_max_FOV_radius();
      sc["tof_poss"] = 3;
      sc["tof_size"] = fov_d / 0.149896229 / 3;
      sc["tof_res"] = fov_d / 0.149896229 / 4;
    }
  return sc;
}

struct Geo
{
  shared_ptr<Scanner> sc;
  shared_ptr<ProjDataInfo> full_pdi; // cylindrical
  shared_ptr<ProjDataInfo> pdi;      // what the symmetries/projectors see (possibly a view subset)
  shared_ptr<VoxelsOnCartesianGrid<float>> image;
};

Geo
build_geo(const json& c)
{
  Geo g;
  const int views = c["views"], m = c["m"], segs = c["segs"];
  const bool tof = c["tof"].get<int>() > 1;
  g.sc = vg::make_scanner(scanner_spec(2 * views * m, segs + 1, c.value("tilt", false), tof));
  if (g.sc->check_consistency() != Succeeded::yes)
    error("scanner inconsistent");
  g.full_pdi.reset(
      ProjDataInfo::construct_proj_data_info(g.sc, 1, segs, views, g.sc->get_max_num_non_arccorrected_bins(), false, tof ? 1 : 0).release());
  const int seg_lo = c.value("seg_lo", -segs), seg_hi = c.value("seg_hi", segs);
  if (seg_lo != -segs || seg_hi != segs)
    g.full_pdi->reduce_segment_range(seg_lo, seg_hi);
  g.pdi = g.full_pdi;
  const int step = c.value("subset_by_view", 0);
  if (step > 0)
    {
      std::vector<int> vs;
      for (int v = c.value("subset_by_view_offset", 0) % step; v < views; v += step)
        vs.push_back(v);
      g.pdi.reset(new ProjDataInfoSubsetByView(g.full_pdi, vs));
    }
  json im;
  im["nx"] = 3;
  im["ny"] = 3;
  im["z_div"] = 1;
  im["nz_extra"] = 0;
  im["vx_rel"] = 1.;
  im["vy_same"] = !c.value("nonsquare", false);
  im["vy_rel"] = 2.;
  im["z_shift_planes"] = 0;
  im["ox"] = 0.;
  im["oy"] = 0.;
  g.image = vg::make_image(im, *g.full_pdi, 5);
  return g;
}

typedef std::tuple<int, int> VS; // (segment, view)

// ---- (a) + own counts for one (symmetries, segment range, num_subsets) -------------------------
// Fills per-subset viewgram counts (own count, for (b)).
Result
check_partition(const ProjDataInfo& pdi,
                const DataSymmetriesForViewSegmentNumbers& sym,
                const int smin,
                const int smax,
                const int N,
                std::vector<long>& own_count,
                int& max_group)
{
  const int vmin = pdi.get_min_view_num(), vmax = pdi.get_max_view_num();
  const int nv = vmax - vmin + 1, ns = smax - smin + 1;
  const int tmin = pdi.get_min_tof_pos_num(), tmax = pdi.get_max_tof_pos_num();
  const int nt = tmax - tmin + 1;
  // counter over (segment, view, TOF bin)
  std::vector<int> count(std::size_t(ns) * nv * nt, 0);
  std::vector<int> owner(std::size_t(ns) * nv, -1);
  own_count.assign(std::size_t(N), 0);
  std::vector<ViewSegmentNumbers> rel;
  for (int subset = 0; subset < N; ++subset)
    {
      const std::vector<ViewSegmentNumbers> L = detail::find_basic_vs_nums_in_subset(pdi, sym, smin, smax, subset, N);
      for (const ViewSegmentNumbers& vs : L)
        {
          VF_CHECK(vs.segment_num() >= smin && vs.segment_num() <= smax && vs.view_num() >= vmin && vs.view_num() <= vmax,
                   "num_subsets=", N, " subset ", subset, ": returned view/segment (", vs.view_num(), ",", vs.segment_num(), ") outside the data");
          VF_CHECK((vs.view_num() - vmin) % N == subset, "num_subsets=", N, " subset ", subset, ": returned view ", vs.view_num(),
                   " does not belong to this subset");
          VF_CHECK(sym.is_basic(vs), "num_subsets=", N, " subset ", subset, ": returned view/segment (", vs.view_num(), ",", vs.segment_num(),
                   ") is not basic");
          sym.get_related_view_segment_numbers(rel, vs);
          VF_CHECK(int(rel.size()) == sym.num_related_view_segment_numbers(vs), "num_related_view_segment_numbers(", vs.view_num(), ",",
                   vs.segment_num(), ")=", sym.num_related_view_segment_numbers(vs), " but the related list has ", rel.size(), " entries");
          max_group = std::max(max_group, int(rel.size()));
          bool self = false;
          for (const ViewSegmentNumbers& r : rel)
            {
              VF_CHECK(r.segment_num() >= smin && r.segment_num() <= smax && r.view_num() >= vmin && r.view_num() <= vmax, "num_subsets=", N,
                       " subset ", subset, ": related view/segment (", r.view_num(), ",", r.segment_num(), ") of basic (", vs.view_num(), ",",
                       vs.segment_num(), ") is outside the data");
              ViewSegmentNumbers b = r;
              sym.find_basic_view_segment_numbers(b);
              VF_CHECK(b == vs, "related (", r.view_num(), ",", r.segment_num(), ") of basic (", vs.view_num(), ",", vs.segment_num(),
                       ") has basic (", b.view_num(), ",", b.segment_num(), ")");
              self = self || r == vs;
              const std::size_t i = std::size_t(r.segment_num() - smin) * nv + (r.view_num() - vmin);
              // every user of the list (distributable_computation, the projectors' subset loops, the Hessian
              // code) combines each list entry with every TOF bin
              for (int k = 0; k < nt; ++k)
                ++count[i * nt + k];
              VF_CHECK(owner[i] == -1 || owner[i] == subset, "view ", r.view_num(), " segment ", r.segment_num(), " is processed for subset ",
                       owner[i], " and for subset ", subset, " (num_subsets=", N, ")");
              owner[i] = subset;
              own_count[std::size_t(subset)] += nt;
            }
          VF_CHECK(self, "the related list of (", vs.view_num(), ",", vs.segment_num(), ") does not contain itself");
        }
    }
  for (int s = smin; s <= smax; ++s)
    for (int v = vmin; v <= vmax; ++v)
      for (int k = 0; k < nt; ++k)
        {
          const int n = count[(std::size_t(s - smin) * nv + (v - vmin)) * nt + k];
          VF_CHECK(n == 1, "num_views=", nv, " num_subsets=", N, " segments ", smin, "..", smax, ": (segment ", s, ", view ", v, ", TOF bin ", tmin + k,
                   ") is processed ", n, " times over all subsets (expected exactly once)");
        }
  stats().count("viewgram groups counted", long(ns) * nv * nt);
  return Result::pass();
}

shared_ptr<ExamInfo>
pet_exam_info()
{
  shared_ptr<ExamInfo> e(new ExamInfo);
  e->imaging_modality = ImagingModality(ImagingModality::PT);
  return e;
}

Result
check_config(const json& c)
{
  Geo g;
  shared_ptr<ProjectorByBinPair> pair;
  shared_ptr<DataSymmetriesForViewSegmentNumbers> direct_sym; // constructed directly
  const int code = c["sym"];
  const SymSwitches sw = switches(code);
  try
    {
      g = build_geo(c);
      if (code == 0)
        {
          shared_ptr<TrivialSymBackProjector> bp(new TrivialSymBackProjector);
          bp->set_up(g.pdi, g.image);
          pair.reset(new ProjectorByBinPairUsingSeparateProjectors(shared_ptr<ForwardProjectorByBin>(), bp));
          direct_sym.reset(new TrivialDataSymmetriesForBins(g.pdi));
        }
      else
        {
          shared_ptr<ProjMatrixByBin> mat = vp::make_matrix(vp::MatrixOpts(), sw.s90, sw.s180, sw.swap_seg, sw.swap_s, sw.shift_z, false, false);
          pair.reset(new ProjectorByBinPairUsingProjMatrixByBin(mat));
          if (pair->set_up(g.pdi, g.image) != Succeeded::yes)
            return Result::reject("projector pair set_up failed");
          direct_sym.reset(new DataSymmetriesForBins_PET_CartesianGrid(g.pdi, g.image, sw.s90, sw.s180, sw.swap_seg, sw.swap_s, sw.shift_z));
        }
    }
  catch (const stir_verif::AssertionFailure&)
    {
      throw;
    }
  catch (const std::exception& e)
    {
      return Result::reject(std::string("construction rejected: ") + e.what());
    }
  const DataSymmetriesForViewSegmentNumbers& sym = *pair->get_back_projector_sptr()->get_symmetries_used();
  // (operator== of two distinct DataSymmetriesForBins_PET_CartesianGrid objects recurses without end,
  //  see work/notes/C06_findings.md "incidental"; the objects are therefore compared by behaviour below)

  const ProjDataInfo& pdi = *g.pdi;
  const int views = pdi.get_num_views();
  const int data_smin = pdi.get_min_segment_num(), data_smax = pdi.get_max_segment_num();
  const int proc_max = c.value("proc_max", -1); // max_segment_num_to_process (-1: all)
  const bool symmetric_data = data_smin == -data_smax;
  const int only_N = c.value("num_subsets", 0);

  // the objective function whose balancedness predicate is compared with the harness's own count
  PoissonLogLikelihoodWithLinearModelForMeanAndProjData<Target> obj;
  const int pm = proc_max >= 0 ? proc_max : data_smax;
  if (symmetric_data)
    {
      // (segments -pm..pm are what the objective function processes: it needs them to exist)
      shared_ptr<ProjData> pd(new ProjDataInMemory(pet_exam_info(), g.pdi, false));
      obj.set_proj_data_sptr(pd);
      obj.set_projector_pair_sptr(pair);
      obj.set_max_segment_num_to_process(pm);
    }

  int max_group = 1;
  long n_balanced = 0, n_unbalanced = 0;
  for (int N = (only_N > 0 ? only_N : 1); N <= (only_N > 0 ? only_N : views); ++N)
    {
      std::vector<long> own;
      // the projectors' own subset loops use the whole segment range of the data
      Result r = check_partition(pdi, sym, data_smin, data_smax, N, own, max_group);
      if (r.failed())
        return r;
      if (code != 0 || N == 1)
        { // the directly constructed object must behave identically
          std::vector<long> own2;
          int mg = 1;
          r = check_partition(pdi, *direct_sym, data_smin, data_smax, N, own2, mg);
          if (r.failed())
            return Result::fail("directly constructed symmetries: " + r.msg);
          VF_CHECK(own == own2, "per-subset counts differ between the projector's and the directly constructed symmetries object, num_subsets=", N);
        }
      if (symmetric_data)
        {
          // the objective function restricts to -max_segment_num_to_process..+max_segment_num_to_process
          if (pm != data_smax)
            {
              r = check_partition(pdi, sym, -pm, pm, N, own, max_group);
              if (r.failed())
                return r;
            }
          // (b) balancedness predicate vs own count of viewgrams per subset
          bool own_balanced = true;
          for (long n : own)
            own_balanced = own_balanced && n == own[0];
          obj.set_num_subsets(N);
          const bool lib_balanced = obj.subsets_are_approximately_balanced();
          if (lib_balanced != own_balanced)
            {
              std::string counts;
              for (long n : own)
                counts += cat(n, " ");
              return Result::fail(cat("num_views=", views, " num_subsets=", N, " max_segment_num_to_process=", pm,
                                      ": subsets_are_approximately_balanced()=", lib_balanced, " but the viewgrams per subset are ", counts));
            }
          (own_balanced ? n_balanced : n_unbalanced)++;
        }
      stats().count("configurations x num_subsets");
    }
  stats().count("balanced", n_balanced);
  stats().count("unbalanced", n_unbalanced);
  stats().cls(cat("sym code ", code));
  if (max_group > 1)
    stats().cls(cat("effective symmetry group size ", max_group));
  else
    stats().cls("effective symmetry group size 1");
  if (pdi.is_tof_data())
    stats().cls("TOF");
  if (c.value("tilt", false))
    stats().cls("view offset (symmetries switched off)");
  if (c.value("nonsquare", false))
    stats().cls("non-square voxels");
  if (c.value("subset_by_view", 0) > 0)
    stats().cls("ProjDataInfoSubsetByView");
  if (!symmetric_data)
    stats().cls("asymmetric segment range");
  if (proc_max >= 0 && proc_max < data_smax)
    stats().cls("max_segment_num_to_process < max segment");

  // ---- set_up of the objective function agrees with the predicate (small, non-TOF only) ----
  // PoissonLogLikelihoodWithLinearModelForMean::set_up: "if (!subsets_are_approximately_balanced() &&
  // !get_use_subset_sensitivities()) error(...)"
  if (c.value("check_set_up", false) && symmetric_data && code != 0 && !pdi.is_tof_data())
    for (int N = 1; N <= views; ++N)
      {
        PoissonLogLikelihoodWithLinearModelForMeanAndProjData<Target> o2;
        shared_ptr<ProjData> pd(new ProjDataInMemory(pet_exam_info(), g.pdi, true));
        o2.set_proj_data_sptr(pd);
        o2.set_projector_pair_sptr(pair);
        o2.set_max_segment_num_to_process(pm);
        o2.set_use_subset_sensitivities(false);
        o2.set_num_subsets(N);
        shared_ptr<Target> target(g.image->clone());
        target->set_exam_info(*pet_exam_info());
        bool threw = false;
        Succeeded ok = Succeeded::no;
        std::string what;
        try
          {
            ok = o2.set_up(target);
          }
        catch (const stir_verif::AssertionFailure&)
          {
            throw;
          }
        catch (const std::exception& e)
          {
            threw = true;
            what = e.what();
          }
        std::vector<long> own;
        int mg = 1;
        Result r = check_partition(pdi, sym, -pm, pm, N, own, mg);
        if (r.failed())
          return r;
        bool own_balanced = true;
        for (long n : own)
          own_balanced = own_balanced && n == own[0];
        VF_CHECK((ok == Succeeded::yes && !threw) == own_balanced, "num_views=", views, " num_subsets=", N,
                 " use_subset_sensitivities=false: set_up succeeded=", ok == Succeeded::yes && !threw, " but own balancedness=", own_balanced, " (",
                 what.substr(0, 120), ")");
        stats().count("set_up vs balancedness checks");
      }
  return Result::pass();
}

// ------------------------------------------------------------------------------------------------
// (c) schedules

class RecordingObjective : public PoissonLogLikelihoodWithLinearModelForMean<Target>
{
  typedef PoissonLogLikelihoodWithLinearModelForMean<Target> base_type;

public:
  std::vector<int> gradient_subsets; // subset_num of every gradient(+sensitivity) request, in call order
  shared_ptr<ExamData> input;
  shared_ptr<Target> proto;
  RecordingObjective()
  {
    this->set_defaults();
    input.reset(new ExamData(pet_exam_info()));
    proto.reset(
        new VoxelsOnCartesianGrid<float>(IndexRange3D(0, 0, 0, 0, 0, 0), CartesianCoordinate3D<float>(0, 0, 0), CartesianCoordinate3D<float>(1, 1, 1)));
    proto->set_exam_info(*pet_exam_info());
  }
  std::string get_registered_name() const override { return "verif recording objective function"; }
  Target* construct_target_ptr() const override { return proto->get_empty_copy(); }
  int set_num_subsets(const int n) override
  {
    this->already_set_up = this->already_set_up && (this->num_subsets == n);
    this->num_subsets = std::max(n, 1);
    return this->num_subsets;
  }
  void set_input_data(const shared_ptr<ExamData>& d) override { input = d; }
  const ExamData& get_input_data() const override { return *input; }
  void set_additive_proj_data_sptr(const shared_ptr<ExamData>&) override {}
  void set_normalisation_sptr(const shared_ptr<BinNormalisation>&) override {}
  void add_subset_sensitivity(Target& sensitivity, const int) const override
  {
    for (auto it = sensitivity.begin_all(); it != sensitivity.end_all(); ++it)
      *it += 1.F;
  }
  void actual_compute_subset_gradient_without_penalty(Target& gradient, const Target&, const int subset_num, const bool) override
  {
    gradient_subsets.push_back(subset_num);
    gradient.fill(1.F);
  }

protected:
  Succeeded set_up_before_sensitivity(shared_ptr<const Target> const&) override { return Succeeded::yes; }
  double actual_compute_objective_function_without_penalty(const Target&, const int) override { return 0.; }
  bool actual_subsets_are_approximately_balanced(std::string&) const override { return true; }
};

Result
check_schedule(const json& c)
{
  const int N = c["N"], start_subset = c["start_subset"], start_subiter = c["start_subiter"], K = c["num_subiters"];
  const bool randomise = c["randomise"];
  shared_ptr<RecordingObjective> obj(new RecordingObjective);
  OSMAPOSLReconstruction<Target> recon;
  shared_ptr<Target> target(obj->construct_target_ptr());
  target->fill(1.F);
  try
    {
      recon.set_objective_function_sptr(obj);
      recon.set_disable_output(true);
      recon.set_num_subsets(N);
      recon.set_num_subiterations(K);
      recon.set_start_subiteration_num(start_subiter);
      recon.set_start_subset_num(start_subset);
      recon.set_randomise_subset_order(randomise);
      if (recon.set_up(target) != Succeeded::yes)
        return Result::reject("reconstruction set_up failed");
    }
  catch (const stir_verif::AssertionFailure&)
    {
      throw;
    }
  catch (const std::exception& e)
    {
      return Result::reject(std::string("reconstruction set_up rejected: ") + e.what());
    }
  obj->gradient_subsets.clear();
#if C06_SANITIZED
  // under ASan/UBSan the sanitizer is the oracle for memory errors: Release behaviour (no assert()) is executed
  stir_verif::asserts_on = false;
#endif
  Succeeded ok = Succeeded::no;
  try
    {
      ok = recon.reconstruct(target);
    }
  catch (...)
    {
      // the timers of the reconstruction object are still running while the exception unwinds; their
      // destructors assert(!running), which would terminate the process instead of reporting the case
      stir_verif::asserts_on = false;
      throw;
    }
  stir_verif::asserts_on = true;
  VF_CHECK(ok == Succeeded::yes, "reconstruct() did not succeed");
  const std::vector<int>& used = obj->gradient_subsets;
  std::string seq;
  for (int s : used)
    seq += cat(s, " ");
  const int expected_calls = std::max(0, K - start_subiter + 1);
  VF_CHECK(int(used.size()) == expected_calls, "sub-iterations ", start_subiter, "..", K, " should request ", expected_calls, " subset gradients, got ",
           used.size(), ": ", seq);
  std::map<int, std::set<int>> window; // window index -> subsets used in it
  std::map<int, int> window_len;
  for (std::size_t i = 0; i < used.size(); ++i)
    {
      const int t = start_subiter + int(i); // sub-iteration number (1-based)
      const int s = used[i];
      VF_CHECK(s >= 0 && s < N, "sub-iteration ", t, " used subset ", s, " outside 0..", N - 1, "; observed: ", seq);
      if (!randomise)
        VF_CHECK(s == (t + start_subset - 1) % N, "sub-iteration ", t, " used subset ", s, " instead of (", t, "+", start_subset, "-1) mod ", N,
                 "; observed: ", seq);
      const int w = (t - 1) / N;
      VF_CHECK(window[w].insert(s).second, "subset ", s, " is used twice within full iteration ", w + 1, " (sub-iterations ", w * N + 1, "..", (w + 1) * N,
               "); num_subsets=", N, " start sub-iteration ", start_subiter, " randomise=", randomise, "; observed: ", seq);
      ++window_len[w];
    }
  long complete = 0;
  for (auto& kv : window_len)
    if (kv.second == N)
      {
        VF_CHECK(int(window[kv.first].size()) == N, "full iteration ", kv.first + 1, " does not use every subset; observed: ", seq);
        ++complete;
      }
  stats().count("complete iterations checked", complete);
  stats().count("sub-iterations observed", long(used.size()));
  stats().cls(randomise ? "schedule: randomised" : "schedule: sequential");
  if ((start_subiter - 1) % N != 0)
    stats().cls("schedule: starts inside an iteration");
  if (start_subset != 0)
    stats().cls("schedule: start_subset != 0");
  return Result::pass();
}

Result
check(const json& c)
{
  vg::quiet();
  if (c["kind"] == "sched")
    return check_schedule(c);
  return check_config(c);
}

// ------------------------------------------------------------------------------------------------
// the enumerated space (built once)
json
cfg_case(int views, int m, int segs, int proc_max, int tof, int sym)
{
  json c;
  c["kind"] = "cfg";
  c["views"] = views;
  c["m"] = m;
  c["segs"] = segs;
  c["proc_max"] = proc_max;
  c["tof"] = tof;
  c["sym"] = sym;
  return c;
}

const std::vector<json>&
space(int tier)
{
  static std::vector<json> v[2];
  std::vector<json>& out = v[tier ? 1 : 0];
  if (!out.empty())
    return out;
  // the ASan/UBSan build (clang -O1, ~20x slower here) runs the same schedules but a reduced range of view counts
  const int max_views = C06_SANITIZED ? 32 : 96;
  // (a)/(b): views x mashing x segment ranges x TOF x symmetry objects
  for (int views = 1; views <= max_views; ++views)
    for (int m = 1; m <= 2; ++m)
      {
        if (views * m < 2)
          continue; // a ring needs at least 4 detectors: 1 view exists only with mashing
        struct SegCfg
        {
          int segs, proc_max;
        };
        for (const SegCfg sc : { SegCfg{ 0, -1 }, SegCfg{ 1, -1 }, SegCfg{ 2, -1 }, SegCfg{ 2, 1 } })
          {
            for (int sym : { 0, 2, 3, 5, 7 })
              out.push_back(cfg_case(views, m, sc.segs, sc.proc_max, 1, sym));
            // TOF data: the constructor switches every view/segment symmetry off; two objects suffice
            for (int sym : { 0, 7 })
              out.push_back(cfg_case(views, m, sc.segs, sc.proc_max, 3, sym));
          }
      }
  // 1 view without mashing does not exist (2 detectors per ring); use mashing 4 instead
  for (int sym : { 0, 2, 3, 5, 7 })
    out.push_back(cfg_case(1, 4, 1, -1, 1, sym));
  // switches that silently reduce the symmetry group, ProjDataInfoSubsetByView, asymmetric segment ranges
  for (int views = 2; views <= max_views; ++views)
    {
      json c = cfg_case(views, 1, 1, -1, 1, 7);
      c["tilt"] = true; // intrinsic tilt: view offset -> 90/180 symmetries switched off
      out.push_back(c);
      c = cfg_case(views, 1, 1, -1, 1, 6);
      c["nonsquare"] = true; // x and y voxel sizes differ -> 90 degrees switched off
      out.push_back(c);
      for (int step : { 2, 3 })
        if (views >= step)
          {
            c = cfg_case(views, 1, 1, -1, 1, 7);
            c["subset_by_view"] = step;
            c["subset_by_view_offset"] = views % step;
            out.push_back(c);
          }
      // asymmetric segment ranges; with swap-segment the related segment would not exist:
      // find_basic_vs_nums_in_subset.cxx asserts that related segments stay inside [min,max] -> only without it
      for (int sym : { 0, 3, 5 })
        {
          c = cfg_case(views, 1, 2, -1, 1, sym);
          c["seg_lo"] = -1;
          c["seg_hi"] = 2;
          out.push_back(c);
        }
      c = cfg_case(views, 1, 2, -1, 1, 1);
      c["seg_lo"] = 0;
      c["seg_hi"] = 1;
      out.push_back(c);
      // (not in the sanitizer build: set_up of the objective function reads the never-initialised member
      //  distributed_cache_enabled, which UBSan reports -- a C05 matter, see work/notes/C05_findings.md)
      if (views <= 16 && !C06_SANITIZED)
        for (int sym : { 2, 3, 6, 7 })
          {
            c = cfg_case(views, 1, 1, -1, 1, sym);
            c["check_set_up"] = true;
            out.push_back(c);
          }
    }
  // (c) schedules
  for (int N = 1; N <= 12; ++N)
    for (int start_subset = 0; start_subset < N; ++start_subset)
      for (int start_subiter = 1; start_subiter <= 2 * N + 1; ++start_subiter)
        for (int randomise = 0; randomise <= 1; ++randomise)
          for (int K : { 3 * N, 2 * N + (N + 1) / 2 })
            {
              if (K < start_subiter || (K != 3 * N && N == 1))
                continue;
              json c;
              c["kind"] = "sched";
              c["N"] = N;
              c["start_subset"] = start_subset;
              c["start_subiter"] = start_subiter;
              c["randomise"] = randomise == 1;
              c["num_subiters"] = K;
              out.push_back(c);
            }
  return out;
}

bool
enumerate(uint64_t idx, int tier, json& c)
{
  const std::vector<json>& s = space(tier);
  if (idx >= s.size())
    return false;
  c = s[std::size_t(idx)];
  return true;
}

// generated cases beyond the enumerated bounds (larger view counts, more subsets, longer runs)
json
gen(Src& s, int size)
{
  json c;
  if (s.chance(1, 3))
    {
      c["kind"] = "sched";
      const int N = int(s.range(1, 13 + size / 4));
      c["N"] = N;
      c["start_subset"] = int(s.range(0, N - 1));
      c["start_subiter"] = int(s.range(1, 3 * N + 1));
      c["randomise"] = s.coin();
      c["num_subiters"] = c["start_subiter"].get<int>() + int(s.range(0, 4 * N));
      return c;
    }
  const int views = int(s.range(2, 97 + size * 2));
  c = cfg_case(views, int(s.pick(std::vector<int>{ 1, 1, 2, 3 })), int(s.range(0, 3)), -1, s.chance(1, 4) ? 3 : 1, int(s.range(0, 7)));
  const int segs = c["segs"];
  if (segs > 0 && s.chance(1, 3))
    c["proc_max"] = int(s.range(0, segs));
  if (s.chance(1, 8))
    c["tilt"] = true;
  if (s.chance(1, 8))
    c["nonsquare"] = true;
  if (s.chance(1, 8))
    {
      c["subset_by_view"] = int(s.range(2, 5));
      c["subset_by_view_offset"] = int(s.range(0, 4));
    }
  const int sym = c["sym"];
  const bool swap_seg = sym == 2 || sym == 4 || sym >= 6;
  if (segs > 0 && !swap_seg && c["proc_max"].get<int>() < 0 && s.chance(1, 6))
    { // asymmetric range (only without swap-segment, see above)
      c["seg_lo"] = -int(s.range(0, segs));
      c["seg_hi"] = segs;
    }
  // a random selection of subset numbers keeps big view counts cheap
  if (views > 120)
    c["num_subsets"] = int(s.range(1, views));
  return c;
}

bool
nontrivial(const json& c)
{
  if (c["kind"] == "sched")
    return c["randomise"].get<bool>() || c["start_subset"].get<int>() != 0 || c["start_subiter"].get<int>() != 1;
  // all num_subsets 1..views are run inside a case: some do not divide num_views as soon as views >= 3
  return c["views"].get<int>() >= 3 || c["sym"].get<int>() >= 2;
}

} // namespace

const Property&
the_property()
{
  static Property p;
  p.id = "C06";
  p.gen = gen;
  p.check = check;
  p.nontrivial = nontrivial;
  p.enumerate = enumerate;
  return p;
}

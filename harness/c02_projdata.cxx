// C02 — projection data are one coherent array across access paths, layouts and files.
// Model-based stateful check: a generated small geometry, a backing store (memory / stringstream / fstream /
// Interfile pair), a layout (storage order, permuted segment sequence, on-disk number type, byte order, scale,
// stream offset) and a history of write/read operations through the different access paths.  After every write
// the whole data set is read back through one (generated) path and compared with a plain reference vector
// indexed by my own enumeration (c02_model.h); for stream-backed data the raw bytes are decoded by an independent
// reader as soon as the write call has returned (flush-after-write and on-disk layout).  Header round trips and
// out-of-range requests (asserts switched off = Release behaviour) are operations of the same history.
#include "verif.h"
#include "stir_gen.h"
#include "c02_model.h"
#include "stir/ProjData.h"
#include "stir/ProjDataInMemory.h"
#include "stir/ProjDataFromStream.h"
#include "stir/ProjDataInterfile.h"
#include "stir/ProjDataInfoSubsetByView.h"
#include "stir/ExamInfo.h"
#include "stir/RadionuclideDB.h"
#include "stir/Bin.h"
#include "stir/Viewgram.h"
#include "stir/Sinogram.h"
#include "stir/SegmentByView.h"
#include "stir/SegmentBySinogram.h"
#include "stir/RelatedViewgrams.h"
#include "stir/TrivialDataSymmetriesForViewSegmentNumbers.h"
#include "stir/recon_buildblock/DataSymmetriesForBins_PET_CartesianGrid.h"
#include "stir/IO/interfile.h"
#include "stir/Succeeded.h"
#include <fstream>
#include <sstream>
#include <cstdio>
#include <cstdlib>
#include <unistd.h>
#include <sys/stat.h>

using namespace stir;
using vf::json;
using vf::Result;
using vf::Src;
using c02::Geo;
using c02::Layout;

namespace {

#define C02_TRY(expr)                                                                                                            \
  do                                                                                                                             \
    {                                                                                                                            \
      ::vf::Result r__ = (expr);                                                                                                 \
      if (r__.kind != ::vf::Result::PASS)                                                                                        \
        return r__;                                                                                                              \
    }                                                                                                                            \
  while (0)

// Known findings (work/notes/C02_findings.md) are excluded by construction unless VERIF_NO_EXCLUDE=1
bool
no_exclude()
{
  static const bool v = [] {
    const char* e = std::getenv("VERIF_NO_EXCLUDE");
    return e && *e && std::string(e) != "0";
  }();
  return v;
}

enum Backing
{
  B_MEM = 0,
  B_SSTREAM = 1,
  B_FSTREAM = 2,
  B_INTERFILE_RW = 3,
  B_INTERFILE_WO = 4
};
const char* const backing_names[] = { "memory", "stringstream", "fstream", "interfile rw", "interfile write-only" };

// op codes
enum Op
{
  W_BIN = 0,
  W_VIEWGRAM = 1,
  W_SINOGRAM = 2,
  W_SEG_VIEW = 3,
  W_SEG_SINO = 4,
  W_RELATED = 5,
  W_FILL_VALUE = 6,
  W_FILL_OTHER = 7,
  W_ITER = 8,
  W_ARITH = 9,
  R_BIN = 10,
  R_VIEWGRAM = 11,
  R_SINOGRAM = 12,
  R_SEG_VIEW = 13,
  R_SEG_SINO = 14,
  R_RELATED = 15,
  R_SUBSET = 16,
  R_ITER = 17,
  R_ALL = 18,
  E_OOB = 20,
  H_HEADER = 30,
  H_WRITE_TO_FILE = 31
};

// read-back paths for the whole data set
enum Path
{
  P_BIN = 0,
  P_VIEWGRAM = 1,
  P_SINOGRAM = 2,
  P_SEG_VIEW = 3,
  P_SEG_SINO = 4,
  P_RELATED = 5,
  P_COPY_TO = 6,
  P_ITER = 7, // memory only (else copy_to)
  N_PATHS = 8
};
const char* const path_names[] = { "get_bin_value", "get_viewgram", "get_sinogram", "get_segment_by_view", "get_segment_by_sinogram",
                                   "get_related_viewgrams", "copy_to", "begin_all iteration" };

// ---- temp files -----------------------------------------------------------------------------
std::string
tmp_dir()
{
  static std::string d;
  if (d.empty())
    {
      const char* t = std::getenv("VERIF_TMP");
      d = t ? std::string(t) : vf::cat("/tmp/verif_", long(getpid()));
      mkdir(d.c_str(), 0777);
      d += vf::cat("/c02_", long(getpid()));
      mkdir(d.c_str(), 0777);
    }
  return d;
}

struct TmpFiles
{ // removed at the end of each case
  std::vector<std::string> names;
  std::string make(const std::string& stem)
  {
    static long counter = 0;
    return vf::cat(tmp_dir(), "/", stem, "_", ++counter);
  }
  void track(const std::string& n) { names.push_back(n); }
  ~TmpFiles()
  {
    for (auto& n : names)
      std::remove(n.c_str());
  }
};

// ---- exam info --------------------------------------------------------------------------------
shared_ptr<ExamInfo>
make_exam(const json& j)
{
  shared_ptr<ExamInfo> e(new ExamInfo(ImagingModality::PT));
  static const PatientPosition::OrientationValue ors[]
      = { PatientPosition::unknown_orientation, PatientPosition::head_in, PatientPosition::feet_in, PatientPosition::other_orientation };
  // rotations left/right are covered by C10 (image headers share write_interfile_patient_position)
  static const PatientPosition::RotationValue rots[]
      = { PatientPosition::unknown_rotation, PatientPosition::supine, PatientPosition::prone, PatientPosition::other_rotation };
  e->patient_position = PatientPosition(ors[j["orient"].get<int>() % 4], rots[j["rot"].get<int>() % 4]);
  if (j["frame"].is_array())
    {
      TimeFrameDefinitions tf;
      tf.set_num_time_frames(1);
      tf.set_time_frame(1, j["frame"][0].get<double>(), j["frame"][0].get<double>() + j["frame"][1].get<double>());
      e->set_time_frame_definitions(tf);
    }
  if (j["energy"].is_array())
    {
      e->set_low_energy_thres(j["energy"][0].get<float>());
      e->set_high_energy_thres(j["energy"][1].get<float>());
    }
  if (j["nuclide"].get<int>() == 1)
    {
      RadionuclideDB db;
      e->set_radionuclide(db.get_radionuclide(ImagingModality::PT, "^18^Fluorine"));
    }
  return e;
}

bool
rel_close(double a, double b, double tol)
{
  return std::fabs(a - b) <= tol * std::max(std::fabs(a), std::fabs(b)) + 1e-30;
}

// the fields the PDFS header stores (interfile.cxx: write_interfile_modality/_patient_position/_radionuclide_info/
// _time_frame_definitions/_energy_windows); numbers carry 6 significant digits (DESIGN.md change log 4)
Result
compare_exam(const ExamInfo& a, const ExamInfo& b, const std::string& where)
{
  VF_CHECK(a.imaging_modality == b.imaging_modality, where, ": imaging modality differs");
  VF_CHECK(a.patient_position.get_orientation() == b.patient_position.get_orientation(), where, ": patient orientation ",
           int(a.patient_position.get_orientation()), " read back as ", int(b.patient_position.get_orientation()));
  VF_CHECK(a.patient_position.get_rotation() == b.patient_position.get_rotation(), where, ": patient rotation ",
           int(a.patient_position.get_rotation()), " read back as ", int(b.patient_position.get_rotation()));
  const TimeFrameDefinitions& ta = a.get_time_frame_definitions();
  const TimeFrameDefinitions& tb = b.get_time_frame_definitions();
  if (ta.get_num_time_frames() > 0 && ta.get_duration(1) > 0)
    {
      VF_CHECK(tb.get_num_time_frames() == ta.get_num_time_frames(), where, ": number of time frames ", tb.get_num_time_frames());
      VF_CHECK(rel_close(ta.get_start_time(1), tb.get_start_time(1), 1e-5) && rel_close(ta.get_duration(1), tb.get_duration(1), 1e-5),
               where, ": time frame (", ta.get_start_time(1), ",", ta.get_duration(1), ") read back as (", tb.get_start_time(1), ",",
               tb.get_duration(1), ")");
    }
  else
    for (unsigned f = 1; f <= tb.get_num_time_frames(); ++f)
      VF_CHECK(!(tb.get_duration(f) > 0), where, ": a time frame appeared that was not written");
  if (a.has_energy_information())
    VF_CHECK(rel_close(a.get_low_energy_thres(), b.get_low_energy_thres(), 1e-5)
                 && rel_close(a.get_high_energy_thres(), b.get_high_energy_thres(), 1e-5),
             where, ": energy window (", a.get_low_energy_thres(), ",", a.get_high_energy_thres(), ") read back as (",
             b.get_low_energy_thres(), ",", b.get_high_energy_thres(), ")");
  else
    VF_CHECK(!b.has_energy_information(), where, ": an energy window appeared that was not written");
  VF_CHECK(a.get_radionuclide().get_name() == b.get_radionuclide().get_name(), where, ": radionuclide '", a.get_radionuclide().get_name(),
           "' read back as '", b.get_radionuclide().get_name(), "'");
  if (a.get_radionuclide().get_half_life(false) > 0)
    VF_CHECK(rel_close(a.get_radionuclide().get_half_life(false), b.get_radionuclide().get_half_life(false), 1e-5), where,
             ": half life differs");
  return Result::pass();
}

// ---- the interpreter ----------------------------------------------------------------------------
struct Run
{
  const json& c;
  shared_ptr<Scanner> scanner;
  shared_ptr<ProjDataInfo> pdi;
  shared_ptr<ExamInfo> exam;
  std::unique_ptr<Geo> geo_p;
  Layout L;
  int backing = B_MEM;
  TmpFiles tmp;

  // the object under test
  shared_ptr<ProjData> pd;
  ProjDataInMemory* mem = nullptr;
  ProjDataFromStream* pdfs = nullptr;
  shared_ptr<std::stringstream> ss;
  std::string data_path, header_path;
  bool has_header = false;
  bool readable = true;     // false: write-only Interfile (all reads go through a second object)
  bool stream_backed = false;
  bool prefilled = false;   // harness wrote preamble + zeros + guard before the library saw the stream
  bool unflushed = false;   // only when L3 is excluded: set_bin_value happened on a file and nothing flushed since
  static constexpr unsigned char PRE = 0xAB, GUARD = 0xCD;
  static constexpr int NGUARD = 8;

  std::vector<float> ref; // THE reference
  shared_ptr<DataSymmetriesForViewSegmentNumbers> symm;
  bool symm_is_pet = false;
  std::vector<std::size_t> iter_pos_to_idx; // learned position->bin map of begin_all() iteration (memory)
  long nwrites = 0;

  explicit Run(const json& cc) : c(cc) {}
  const Geo& geo() const { return *geo_p; }
  bool is_float_like() const { return backing == B_MEM || !L.td().integer; }
  bool file_backed() const { return backing >= B_FSTREAM; }

  // ---- values the storage can hold exactly (DESIGN C02: "the generator only writes values k*scale") -------------
  // float/double/memory: any finite float (double storage uses power-of-two scale factors so that v/s*s is exact);
  // integer storage: float(k)*scale with |k| <= kmax(type), k >= 0 for unsigned types (negatives are documented to be
  // truncated to 0, convert_range.inl:171).
  float value(vf::SplitMix& g) const
  {
    if (is_float_like())
      {
        if (g.range(0, 3) == 0)
          return float(g.real(-1e4, 1e4));
        return float(g.range(-2000, 2000)) * 0.25F;
      }
    const auto& td = L.td();
    long k;
    const long r = g.range(0, 9);
    if (r == 0)
      k = td.kmax;
    else if (r == 1)
      k = td.is_signed ? -td.kmax : 0;
    else if (r < 6)
      k = g.range(td.is_signed ? -100 : 0, 100);
    else
      k = g.range(td.is_signed ? -td.kmax : 0, td.kmax);
    if (k > td.kmax)
      k = td.kmax;
    if (td.kmax < 100 && k < -td.kmax)
      k = -td.kmax;
    return float(k) * L.scale;
  }

  // ---- set up -----------------------------------------------------------------------------------
  Result setup();
  // the object reads go through (second object for write-only data, or when asked for)
  shared_ptr<ProjData> second_reader() const { return ProjData::read_from_file(header_path); }
  bool can_second_reader() const { return has_header && !unflushed; }

  // ---- reading everything through one path --------------------------------------------------------
  Result read_all(ProjData& r, int path, std::vector<float>& got, const std::string& after);
  Result compare_all(int sel, const std::string& after);
  Result check_bytes(const std::string& after);
  Result after_write(const json& op, const std::string& what);

  // ---- operations ---------------------------------------------------------------------------------
  Result run_op(const json& op, std::size_t opno);
  Result op_oob(const json& op, const std::string& tag);
  Result op_header(const std::string& tag, int sel);
  Result op_write_to_file(const std::string& tag, int sel);
  Result op_subset(ProjData& r, const json& op, const std::string& tag);
  Result learn_iteration_order(const std::string& tag);

  float get_bin(ProjData& r, const Bin& b) const
  {
    if (auto m = dynamic_cast<ProjDataInMemory*>(&r))
      {
        Bin bb = b;
        return m->get_bin_value(bb);
      }
    if (auto f = dynamic_cast<ProjDataFromStream*>(&r))
      return f->get_bin_value(b);
    throw std::logic_error("C02 harness: reader has no get_bin_value");
  }
  void set_bin(const Bin& b)
  {
    if (mem)
      mem->set_bin_value(b);
    else
      pdfs->set_bin_value(b);
  }
  ProjDataFromStream::StorageOrder stir_order() const
  {
    return L.order == 0 ? ProjDataFromStream::Segment_View_AxialPos_TangPos : ProjDataFromStream::Segment_AxialPos_View_TangPos;
  }
};

// segment sequence from the permutation key: 0 = min..max (the constructors' default), 1 = 0,+1,-1,... , else a shuffle
std::vector<int>
segment_sequence(const Geo& g, long key)
{
  std::vector<int> seq;
  for (int s = g.min_seg; s <= g.max_seg; ++s)
    seq.push_back(s);
  if (key == 0)
    return seq;
  if (key == 1)
    {
      seq.clear();
      if (g.min_seg <= 0 && g.max_seg >= 0)
        seq.push_back(0);
      for (int k = 1; k <= std::max(g.max_seg, -g.min_seg); ++k)
        {
          if (k <= g.max_seg)
            seq.push_back(k);
          if (-k >= g.min_seg)
            seq.push_back(-k);
        }
      return seq;
    }
  vf::SplitMix r(uint64_t(key) * 7919ULL + 13ULL);
  for (std::size_t i = seq.size(); i > 1; --i)
    std::swap(seq[i - 1], seq[std::size_t(r.range(0, long(i) - 1))]);
  return seq;
}

// my own copy of the documented "standard segment sequence" [0,1,-1,2,-2,...] (ProjData.h:257-263), used for the
// documented order of fill_from()/copy_to()
std::vector<int>
standard_sequence(const Geo& g)
{
  return segment_sequence(g, 1);
}

Result
Run::setup()
{
  vg::quiet();
  try
    {
      scanner = vg::make_scanner(c["scanner"]);
      pdi = vg::make_pdi(scanner, c["pdi"]);
    }
  catch (const std::exception& e)
    {
      return Result::reject(std::string("geometry rejected by STIR: ") + std::string(e.what()).substr(0, 60));
    }
  exam = make_exam(c["exam"]);
  geo_p.reset(new Geo(*pdi));
  const Geo& g = geo();
  backing = c["backing"].get<int>();
  stream_backed = backing != B_MEM;
  L.order = c["order"].get<int>() % 2;
  L.seq = segment_sequence(g, c["perm"].get<long>());
  L.type = int(c["type"].get<int>() % int(c02::types().size()));
  L.big_endian = c["big_endian"].get<bool>();
  L.scale = c["scale"].get<float>();
  L.offset = (backing == B_SSTREAM || backing == B_FSTREAM) ? c["offset"].get<long>() : 0;
  // ProjDataFromStream::set_* fail for float storage with a scale factor != 1: write_data() resets the scale to 1
  // when the types agree (write_data.inl:126-131) and set_viewgram etc. then see scale != scale_factor
  // (ProjDataFromStream.cxx:385).  "scale_factor is only used when reading" (ProjDataFromStream.h:188).
  if (L.td().id == NumericType::FLOAT)
    L.scale = 1.F;
  if (backing == B_MEM)
    {
      L = Layout();
      L.seq = standard_sequence(g);
    }
  ref.assign(g.n, 0.F);
  const bool tof = g.ntof() > 1;
  const NumericType nt(L.td().id);
  const ByteOrder bo(L.big_endian ? ByteOrder::big_endian : ByteOrder::little_endian);

  auto prefill = [&](std::ostream& o) {
    const std::string pre(std::size_t(L.offset), char(PRE));
    const std::string zeros(g.n * L.elsize(), '\0');
    const std::string guard(std::size_t(NGUARD), char(GUARD));
    o << pre << zeros << guard;
  };

  if (backing == B_MEM)
    {
      mem = new ProjDataInMemory(exam, pdi); // initialise_with_0 = true
      pd.reset(mem);
    }
  else if (backing == B_SSTREAM)
    {
      ss.reset(new std::stringstream(std::ios::in | std::ios::out | std::ios::binary));
      prefill(*ss);
      prefilled = true;
      pdfs = new ProjDataFromStream(exam, pdi, ss, std::streamoff(L.offset), L.seq, stir_order(), nt, bo, L.scale);
      pd.reset(pdfs);
    }
  else if (backing == B_FSTREAM)
    {
      const std::string stem = tmp.make("raw");
      data_path = stem + ".s";
      header_path = stem + ".hs";
      tmp.track(data_path);
      tmp.track(header_path);
      {
        std::ofstream o(data_path.c_str(), std::ios::binary | std::ios::trunc);
        prefill(o);
      }
      prefilled = true;
      shared_ptr<std::iostream> fs(new std::fstream(data_path.c_str(), std::ios::in | std::ios::out | std::ios::binary));
      if (!*fs)
        throw std::runtime_error("C02 harness: cannot open " + data_path);
      pdfs = new ProjDataFromStream(exam, pdi, fs, std::streamoff(L.offset), L.seq, stir_order(), nt, bo, L.scale);
      pd.reset(pdfs);
      // TOF + Segment_AxialPos_View_TangPos cannot be described by a header (interfile.cxx:1246 error()): the raw
      // stream is still exercised, without header operations
      if (!(tof && L.order == 1))
        {
          if (write_basic_interfile_PDFS_header(header_path, data_path, *pdfs) != Succeeded::yes)
            return Result::fail("write_basic_interfile_PDFS_header returned Succeeded::no");
          has_header = true;
        }
    }
  else
    {
      const std::string stem = tmp.make("pd");
      data_path = stem + ".s";
      header_path = stem + ".hs";
      tmp.track(data_path);
      tmp.track(header_path);
      readable = backing == B_INTERFILE_RW;
      const std::ios::openmode mode = readable ? (std::ios::in | std::ios::out | std::ios::trunc) : std::ios::out;
      try
        {
          pdfs = new ProjDataInterfile(exam, pdi, stem, mode, L.seq, stir_order(), nt, bo, L.scale);
        }
      catch (const std::exception& e)
        {
          if (tof && L.order == 1) // documented: write_basic_interfile_PDFS_header calls error() (interfile.cxx:1246)
            return Result::reject("TOF data with Segment_AxialPos_View_TangPos cannot be written with a header");
          throw;
        }
      pd.reset(pdfs);
      has_header = true;
      // a new file has no contents: the first operation of every history is a fill through the library
      vf::SplitMix g0(c["seed"].get<uint64_t>() ^ 0x5151ULL);
      const float v0 = value(g0);
      pd->fill(v0);
      std::fill(ref.begin(), ref.end(), v0);
      C02_TRY(check_bytes("initial fill"));
    }

  // symmetries for the related-viewgram paths
  symm.reset(new TrivialDataSymmetriesForViewSegmentNumbers);
  if (c["sym"].get<int>() == 1)
    {
      try
        {
          shared_ptr<DiscretisedDensity<3, float>> im = vg::make_image(c["image"], *pdi);
          symm.reset(new DataSymmetriesForBins_PET_CartesianGrid(pdi, im));
          symm_is_pet = true;
        }
      catch (const std::exception&)
        { // the symmetries class rejects the geometry (documented error()s in its constructor): trivial symmetries instead
          vf::stats().count("PET symmetries not constructible, trivial used");
        }
    }
  return Result::pass();
}

// @@NEXT@@

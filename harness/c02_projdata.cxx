// C02 — projection data are one coherent array across access paths, layouts and files.
// Model-based stateful check: a generated small geometry, a backing store (memory / stringstream / fstream /
// Interfile pair), a layout (storage order, permuted segment sequence, on-disk number type, byte order, scale,
// stream offset) and a history of write/read operations through the different access paths.  After every write
// the whole data set is read back through one (generated) path and compared with a plain reference vector
// indexed by my own enumeration (c02_model.h); for stream-backed data the raw bytes are decoded by an independent
// reader as soon as the write call has returned (flush-after-write and on-disk layout).  Header round trips and
// out-of-range requests (asserts switched off = Release behaviour) are operations of the same history.
// File-backed cases also keep LONG-LIVED objects open on the same file (opened once after the first contents exist, never
// re-opened): readers and second writers, each with its own stream.  Operations "read item X through object R" / "write
// item X through object W" are addressed relative to the place where an object's previous read ended (next / same /
// previous / far item in the FILE), so that "R reads k, W writes k+1, R reads k+1" and its variants are frequent.
#include "verif.h"
#include "stir_gen.h"
#include "c02_model.h"
#include "stir/ProjData.h"
#include "stir/ProjDataInMemory.h"
#include "stir/ProjDataFromStream.h"
#include "stir/ProjDataInterfile.h"
#include "stir/ProjDataInfoSubsetByView.h"
#include "stir/ExamInfo.h"
#include "stir/RadionuclideDB.h"
#include "stir/Bin.h"
#include "stir/Viewgram.h"
#include "stir/Sinogram.h"
#include "stir/SegmentByView.h"
#include "stir/SegmentBySinogram.h"
#include "stir/RelatedViewgrams.h"
#include "stir/ViewSegmentNumbers.h"
#include "stir/TrivialDataSymmetriesForViewSegmentNumbers.h"
#include "stir/recon_buildblock/DataSymmetriesForBins_PET_CartesianGrid.h"
#include "stir/IO/interfile.h"
#include "stir/Succeeded.h"
#include <fstream>
#include <sstream>
#include <set>
#include <memory>
#include <cstdio>
#include <cstdlib>
#include <unistd.h>
#include <sys/stat.h>

using namespace stir;
using vf::json;
using vf::Result;
using vf::Src;
using c02::Geo;
using c02::Layout;

namespace {

#define C02_TRY(expr)                                                                                                            \
  do                                                                                                                             \
    {                                                                                                                            \
      ::vf::Result r__ = (expr);                                                                                                 \
      if (r__.kind != ::vf::Result::PASS)                                                                                        \
        return r__;                                                                                                              \
    }                                                                                                                            \
  while (0)

// Known findings (N2, N4; work/notes/C02_findings.md) are excluded by construction.  VERIF_NO_EXCLUDE=1 switches every
// exclusion off (that is how a fix is confirmed); VERIF_NO_EXCLUDE=N2,N4 switches off only the listed ones.
// (L2, L3, N1, N3, N5 were repaired in the library: their input classes are part of the normal search, the former
// probes are regression inputs under replays/C02/fixed_*.json.)
bool
no_exclude(const char* id)
{
  static const std::string v = [] {
    const char* e = std::getenv("VERIF_NO_EXCLUDE");
    return std::string(e ? e : "");
  }();
  if (v.empty() || v == "0")
    return false;
  if (v == "1")
    return true;
  return ("," + v + ",").find(std::string(",") + id + ",") != std::string::npos;
}

// N6 (domain audit): a header that lists an EVEN number of segments (only possible with a segment range that is not symmetric) trips
// assert(num_segments % 2 == 1) in find_segment_sequence (InterfileHeader.cxx:846) when it is read back.  The code below that assertion
// does not depend on the count being odd (it sorts by mean ring difference and numbers relative to segment 0), Release builds read such
// headers correctly, so no sentence of the property is broken: assertion-only (DESIGN section 11).  Cases with an even number of
// segments therefore run with the library's assertions off (counted) and are judged by the normal oracles.
static const bool N6_ASSERTION_ONLY = true;

enum Backing
{
  B_MEM = 0,
  B_SSTREAM = 1,
  B_FSTREAM = 2,
  B_INTERFILE_RW = 3,
  B_INTERFILE_WO = 4
};
const char* const backing_names[] = { "memory", "stringstream", "fstream", "interfile rw", "interfile write-only" };

// op codes
enum Op
{
  W_BIN = 0,
  W_VIEWGRAM = 1,
  W_SINOGRAM = 2,
  W_SEG_VIEW = 3,
  W_SEG_SINO = 4,
  W_RELATED = 5,
  W_FILL_VALUE = 6,
  W_FILL_OTHER = 7,
  W_ITER = 8,
  W_ARITH = 9,
  R_BIN = 10,
  R_VIEWGRAM = 11,
  R_SINOGRAM = 12,
  R_SEG_VIEW = 13,
  R_SEG_SINO = 14,
  R_RELATED = 15,
  R_SUBSET = 16,
  R_ITER = 17,
  R_ALL = 18,
  E_OOB = 20,
  H_HEADER = 30,
  H_WRITE_TO_FILE = 31,
  X_READ = 40, // one item through one of the long-lived objects (or the object under test), file-relative addressing
  X_WRITE = 41 // one item through the object under test or a long-lived second writer, file-relative addressing
};

// long-lived objects on the same file (c["readers"]): how they are opened
enum PeerKind
{
  PK_MAIN = -1,     // the object under test itself
  PK_HDR_RO = 0,    // ProjData::read_from_file(header)                      (std::ios::in)
  PK_STREAM_RO = 1, // ProjDataFromStream on its own std::fstream            (in | binary)
  PK_HDR_RW = 2,    // ProjData::read_from_file(header, in | out): a second writer
  PK_STREAM_RW = 3  // ProjDataFromStream on its own std::fstream            (in | out | binary): a second writer
};
const char* const peer_kind_names[] = { "object under test", "long-lived read_from_file(header)", "long-lived ProjDataFromStream on its own ifstream",
                                        "long-lived read_from_file(header, in|out)", "long-lived ProjDataFromStream on its own fstream (in|out)" };

// item kinds of the X_ operations
enum ItemKind
{
  IK_BIN = 0,
  IK_VIEWGRAM = 1,
  IK_SINOGRAM = 2,
  IK_SEG_VIEW = 3,
  IK_SEG_SINO = 4,
  IK_RELATED = 5,
  N_ITEM_KINDS = 6
};
const char* const item_kind_names[] = { "bin", "viewgram", "sinogram", "segment by view", "segment by sinogram", "related viewgrams" };

// addressing modes of the X_ operations: absolute, or relative to the last item another (or the same) object touched
enum AddrMode
{
  AM_ABS = 0,  // coordinates from the op's arguments
  AM_NEXT = 1, // the item containing the bin that directly FOLLOWS the target object's last item in the file
  AM_SAME = 2, // the item containing the first bin of the target object's last item
  AM_PREV = 3, // the item containing the bin directly in front of the target object's last item
  AM_FAR = 4,  // half the file away
  AM_NEXT2 = 5, // one item of the same size further than AM_NEXT (k+2)
  N_ADDR_MODES = 6
};
const char* const addr_mode_names[] = { "absolute", "next in file", "same place", "previous in file", "far away", "next but one in file" };

// read-back paths for the whole data set
enum Path
{
  P_BIN = 0,
  P_VIEWGRAM = 1,
  P_SINOGRAM = 2,
  P_SEG_VIEW = 3,
  P_SEG_SINO = 4,
  P_RELATED = 5,
  P_COPY_TO = 6,
  P_ITER = 7, // memory only (else copy_to)
  N_PATHS = 8
};
const char* const path_names[] = { "get_bin_value", "get_viewgram", "get_sinogram", "get_segment_by_view", "get_segment_by_sinogram",
                                   "get_related_viewgrams", "copy_to", "begin_all iteration" };

// ---- temp files -----------------------------------------------------------------------------
std::string
tmp_dir()
{
  static std::string d;
  if (d.empty())
    {
      const char* t = std::getenv("VERIF_TMP");
      d = t ? std::string(t) : vf::cat("/tmp/verif_", long(getpid()));
      mkdir(d.c_str(), 0777);
      d += vf::cat("/c02_", long(getpid()));
      mkdir(d.c_str(), 0777);
    }
  return d;
}

struct TmpFiles
{ // removed at the end of each case
  std::vector<std::string> names;
  std::string make(const std::string& stem)
  {
    static long counter = 0;
    return vf::cat(tmp_dir(), "/", stem, "_", ++counter);
  }
  void track(const std::string& n) { names.push_back(n); }
  ~TmpFiles()
  {
    for (auto& n : names)
      std::remove(n.c_str());
  }
};

// ---- exam info --------------------------------------------------------------------------------
shared_ptr<ExamInfo>
make_exam(const json& j)
{
  shared_ptr<ExamInfo> e(new ExamInfo(ImagingModality::PT));
  static const PatientPosition::OrientationValue ors[]
      = { PatientPosition::unknown_orientation, PatientPosition::head_in, PatientPosition::feet_in, PatientPosition::other_orientation };
  // rotations left/right are covered by C10 (image headers share write_interfile_patient_position)
  static const PatientPosition::RotationValue rots[]
      = { PatientPosition::unknown_rotation, PatientPosition::supine, PatientPosition::prone, PatientPosition::other_rotation };
  e->patient_position = PatientPosition(ors[j["orient"].get<int>() % 4], rots[j["rot"].get<int>() % 4]);
  if (j["frame"].is_array())
    {
      TimeFrameDefinitions tf;
      tf.set_num_time_frames(1);
      tf.set_time_frame(1, j["frame"][0].get<double>(), j["frame"][0].get<double>() + j["frame"][1].get<double>());
      e->set_time_frame_definitions(tf);
    }
  if (j["energy"].is_array())
    {
      e->set_low_energy_thres(j["energy"][0].get<float>());
      e->set_high_energy_thres(j["energy"][1].get<float>());
    }
  if (j["nuclide"].get<int>() == 1)
    {
      RadionuclideDB db;
      e->set_radionuclide(db.get_radionuclide(ImagingModality::PT, "^18^Fluorine"));
    }
  return e;
}

bool
rel_close(double a, double b, double tol)
{
  return std::fabs(a - b) <= tol * std::max(std::fabs(a), std::fabs(b)) + 1e-30;
}

// the fields the PDFS header stores (interfile.cxx: write_interfile_modality/_patient_position/_radionuclide_info/
// _time_frame_definitions/_energy_windows); numbers carry 6 significant digits (DESIGN.md change log 4)
Result
compare_exam(const ExamInfo& a, const ExamInfo& b, const std::string& where)
{
  VF_CHECK(a.imaging_modality == b.imaging_modality, where, ": imaging modality differs");
  VF_CHECK(a.patient_position.get_orientation() == b.patient_position.get_orientation(), where, ": patient orientation ",
           int(a.patient_position.get_orientation()), " read back as ", int(b.patient_position.get_orientation()));
  VF_CHECK(a.patient_position.get_rotation() == b.patient_position.get_rotation(), where, ": patient rotation ",
           int(a.patient_position.get_rotation()), " read back as ", int(b.patient_position.get_rotation()));
  const TimeFrameDefinitions& ta = a.get_time_frame_definitions();
  const TimeFrameDefinitions& tb = b.get_time_frame_definitions();
  if (ta.get_num_time_frames() > 0 && ta.get_duration(1) > 0)
    {
      VF_CHECK(tb.get_num_time_frames() == ta.get_num_time_frames(), where, ": number of time frames ", tb.get_num_time_frames());
      VF_CHECK(rel_close(ta.get_start_time(1), tb.get_start_time(1), 1e-5) && rel_close(ta.get_duration(1), tb.get_duration(1), 1e-5),
               where, ": time frame (", ta.get_start_time(1), ",", ta.get_duration(1), ") read back as (", tb.get_start_time(1), ",",
               tb.get_duration(1), ")");
    }
  else
    for (unsigned f = 1; f <= tb.get_num_time_frames(); ++f)
      VF_CHECK(!(tb.get_duration(f) > 0), where, ": a time frame appeared that was not written");
  if (a.has_energy_information())
    VF_CHECK(rel_close(a.get_low_energy_thres(), b.get_low_energy_thres(), 1e-5)
                 && rel_close(a.get_high_energy_thres(), b.get_high_energy_thres(), 1e-5),
             where, ": energy window (", a.get_low_energy_thres(), ",", a.get_high_energy_thres(), ") read back as (",
             b.get_low_energy_thres(), ",", b.get_high_energy_thres(), ")");
  else
    VF_CHECK(!b.has_energy_information(), where, ": an energy window appeared that was not written");
  // an unknown radionuclide is not written; the reader documents a default for it (RadionuclideDB.h:112: empty name ->
  // ^18^Fluorine for PET), so names are compared only when there was one to store
  if (!a.get_radionuclide().get_name().empty() && a.get_radionuclide().get_name() != "Unknown")
    VF_CHECK(a.get_radionuclide().get_name() == b.get_radionuclide().get_name(), where, ": radionuclide '", a.get_radionuclide().get_name(),
           "' read back as '", b.get_radionuclide().get_name(), "'");
  if (a.get_radionuclide().get_half_life(false) > 0)
    VF_CHECK(rel_close(a.get_radionuclide().get_half_life(false), b.get_radionuclide().get_half_life(false), 1e-5), where,
             ": half life differs");
  return Result::pass();
}

// ---- the interpreter ----------------------------------------------------------------------------
struct Run
{
  const json& c;
  shared_ptr<Scanner> scanner;
  shared_ptr<ProjDataInfo> pdi;
  shared_ptr<ExamInfo> exam;
  std::unique_ptr<Geo> geo_p;
  Layout L;
  int backing = B_MEM;
  TmpFiles tmp;

  // the object under test
  shared_ptr<ProjData> pd;
  ProjDataInMemory* mem = nullptr;
  ProjDataFromStream* pdfs = nullptr;
  shared_ptr<std::stringstream> ss;
  std::string data_path, header_path;
  bool has_header = false;
  bool readable = true;     // false: write-only Interfile (all reads go through a second object)
  bool stream_backed = false;
  bool prefilled = false;   // harness wrote preamble + zeros + guard before the library saw the stream
  static constexpr unsigned char PRE = 0xAB, GUARD = 0xCD;
  static constexpr int NGUARD = 8;

  std::vector<float> ref; // THE reference
  shared_ptr<DataSymmetriesForViewSegmentNumbers> symm;
  bool symm_is_pet = false;
  std::vector<std::size_t> iter_pos_to_idx; // learned position->bin map of begin_all() iteration (memory)
  long nwrites = 0;

  // ---- objects on the same file that live as long as the history (peers[0] is the object under test) ---------------
  // Sharing a file between objects: the class documentation of ProjDataFromStream promises "At the end of every write
  // (i.e., set_*) operation, the stream is flushed such that subsequent read operations from the same file will be able
  // [to see] this data even if the stream isn't closed yet" (ProjDataFromStream.h:46-49), and ProjData::read_from_file takes
  // an open mode (ProjData.h:112; in|out is how the utilities update a file in place).  Nothing documents that a second
  // object on the same file is unsupported; every call here returns before the next one (of any object) starts.
  struct Peer
  {
    shared_ptr<ProjData> p;
    ProjDataFromStream* f = nullptr;
    int kind = PK_MAIN;
    bool can_read = true, can_write = false;
    // harness-side bookkeeping (bytes of the data stream, from c02::byte_pos): the last single item this object touched
    long cur_start = 0, cur_end = 0;
    bool exact = false;  // its stream really stands at cur_end after a single-item READ (nothing else used it since)
    bool wrote_last = false; // its last use was a single-item WRITE of cur_start..cur_end
    long read_clock = 0; // event number of that read
    long run_clock = 0;  // event number of the first read of the current run of reads that each began where the previous ended
  };
  std::vector<Peer> peers;
  struct BinC
  {
    int s, a, v, t, k;
  };
  std::vector<BinC> pos2bin;        // element number in the stream -> bin (inverse of c02::byte_pos)
  std::vector<float> shadow;        // reference before the last write (to find the bins a write changed)
  std::vector<long> written_clock;  // per bin (reference index): event number of the last write that changed it
  std::vector<int> written_by;      // ... and the peer that wrote it
  long clock_ = 0;

  bool wide_values = false;         // set in setup(): case flag "wide" and a power-of-two scale factor
  shared_ptr<ProjDataInfo> pdi_twin; // an equal ProjDataInfo in another object (case flag "twin_info")

  explicit Run(const json& cc) : c(cc) {}
  const Geo& geo() const { return *geo_p; }
  bool is_float_like() const { return backing == B_MEM || !L.td().integer; }
  bool file_backed() const { return backing >= B_FSTREAM; }

  // ---- values the storage can hold exactly (DESIGN C02: "the generator only writes values k*scale") -------------
  // float/double/memory: any finite float (double storage uses power-of-two scale factors so that v/s*s is exact);
  // integer storage: float(k)*scale with |k| <= kmax(type), k >= 0 for unsigned types (negatives are documented to be
  // truncated to 0, convert_range.inl:171).
  float value(vf::SplitMix& g) const
  {
    if (is_float_like())
      {
        if (g.range(0, 3) == 0)
          return float(g.real(-1e4, 1e4));
        return float(g.range(-2000, 2000)) * 0.25F;
      }
    const auto& td = L.td();
    long k;
    const long r = g.range(0, 9);
    // Domain audit AUD_B: |k| <= 2^20 leaves the upper 11 bits of the 4-byte types and the upper 43 bits of the 8-byte types
    // always 0 (or all 1): a number that is cut to fewer bytes on its way to the file would never show.  Cases with "wide"
    // (new cases; absent in saved cases = false) write k = m * 2^e with 2^19 <= m < 2^20 for a fifth of the values: float(k) is
    // exact, k <= 2^30 (int), 2^31 (uint), 2^62 (long), 2^63 (ulong) < type_max / 1.01 (find_scale_factor keeps the scale
    // factor, convert_range.inl), and with a power-of-two scale factor float(k)*scale/scale == k exactly.
    if (wide_values && td.kmax == 1000000 && (r == 6 || r == 7))
      {
        const int bits = 8 * td.size;
        const int emax = bits - 21 - (td.is_signed ? 1 : 0);
        const long m = g.range(1L << 19, (1L << 20) - 1);
        const int e = int(g.range(emax - 3, emax));
        const bool negative = td.is_signed && g.range(0, 1) == 1;
        const float f = std::ldexp(float(m), e);
        vf::stats().count("wide integer values (upper bytes of 4/8-byte types in use)");
        return (negative ? -f : f) * L.scale;
      }
    if (r == 0)
      k = td.kmax;
    else if (r == 1)
      k = td.is_signed ? -td.kmax : 0;
    else if (r < 6)
      k = g.range(td.is_signed ? -100 : 0, 100);
    else
      k = g.range(td.is_signed ? -td.kmax : 0, td.kmax);
    if (k > td.kmax)
      k = td.kmax;
    if (td.kmax < 100 && k < -td.kmax)
      k = -td.kmax;
    return float(k) * L.scale;
  }

  // ---- set up -----------------------------------------------------------------------------------
  Result setup();
  // the object reads go through (second object for write-only data, or when asked for)
  shared_ptr<ProjData> second_reader() const { return ProjData::read_from_file(header_path); }
  bool can_second_reader() const { return has_header; }

  // ---- reading everything through one path --------------------------------------------------------
  Result read_all(ProjData& r, int& path, std::vector<float>& got, const std::string& after);
  Result compare_object(ProjData& r, int path, const std::string& how);
  Result compare_all(int sel, const std::string& after, bool allow_long_lived = false);
  Result check_bytes(const std::string& after);
  Result after_write(const json& op, const std::string& what);
  void mark_written(int peer);

  // ---- long-lived objects on the same file ----------------------------------------------------------
  Result open_peers();
  struct Item
  {
    int kind;
    int s, a, v, t, k;     // the coordinates the kind uses
    long start, end;       // first byte of its first bin, one past the last byte of its last bin
    std::size_t first_idx; // reference index of its first bin
  };
  Item resolve_item(int kind, int mode, const Peer& target, const json& op) const;
  //! slot 0 is the object under test, slots 1..3 the long-lived objects (modulo how many there are)
  std::size_t slot_to_peer(long slot) const { return slot == 0 || peers.size() < 2 ? 0 : 1 + std::size_t(slot - 1) % (peers.size() - 1); }
  Result op_xread(const json& op, std::size_t opno, const std::string& tag);
  Result op_xwrite(const json& op, std::size_t opno, const std::string& tag);

  // ---- operations ---------------------------------------------------------------------------------
  Result run_op(const json& op, std::size_t opno);
  Result op_oob(const json& op, const std::string& tag);
  Result op_header(const std::string& tag, int sel);
  Result op_write_to_file(const std::string& tag, int sel);
  Result op_subset(ProjData& r, const json& op, const std::string& tag);
  Result learn_iteration_order(const std::string& tag);

  float get_bin(ProjData& r, const Bin& b) const
  {
    if (auto m = dynamic_cast<ProjDataInMemory*>(&r))
      {
        Bin bb = b;
        return m->get_bin_value(bb);
      }
    if (auto f = dynamic_cast<ProjDataFromStream*>(&r))
      return f->get_bin_value(b);
    throw std::logic_error("C02 harness: reader has no get_bin_value");
  }
  void set_bin(const Bin& b)
  {
    if (mem)
      mem->set_bin_value(b);
    else
      pdfs->set_bin_value(b);
  }
  ProjDataFromStream::StorageOrder stir_order() const
  {
    return L.order == 0 ? ProjDataFromStream::Segment_View_AxialPos_TangPos : ProjDataFromStream::Segment_AxialPos_View_TangPos;
  }
};

// segment sequence from the permutation key: 0 = min..max (the constructors' default), 1 = 0,+1,-1,... , else a shuffle
std::vector<int>
segment_sequence(const Geo& g, long key)
{
  std::vector<int> seq;
  for (int s = g.min_seg; s <= g.max_seg; ++s)
    seq.push_back(s);
  if (key == 0)
    return seq;
  if (key == 1)
    {
      seq.clear();
      if (g.min_seg <= 0 && g.max_seg >= 0)
        seq.push_back(0);
      for (int k = 1; k <= std::max(g.max_seg, -g.min_seg); ++k)
        {
          if (k <= g.max_seg)
            seq.push_back(k);
          if (-k >= g.min_seg)
            seq.push_back(-k);
        }
      return seq;
    }
  vf::SplitMix r(uint64_t(key) * 7919ULL + 13ULL);
  for (std::size_t i = seq.size(); i > 1; --i)
    std::swap(seq[i - 1], seq[std::size_t(r.range(0, long(i) - 1))]);
  return seq;
}

// my own copy of the documented "standard segment sequence" [0,1,-1,2,-2,...] (ProjData.h:257-263), used for the
// documented order of fill_from()/copy_to()
std::vector<int>
standard_sequence(const Geo& g)
{
  return segment_sequence(g, 1);
}

Result
Run::setup()
{
  vg::quiet();
  try
    {
      scanner = vg::make_scanner(c["scanner"]);
      pdi = vg::make_pdi(scanner, c["pdi"]);
      // blocks geometries build their detector map lazily and may refuse the scanner only then
      // (GeometryBlocksOnCylindrical: "scanner configuration not accepted"): force it here, it is part of construction
      if (scanner->get_scanner_geometry() != "Cylindrical")
        (void)pdi->get_phi(Bin(0, 0, 0, 0));
    }
  catch (const std::exception& e)
    {
      return Result::reject(std::string("geometry rejected by STIR: ") + std::string(e.what()).substr(0, 60));
    }
  exam = make_exam(c["exam"]);
  geo_p.reset(new Geo(*pdi));
  const Geo& g = geo();
  backing = c["backing"].get<int>();
  stream_backed = backing != B_MEM;
  L.order = c["order"].get<int>() % 2;
  L.seq = segment_sequence(g, c["perm"].get<long>());
  L.type = int(c["type"].get<int>() % int(c02::types().size()));
  L.big_endian = c["big_endian"].get<bool>();
  L.scale = c["scale"].get<float>();
  L.offset = (backing == B_SSTREAM || backing == B_FSTREAM) ? c["offset"].get<long>() : 0;
  // ProjDataFromStream::set_* fail for float storage with a scale factor != 1: write_data() resets the scale to 1
  // when the types agree (write_data.inl:126-131) and set_viewgram etc. then see scale != scale_factor
  // (ProjDataFromStream.cxx:385).  "scale_factor is only used when reading" (ProjDataFromStream.h:188).
  if (L.td().id == NumericType::FLOAT)
    L.scale = 1.F;
  if (backing == B_MEM)
    {
      L = Layout();
      L.seq = standard_sequence(g);
    }
  {
    int ex = 0;
    wide_values = c.value("wide", false) && std::frexp(L.scale, &ex) == 0.5F;
    if (c.value("twin_info", false))
      pdi_twin = pdi->create_shared_clone();
  }
  ref.assign(g.n, 0.F);
  const bool tof = g.ntof() > 1;
  const NumericType nt(L.td().id);
  const ByteOrder bo(L.big_endian ? ByteOrder::big_endian : ByteOrder::little_endian);

  auto prefill = [&](std::ostream& o) {
    const std::string pre(static_cast<std::size_t>(L.offset), static_cast<char>(PRE));
    const std::string zeros(g.n * L.elsize(), '\0');
    const std::string guard(static_cast<std::size_t>(NGUARD), static_cast<char>(GUARD));
    o << pre << zeros << guard;
  };

  if (backing == B_MEM)
    {
      mem = new ProjDataInMemory(exam, pdi); // initialise_with_0 = true
      pd.reset(mem);
    }
  else if (backing == B_SSTREAM)
    {
      ss.reset(new std::stringstream(std::ios::in | std::ios::out | std::ios::binary));
      prefill(*ss);
      prefilled = true;
      pdfs = new ProjDataFromStream(exam, pdi, ss, std::streamoff(L.offset), L.seq, stir_order(), nt, bo, L.scale);
      pd.reset(pdfs);
    }
  else if (backing == B_FSTREAM)
    {
      const std::string stem = tmp.make("raw");
      data_path = stem + ".s";
      header_path = stem + ".hs";
      tmp.track(data_path);
      tmp.track(header_path);
      {
        std::ofstream o(data_path.c_str(), std::ios::binary | std::ios::trunc);
        prefill(o);
      }
      prefilled = true;
      shared_ptr<std::iostream> fs(new std::fstream(data_path.c_str(), std::ios::in | std::ios::out | std::ios::binary));
      if (!*fs)
        throw std::runtime_error("C02 harness: cannot open " + data_path);
      pdfs = new ProjDataFromStream(exam, pdi, fs, std::streamoff(L.offset), L.seq, stir_order(), nt, bo, L.scale);
      pd.reset(pdfs);
      // TOF + Segment_AxialPos_View_TangPos cannot be described by a header (interfile.cxx:1246 error()): the raw
      // stream is still exercised, without header operations
      if (!(tof && L.order == 1))
        {
          if (write_basic_interfile_PDFS_header(header_path, data_path, *pdfs) != Succeeded::yes)
            return Result::fail("write_basic_interfile_PDFS_header returned Succeeded::no");
          has_header = true;
        }
    }
  else
    {
      const std::string stem = tmp.make("pd");
      data_path = stem + ".s";
      header_path = stem + ".hs";
      tmp.track(data_path);
      tmp.track(header_path);
      readable = backing == B_INTERFILE_RW;
      const std::ios::openmode mode = readable ? (std::ios::in | std::ios::out | std::ios::trunc) : std::ios::out;
      try
        {
          pdfs = new ProjDataInterfile(exam, pdi, stem, mode, L.seq, stir_order(), nt, bo, L.scale);
        }
      catch (const std::exception& e)
        {
          if (tof && L.order == 1) // documented: write_basic_interfile_PDFS_header calls error() (interfile.cxx:1246)
            return Result::reject("TOF data with Segment_AxialPos_View_TangPos cannot be written with a header");
          throw;
        }
      pd.reset(pdfs);
      has_header = true;
      // a new file has no contents: the first operation of every history is a fill through the library
      vf::SplitMix g0(c["seed"].get<uint64_t>() ^ 0x5151ULL);
      const float v0 = value(g0);
      pd->fill(v0);
      std::fill(ref.begin(), ref.end(), v0);
      C02_TRY(check_bytes("initial fill"));
    }

  // symmetries for the related-viewgram paths
  symm.reset(new TrivialDataSymmetriesForViewSegmentNumbers);
  // (PET symmetries relate segment s to -s: with a segment range that is not symmetric the related set would leave the data;
  //  the trivial symmetries are used there and the case is counted)
  if (c["sym"].get<int>() == 1 && g.min_seg != -g.max_seg)
    vf::stats().count("segment range not symmetric: trivial symmetries instead of PET symmetries");
  else if (c["sym"].get<int>() == 1)
    {
      try
        {
          shared_ptr<DiscretisedDensity<3, float>> im = vg::make_image(c["image"], *pdi);
          symm.reset(new DataSymmetriesForBins_PET_CartesianGrid(pdi, im));
          symm_is_pet = true;
        }
      catch (const std::exception&)
        { // the symmetries class rejects the geometry (documented error()s in its constructor): trivial symmetries instead
          vf::stats().count("PET symmetries not constructible, trivial used");
        }
    }
  shadow = ref;
  written_clock.assign(g.n, 0);
  written_by.assign(g.n, 0);
  return open_peers();
}

// ---- long-lived objects on the same file ------------------------------------------------------------
// Opened ONCE, after the file has its full length (prefilled raw file / initial fill of a new Interfile pair), while the
// writer is alive and unclosed, and kept open for the rest of the history.
Result
Run::open_peers()
{
  const Geo& g = geo();
  Peer self;
  self.p = pd;
  self.f = pdfs;
  self.kind = PK_MAIN;
  self.can_read = readable;
  self.can_write = true;
  self.cur_start = self.cur_end = L.offset;
  peers.push_back(self);
  if (!file_backed())
    return Result::pass();
  // element number in the stream -> bin, by inverting my own layout function
  pos2bin.assign(g.n, BinC{ 0, 0, 0, 0, 0 });
  std::vector<char> hit(g.n, 0);
  for (int s = g.min_seg; s <= g.max_seg; ++s)
    for (int a = g.minax(s); a <= g.maxax(s); ++a)
      for (int v = g.min_view; v <= g.max_view; ++v)
        for (int t = g.min_tang; t <= g.max_tang; ++t)
          for (int k = g.min_tof; k <= g.max_tof; ++k)
            {
              const std::size_t e = (c02::byte_pos(g, L, s, a, v, t, k) - std::size_t(L.offset)) / L.elsize();
              if (e >= g.n || hit[e])
                throw std::logic_error("C02 harness: layout function is not a bijection");
              hit[e] = 1;
              pos2bin[e] = BinC{ s, a, v, t, k };
            }
  if (!c.contains("readers"))
    return Result::pass();
  const NumericType nt(L.td().id);
  const ByteOrder bo(L.big_endian ? ByteOrder::big_endian : ByteOrder::little_endian);
  for (const auto& jk : c["readers"])
    {
      if (peers.size() >= 4)
        break;
      int kind = int(jk.get<long>() % 4);
      // raw streams that cannot have a header (TOF + Segment_AxialPos_View_TangPos): the stream kinds instead
      if (!has_header && kind == PK_HDR_RO)
        kind = PK_STREAM_RO;
      if (!has_header && kind == PK_HDR_RW)
        kind = PK_STREAM_RW;
      Peer q;
      q.kind = kind;
      q.can_read = true;
      q.can_write = kind == PK_HDR_RW || kind == PK_STREAM_RW;
      q.cur_start = q.cur_end = L.offset;
      if (kind == PK_HDR_RO || kind == PK_HDR_RW)
        {
          q.p = ProjData::read_from_file(header_path, kind == PK_HDR_RW ? (std::ios::in | std::ios::out) : std::ios::in);
          VF_CHECK(!is_null_ptr(q.p), "opening a ", peer_kind_names[kind + 1], ": read_from_file returned null");
        }
      else
        {
          const std::ios::openmode mode
              = kind == PK_STREAM_RW ? (std::ios::in | std::ios::out | std::ios::binary) : (std::ios::in | std::ios::binary);
          shared_ptr<std::iostream> fs(new std::fstream(data_path.c_str(), mode));
          if (!*fs)
            throw std::runtime_error("C02 harness: cannot open " + data_path + " for a long-lived object");
          q.p.reset(new ProjDataFromStream(exam, pdi, fs, std::streamoff(L.offset), L.seq, stir_order(), nt, bo, L.scale));
        }
      q.f = dynamic_cast<ProjDataFromStream*>(q.p.get());
      VF_CHECK(q.f != nullptr, "a ", peer_kind_names[kind + 1], " is not a ProjDataFromStream");
      peers.push_back(q);
      vf::stats().count(std::string("opened: ") + peer_kind_names[kind + 1]);
    }
  return Result::pass();
}

// the bins a write changed get the current event number and the writer (statistics of the interleavings only)
void
Run::mark_written(int peer)
{
  ++clock_;
  for (std::size_t i = 0; i < ref.size(); ++i)
    if (std::memcmp(&ref[i], &shadow[i], sizeof(float)) != 0)
      {
        written_clock[i] = clock_;
        written_by[i] = peer;
      }
  shadow = ref;
}

// ---- whole-data read back -------------------------------------------------------------------------
Result
Run::read_all(ProjData& r, int& path, std::vector<float>& got, const std::string& after)
{
  const Geo& g = geo();
  got.assign(g.n, std::numeric_limits<float>::quiet_NaN());
  if (path == P_ITER && !dynamic_cast<ProjDataInMemory*>(&r))
    path = P_COPY_TO;
  if (path == P_ITER && iter_pos_to_idx.empty())
    path = P_COPY_TO;
  const std::string where = vf::cat(after, " [read back through ", path_names[path], "]");
  switch (path)
    {
    case P_BIN:
      for (int s = g.min_seg; s <= g.max_seg; ++s)
        for (int a = g.minax(s); a <= g.maxax(s); ++a)
          for (int v = g.min_view; v <= g.max_view; ++v)
            for (int t = g.min_tang; t <= g.max_tang; ++t)
              for (int k = g.min_tof; k <= g.max_tof; ++k)
                got[g.idx(s, a, v, t, k)] = get_bin(r, Bin(s, v, a, t, k));
      break;
    case P_VIEWGRAM:
    case P_RELATED:
      for (int k = g.min_tof; k <= g.max_tof; ++k)
        for (int s = g.min_seg; s <= g.max_seg; ++s)
          for (int v = g.min_view; v <= g.max_view; ++v)
            {
              if (path == P_VIEWGRAM)
                {
                  const Viewgram<float> vg_ = (v + s + k) % 2 ? r.get_viewgram(v, s, false, k) : r.get_viewgram(ViewgramIndices(v, s, k));
                  VF_CHECK(vg_.get_view_num() == v && vg_.get_segment_num() == s && vg_.get_timing_pos_num() == k, where,
                           ": viewgram labelled (view=", vg_.get_view_num(), ",seg=", vg_.get_segment_num(), ",tof=", vg_.get_timing_pos_num(),
                           ") returned for (", v, ",", s, ",", k, ")");
                  VF_CHECK(vg_.get_min_axial_pos_num() == g.minax(s) && vg_.get_max_axial_pos_num() == g.maxax(s)
                               && vg_.get_min_tangential_pos_num() == g.min_tang && vg_.get_max_tangential_pos_num() == g.max_tang,
                           where, ": viewgram index ranges");
                  for (int a = g.minax(s); a <= g.maxax(s); ++a)
                    for (int t = g.min_tang; t <= g.max_tang; ++t)
                      got[g.idx(s, a, v, t, k)] = vg_[a][t];
                }
              else
                {
                  // every bin is visited through the related set of its own viewgram (sets overlap; all must agree)
                  ViewSegmentNumbers basic(v, s, k);
                  symm->find_basic_view_segment_numbers(basic);
                  basic.timing_pos_num() = k;
                  if (!(basic == ViewgramIndices(v, s, k)))
                    continue; // read when its basic viewgram comes along
                  const RelatedViewgrams<float> rv = r.get_related_viewgrams(basic, symm, false, k);
                  for (auto it = rv.begin(); it != rv.end(); ++it)
                    {
                      const int vv = it->get_view_num(), sv = it->get_segment_num();
                      VF_CHECK(it->get_timing_pos_num() == k, where, ": related viewgram has TOF index ", it->get_timing_pos_num(),
                               ", asked for ", k);
                      VF_CHECK(sv >= g.min_seg && sv <= g.max_seg && vv >= g.min_view && vv <= g.max_view, where,
                               ": related viewgram outside the data");
                      for (int a = g.minax(sv); a <= g.maxax(sv); ++a)
                        for (int t = g.min_tang; t <= g.max_tang; ++t)
                          got[g.idx(sv, a, vv, t, k)] = (*it)[a][t];
                    }
                }
            }
      break;
    case P_SINOGRAM:
      for (int k = g.min_tof; k <= g.max_tof; ++k)
        for (int s = g.min_seg; s <= g.max_seg; ++s)
          for (int a = g.minax(s); a <= g.maxax(s); ++a)
            {
              const Sinogram<float> sn = (a + s + k) % 2 ? r.get_sinogram(a, s, false, k) : r.get_sinogram(SinogramIndices(a, s, k));
              VF_CHECK(sn.get_axial_pos_num() == a && sn.get_segment_num() == s && sn.get_timing_pos_num() == k, where,
                       ": sinogram labelled differently from the request");
              VF_CHECK(sn.get_min_view_num() == g.min_view && sn.get_max_view_num() == g.max_view
                           && sn.get_min_tangential_pos_num() == g.min_tang && sn.get_max_tangential_pos_num() == g.max_tang,
                       where, ": sinogram index ranges");
              for (int v = g.min_view; v <= g.max_view; ++v)
                for (int t = g.min_tang; t <= g.max_tang; ++t)
                  got[g.idx(s, a, v, t, k)] = sn[v][t];
            }
      break;
    case P_SEG_VIEW:
      for (int k = g.min_tof; k <= g.max_tof; ++k)
        for (int s = g.min_seg; s <= g.max_seg; ++s)
          {
            const SegmentByView<float> sg = (s + k) % 2 ? r.get_segment_by_view(s, k) : r.get_segment_by_view(SegmentIndices(s, k));
            VF_CHECK(sg.get_segment_num() == s && sg.get_timing_pos_num() == k, where, ": segment labelled differently from the request");
            VF_CHECK(sg.get_min_view_num() == g.min_view && sg.get_max_view_num() == g.max_view && sg.get_min_axial_pos_num() == g.minax(s)
                         && sg.get_max_axial_pos_num() == g.maxax(s) && sg.get_min_tangential_pos_num() == g.min_tang
                         && sg.get_max_tangential_pos_num() == g.max_tang,
                     where, ": segment-by-view index ranges");
            for (int v = g.min_view; v <= g.max_view; ++v)
              for (int a = g.minax(s); a <= g.maxax(s); ++a)
                for (int t = g.min_tang; t <= g.max_tang; ++t)
                  got[g.idx(s, a, v, t, k)] = sg[v][a][t];
          }
      break;
    case P_SEG_SINO:
      for (int k = g.min_tof; k <= g.max_tof; ++k)
        for (int s = g.min_seg; s <= g.max_seg; ++s)
          {
            const SegmentBySinogram<float> sg
                = (s + k) % 2 ? r.get_segment_by_sinogram(s, k) : r.get_segment_by_sinogram(SegmentIndices(s, k));
            VF_CHECK(sg.get_segment_num() == s && sg.get_timing_pos_num() == k, where, ": segment labelled differently from the request");
            VF_CHECK(sg.get_min_view_num() == g.min_view && sg.get_max_view_num() == g.max_view && sg.get_min_axial_pos_num() == g.minax(s)
                         && sg.get_max_axial_pos_num() == g.maxax(s) && sg.get_min_tangential_pos_num() == g.min_tang
                         && sg.get_max_tangential_pos_num() == g.max_tang,
                     where, ": segment-by-sinogram index ranges");
            for (int a = g.minax(s); a <= g.maxax(s); ++a)
              for (int v = g.min_view; v <= g.max_view; ++v)
                for (int t = g.min_tang; t <= g.max_tang; ++t)
                  got[g.idx(s, a, v, t, k)] = sg[a][v][t];
          }
      break;
    case P_COPY_TO: {
      // documented order (ProjData.h:303-311): TOF slowest (from - to +), standard segment sequence, SegmentBySinogram
      std::vector<float> flat(g.n + 4, -777.F);
      auto end = r.copy_to(flat.begin());
      VF_CHECK(std::size_t(end - flat.begin()) == g.n, where, ": copy_to advanced the iterator by ", long(end - flat.begin()), " of ", g.n);
      std::size_t p = 0;
      for (int k = g.min_tof; k <= g.max_tof; ++k)
        for (int s : standard_sequence(g))
          for (int a = g.minax(s); a <= g.maxax(s); ++a)
            for (int v = g.min_view; v <= g.max_view; ++v)
              for (int t = g.min_tang; t <= g.max_tang; ++t)
                got[g.idx(s, a, v, t, k)] = flat[p++];
      for (std::size_t q = g.n; q < flat.size(); ++q)
        VF_CHECK(flat[q] == -777.F, where, ": copy_to wrote beyond the advertised end");
      break;
    }
    case P_ITER: {
      const ProjDataInMemory& m = dynamic_cast<const ProjDataInMemory&>(r);
      std::size_t p = 0;
      for (auto it = m.begin_all(); it != m.end_all(); ++it, ++p)
        {
          VF_CHECK(p < g.n, where, ": iteration visits more than size_all() elements");
          got[iter_pos_to_idx[p]] = *it;
        }
      VF_CHECK(p == g.n, where, ": iteration visited ", p, " of ", g.n, " elements");
      break;
    }
    default:
      throw std::logic_error("C02 harness: bad path");
    }
  return Result::pass();
}

Result
Run::compare_object(ProjData& r, int path, const std::string& how)
{
  const Geo& g = geo();
  std::vector<float> got;
  C02_TRY(read_all(r, path, got, how));
  VF_CHECK(r.size_all() == g.n, how, ": size_all() ", r.size_all(), " expected ", g.n);
  for (int s = g.min_seg; s <= g.max_seg; ++s)
    for (int a = g.minax(s); a <= g.maxax(s); ++a)
      for (int v = g.min_view; v <= g.max_view; ++v)
        for (int t = g.min_tang; t <= g.max_tang; ++t)
          for (int k = g.min_tof; k <= g.max_tof; ++k)
            {
              const std::size_t i = g.idx(s, a, v, t, k);
              if (!(got[i] == ref[i]))
                return Result::fail(vf::cat(how, " through ", path_names[path], ": bin ", g.name(s, a, v, t, k), " reads ", got[i],
                                            ", reference has ", ref[i], " (backing ", backing_names[backing], ", order ", L.order,
                                            ", type ", L.td().name, ", scale ", L.scale, ")"));
            }
  vf::stats().count(std::string("full read-backs via ") + path_names[path]);
  return Result::pass();
}

Result
Run::compare_all(int sel, const std::string& after, bool allow_long_lived)
{
  int path = sel % N_PATHS;
  const int who = (sel / N_PATHS) % 3;
  bool second = who == 0; // a third of the read-backs use a second object (freshly opened) on the same file
  // another third goes through one of the long-lived objects when the history has them (after the writes of the
  // original operations and at the end of the history)
  if (allow_long_lived && who == 1 && peers.size() > 1)
    {
      Peer& q = peers[1 + std::size_t(sel / (3 * N_PATHS) + nwrites) % (peers.size() - 1)];
      q.exact = q.wrote_last = false;
      vf::stats().count("full read-backs through a long-lived object on the same file");
      return compare_object(*q.p, path, vf::cat(after, " [", peer_kind_names[q.kind + 1], ", opened at the start of the history]"));
    }
  if (!readable)
    second = true;
  if (second && !can_second_reader())
    second = false; // (raw streams without header; write-only data always have a header)
  shared_ptr<ProjData> other;
  ProjData* r = pd.get();
  std::string how = after;
  if (second)
    {
      other = second_reader();
      r = other.get();
      how += " [second object from read_from_file]";
      vf::stats().count("read-backs through a second object on the same file");
    }
  else if (!peers.empty())
    peers[0].exact = peers[0].wrote_last = false;
  return compare_object(*r, path, how);
}

// ---- the independent reader of the raw bytes ----------------------------------------------------
Result
Run::check_bytes(const std::string& after)
{
  if (!stream_backed)
    return Result::pass();
  const Geo& g = geo();
  std::string bytes;
  if (backing == B_SSTREAM)
    bytes = ss->str();
  else
    {
      // a different stream object on the same file while the writer is alive and unclosed
      std::ifstream f(data_path.c_str(), std::ios::binary);
      VF_CHECK(bool(f), after, ": independent reader cannot open ", data_path);
      std::ostringstream o;
      o << f.rdbuf();
      bytes = o.str();
    }
  const std::size_t expect = std::size_t(L.offset) + g.n * L.elsize() + (prefilled ? std::size_t(NGUARD) : 0);
  VF_CHECK(bytes.size() == expect, after, ": independent reader sees ", bytes.size(), " bytes in the data stream, expected ", expect,
           " (backing ", backing_names[backing], ")");
  const unsigned char* p = reinterpret_cast<const unsigned char*>(bytes.data());
  for (long i = 0; i < L.offset; ++i)
    VF_CHECK(p[i] == PRE, after, ": byte ", i, " in front of the data (stream offset ", L.offset, ") was overwritten");
  if (prefilled)
    for (int i = 0; i < NGUARD; ++i)
      VF_CHECK(p[expect - NGUARD + std::size_t(i)] == GUARD, after, ": byte ", i, " behind the data was overwritten");
  for (int s = g.min_seg; s <= g.max_seg; ++s)
    for (int a = g.minax(s); a <= g.maxax(s); ++a)
      for (int v = g.min_view; v <= g.max_view; ++v)
        for (int t = g.min_tang; t <= g.max_tang; ++t)
          for (int k = g.min_tof; k <= g.max_tof; ++k)
            {
              const std::size_t pos = c02::byte_pos(g, L, s, a, v, t, k);
              const float f = c02::decode(p + pos, L);
              if (!(f == ref[g.idx(s, a, v, t, k)]))
                return Result::fail(vf::cat(after, ": independent reader of the data stream finds ", f, " for bin ", g.name(s, a, v, t, k),
                                            " at byte ", pos, ", reference has ", ref[g.idx(s, a, v, t, k)], " (backing ",
                                            backing_names[backing], ", order ", L.order, ", type ", L.td().name,
                                            L.big_endian ? " big-endian" : " little-endian", ", scale ", L.scale, ", offset ", L.offset,
                                            ") - not flushed or wrong layout"));
            }
  vf::stats().count("byte-level checks of the data stream");
  return Result::pass();
}

Result
Run::after_write(const json& op, const std::string& what)
{
  ++nwrites;
  mark_written(0);
  C02_TRY(check_bytes(what));
  return compare_all(op[7].get<int>(), what, true);
}

// ---- iteration order of ProjDataInMemory::begin_all() ----------------------------------------------
// The class does not document the order in which begin_all() visits the bins.  The property only needs the
// iteration to be a fixed bijection onto the bins: it is learned once (distinct values written through the
// iterator, bins identified through get_sinogram) and must then stay the same for the rest of the history.
Result
Run::learn_iteration_order(const std::string& tag)
{
  const Geo& g = geo();
  std::size_t p = 0;
  for (auto it = mem->begin_all(); it != mem->end_all(); ++it, ++p)
    {
      VF_CHECK(p < g.n, tag, ": iteration visits more than size_all() elements");
      *it = float(p + 1);
    }
  VF_CHECK(p == g.n, tag, ": begin_all()..end_all() visits ", p, " of ", g.n, " elements");
  std::vector<std::size_t> map(g.n, g.n);
  std::vector<char> hit(g.n, 0);
  for (int k = g.min_tof; k <= g.max_tof; ++k)
    for (int s = g.min_seg; s <= g.max_seg; ++s)
      for (int a = g.minax(s); a <= g.maxax(s); ++a)
        {
          const Sinogram<float> sn = mem->get_sinogram(a, s, false, k);
          for (int v = g.min_view; v <= g.max_view; ++v)
            for (int t = g.min_tang; t <= g.max_tang; ++t)
              {
                const float x = sn[v][t];
                const long q = long(x) - 1;
                VF_CHECK(q >= 0 && std::size_t(q) < g.n && float(q + 1) == x, tag, ": bin ", g.name(s, a, v, t, k), " reads ", x,
                         " which was not written through the iterator");
                VF_CHECK(!hit[std::size_t(q)], tag, ": element ", q, " of the iteration shows up in two bins (second: ", g.name(s, a, v, t, k), ")");
                hit[std::size_t(q)] = 1;
                map[std::size_t(q)] = g.idx(s, a, v, t, k);
              }
        }
  iter_pos_to_idx = map;
  for (std::size_t q = 0; q < g.n; ++q)
    ref[map[q]] = float(q + 1);
  // informational: does the order coincide with the documented copy_to() order?
  {
    std::size_t q = 0;
    bool same = true;
    for (int k = g.min_tof; k <= g.max_tof && same; ++k)
      for (int s : standard_sequence(g))
        for (int a = g.minax(s); a <= g.maxax(s); ++a)
          for (int v = g.min_view; v <= g.max_view; ++v)
            for (int t = g.min_tang; t <= g.max_tang; ++t)
              same = same && map[q++] == g.idx(s, a, v, t, k);
    vf::stats().count(same ? "begin_all order equals copy_to order" : "begin_all order differs from copy_to order");
  }
  return Result::pass();
}

// build a second projection data object with generated contents (source of fill(ProjData))
struct OtherData
{
  shared_ptr<ProjData> p;
  shared_ptr<std::stringstream> ss;
};

Result
Run::run_op(const json& op, std::size_t opno)
{
  const Geo& g = geo();
  const int code = op[0].get<int>();
  const long A = op[1].get<long>(), B = op[2].get<long>(), C = op[3].get<long>(), D = op[4].get<long>(), E = op[5].get<long>();
  const long V = op[6].get<long>();
  const int s = g.min_seg + int(A % g.nseg());
  const int a = g.minax(s) + int(B % g.nax(s));
  const int v = g.min_view + int(C % g.nviews());
  const int t = g.min_tang + int(D % g.ntang());
  const int k = g.min_tof + int(E % g.ntof());
  vf::SplitMix rng(c["seed"].get<uint64_t>() * 1000003ULL + uint64_t(V) * 7919ULL + opno);
  const std::string tag = vf::cat("op#", opno, " code ", code);
  vf::stats().count(vf::cat("op ", code < 10 ? "0" : "", code));
  if (code == X_READ)
    return op_xread(op, opno, tag);
  if (code == X_WRITE)
    return op_xwrite(op, opno, tag);
  if (!peers.empty())
    peers[0].exact = peers[0].wrote_last = false; // every other operation uses the stream of the object under test
  // reads go through the object itself, or through a second object on the same file for write-only data
  shared_ptr<ProjData> other_reader;
  auto reader = [&]() -> ProjData* {
    if (readable)
      return pd.get();
    if (!can_second_reader())
      return nullptr;
    other_reader = second_reader();
    return other_reader.get();
  };

  switch (code)
    {
    // ------------------------------------------------------------------ writes
    case W_BIN: {
      // (former findings N1: scale factor ignored, and L3: no flush, of ProjDataFromStream::set_bin_value are repaired;
      //  set_bin_value is a write path like the others: scaled like them, visible in the file when the call returns)
      const float x = value(rng);
      set_bin(Bin(s, v, a, t, k, x));
      ref[g.idx(s, a, v, t, k)] = x;
      if (stream_backed && L.scale != 1.F)
        vf::stats().count("set_bin_value on a stream with scale factor != 1");
      if (file_backed())
        vf::stats().count("set_bin_value on a file (flush observed by the independent reader)");
      return after_write(op, vf::cat(tag, " set_bin_value", g.name(s, a, v, t, k), "=", x));
    }
    case W_VIEWGRAM: {
      // (twin: the viewgram belongs to an EQUAL ProjDataInfo held by another object; set_viewgram documents a comparison of the
      //  infos, not of the pointers)
      const bool twin = pdi_twin && V % 4 == 2;
      if (twin)
        vf::stats().count("set_viewgram/set_sinogram with an item of an equal ProjDataInfo in another object");
      Viewgram<float> vw = V % 2 ? pd->get_empty_viewgram(v, s, false, k) : Viewgram<float>(twin ? pdi_twin : pdi, ViewgramIndices(v, s, k));
      for (int aa = g.minax(s); aa <= g.maxax(s); ++aa)
        for (int tt = g.min_tang; tt <= g.max_tang; ++tt)
          ref[g.idx(s, aa, v, tt, k)] = vw[aa][tt] = value(rng);
      VF_CHECK(pd->set_viewgram(vw) == Succeeded::yes, tag, " set_viewgram returned Succeeded::no");
      return after_write(op, vf::cat(tag, " set_viewgram(view=", v, ",seg=", s, ",tof=", k, ")"));
    }
    case W_SINOGRAM: {
      const bool twin = pdi_twin && V % 4 == 2;
      if (twin)
        vf::stats().count("set_viewgram/set_sinogram with an item of an equal ProjDataInfo in another object");
      Sinogram<float> sn = V % 2 ? pd->get_empty_sinogram(a, s, false, k) : Sinogram<float>(twin ? pdi_twin : pdi, SinogramIndices(a, s, k));
      for (int vv = g.min_view; vv <= g.max_view; ++vv)
        for (int tt = g.min_tang; tt <= g.max_tang; ++tt)
          ref[g.idx(s, a, vv, tt, k)] = sn[vv][tt] = value(rng);
      VF_CHECK(pd->set_sinogram(sn) == Succeeded::yes, tag, " set_sinogram returned Succeeded::no");
      return after_write(op, vf::cat(tag, " set_sinogram(ax=", a, ",seg=", s, ",tof=", k, ")"));
    }
    case W_SEG_VIEW: {
      SegmentByView<float> sg = pd->get_empty_segment_by_view(s, false, k);
      for (int vv = g.min_view; vv <= g.max_view; ++vv)
        for (int aa = g.minax(s); aa <= g.maxax(s); ++aa)
          for (int tt = g.min_tang; tt <= g.max_tang; ++tt)
            ref[g.idx(s, aa, vv, tt, k)] = sg[vv][aa][tt] = value(rng);
      VF_CHECK(pd->set_segment(sg) == Succeeded::yes, tag, " set_segment(by view) returned Succeeded::no");
      return after_write(op, vf::cat(tag, " set_segment by view(seg=", s, ",tof=", k, ")"));
    }
    case W_SEG_SINO: {
      SegmentBySinogram<float> sg = pd->get_empty_segment_by_sinogram(s, false, k);
      for (int aa = g.minax(s); aa <= g.maxax(s); ++aa)
        for (int vv = g.min_view; vv <= g.max_view; ++vv)
          for (int tt = g.min_tang; tt <= g.max_tang; ++tt)
            ref[g.idx(s, aa, vv, tt, k)] = sg[aa][vv][tt] = value(rng);
      VF_CHECK(pd->set_segment(sg) == Succeeded::yes, tag, " set_segment(by sinogram) returned Succeeded::no");
      return after_write(op, vf::cat(tag, " set_segment by sinogram(seg=", s, ",tof=", k, ")"));
    }
    case W_RELATED: {
      ViewSegmentNumbers basic(v, s, k);
      symm->find_basic_view_segment_numbers(basic);
      basic.timing_pos_num() = k;
      RelatedViewgrams<float> rv = pd->get_empty_related_viewgrams(basic, symm, false, k);
      std::vector<ViewgramIndices> seen;
      for (auto it = rv.begin(); it != rv.end(); ++it)
        {
          const int vv = it->get_view_num(), sv = it->get_segment_num();
          VF_CHECK(it->get_timing_pos_num() == k, tag, ": empty related viewgram has TOF index ", it->get_timing_pos_num(), ", asked for ", k);
          VF_CHECK(sv >= g.min_seg && sv <= g.max_seg && vv >= g.min_view && vv <= g.max_view, tag, ": related viewgram outside the data");
          VF_CHECK(std::find(seen.begin(), seen.end(), it->get_viewgram_indices()) == seen.end(), tag, ": related set lists a viewgram twice");
          seen.push_back(it->get_viewgram_indices());
          for (int aa = g.minax(sv); aa <= g.maxax(sv); ++aa)
            for (int tt = g.min_tang; tt <= g.max_tang; ++tt)
              ref[g.idx(sv, aa, vv, tt, k)] = (*it)[aa][tt] = value(rng);
        }
      VF_CHECK(pd->set_related_viewgrams(rv) == Succeeded::yes, tag, " set_related_viewgrams returned Succeeded::no");
      vf::stats().count(symm_is_pet ? "related viewgram ops with PET symmetries" : "related viewgram ops with trivial symmetries");
      vf::stats().maxi("max related viewgrams in one set", double(seen.size()));
      return after_write(op, vf::cat(tag, " set_related_viewgrams(basic view=", basic.view_num(), ",seg=", basic.segment_num(), ",tof=", k, ")"));
    }
    case W_FILL_VALUE: {
      const float x = value(rng);
      pd->fill(x);
      std::fill(ref.begin(), ref.end(), x);
      return after_write(op, vf::cat(tag, " fill(", x, ")"));
    }
    case W_FILL_OTHER: {
      // source: in memory with the same info; in memory with a larger segment range ("the source can have more",
      // ProjData.h:251-254); or a stream with the other storage order and a reversed segment sequence
      shared_ptr<ProjDataInfo> src_info = pdi;
      int kind = int(V % 3);
      if (kind == 1)
        {
          shared_ptr<ProjDataInfo> full = vg::make_pdi(scanner, [&] {
            json j = c["pdi"];
            if (j["trim"].contains("max_seg"))
              j["trim"]["max_seg"] = 1000;
            return j;
          }());
          if (full->get_max_segment_num() > g.max_seg)
            src_info = full;
          else
            kind = 0;
        }
      const Geo sg_(*src_info);
      shared_ptr<ProjData> src;
      shared_ptr<std::stringstream> sss;
      if (kind == 2)
        {
          sss.reset(new std::stringstream(std::ios::in | std::ios::out | std::ios::binary));
          *sss << std::string(sg_.n * sizeof(float), '\0');
          std::vector<int> seq = L.seq;
          std::reverse(seq.begin(), seq.end());
          src.reset(new ProjDataFromStream(exam, src_info, sss, 0, seq,
                                           L.order == 0 ? ProjDataFromStream::Segment_AxialPos_View_TangPos
                                                        : ProjDataFromStream::Segment_View_AxialPos_TangPos));
        }
      else
        src.reset(new ProjDataInMemory(exam, src_info));
      for (int kk = sg_.min_tof; kk <= sg_.max_tof; ++kk)
        for (int s2 = sg_.min_seg; s2 <= sg_.max_seg; ++s2)
          {
            SegmentBySinogram<float> sg = src->get_empty_segment_by_sinogram(s2, false, kk);
            for (int aa = sg_.minax(s2); aa <= sg_.maxax(s2); ++aa)
              for (int vv = sg_.min_view; vv <= sg_.max_view; ++vv)
                for (int tt = sg_.min_tang; tt <= sg_.max_tang; ++tt)
                  {
                    const float x = value(rng);
                    sg[aa][vv][tt] = x;
                    if (s2 >= g.min_seg && s2 <= g.max_seg)
                      ref[g.idx(s2, aa, vv, tt, kk)] = x;
                  }
            if (src->set_segment(sg) != Succeeded::yes)
              return Result::fail(tag + " preparing the source of fill(ProjData): set_segment failed");
          }
      pd->fill(*src);
      vf::stats().count(vf::cat("fill(ProjData) source kind ", kind));
      return after_write(op, vf::cat(tag, " fill(ProjData) source kind ", kind));
    }
    case W_ITER: {
      if (mem && V % 2 == 0)
        {
          if (iter_pos_to_idx.empty())
            {
              C02_TRY(learn_iteration_order(tag + " first write through begin_all()"));
              return after_write(op, tag + " first write through begin_all()");
            }
          std::size_t p = 0;
          for (auto it = mem->begin_all(); it != mem->end_all(); ++it, ++p)
            {
              VF_CHECK(p < g.n, tag, ": iteration visits more than size_all() elements");
              ref[iter_pos_to_idx[p]] = *it = value(rng);
            }
          VF_CHECK(p == g.n, tag, ": iteration visited ", p, " of ", g.n);
          return after_write(op, tag + " write through begin_all()");
        }
      // fill_from: documented order (ProjData.h:265-279)
      std::vector<float> flat(g.n);
      std::size_t p = 0;
      for (int kk = g.min_tof; kk <= g.max_tof; ++kk)
        for (int s2 : standard_sequence(g))
          for (int aa = g.minax(s2); aa <= g.maxax(s2); ++aa)
            for (int vv = g.min_view; vv <= g.max_view; ++vv)
              for (int tt = g.min_tang; tt <= g.max_tang; ++tt)
                ref[g.idx(s2, aa, vv, tt, kk)] = flat[p++] = value(rng);
      auto end = pd->fill_from(flat.begin());
      VF_CHECK(end == flat.end(), tag, ": fill_from advanced the iterator by ", long(end - flat.begin()), " of ", g.n);
      return after_write(op, tag + " fill_from(iterator)");
    }
    case W_ARITH: {
      // in-place arithmetic re-reads and re-writes every segment (ProjData.cxx:560-632): needs readable float storage
      if (!readable || !is_float_like() || (stream_backed && L.scale != 1.F))
        return Result::pass();
      static const float muls[] = { 2.F, 0.5F, -1.F, 1.F, 0.F, 3.F };
      const int which = int(V % 4);
      if (which == 0)
        {
          const float x = float(rng.range(-40, 40)) * 0.25F;
          *pd += x;
          for (auto& r : ref)
            r += x;
        }
      else if (which == 1)
        {
          const float x = float(rng.range(-40, 40)) * 0.25F;
          *pd -= x;
          for (auto& r : ref)
            r -= x;
        }
      else if (which == 2)
        {
          const float x = muls[rng.range(0, 5)];
          *pd *= x;
          for (auto& r : ref)
            r *= x;
        }
      else
        {
          const float x = muls[rng.range(0, 2)];
          *pd /= x;
          for (auto& r : ref)
            r /= x;
        }
      // keep magnitudes bounded so that long histories cannot overflow to inf
      float mx = 0;
      for (auto r : ref)
        mx = std::max(mx, std::fabs(r));
      if (mx > 1e20F)
        {
          pd->fill(1.F);
          std::fill(ref.begin(), ref.end(), 1.F);
        }
      return after_write(op, vf::cat(tag, " in-place arithmetic kind ", which));
    }
    // ------------------------------------------------------------------ reads of one piece
    case R_BIN:
    case R_VIEWGRAM:
    case R_SINOGRAM:
    case R_SEG_VIEW:
    case R_SEG_SINO:
    case R_RELATED:
    case R_SUBSET:
    case R_ITER:
    case R_ALL: {
      ProjData* r = reader();
      if (!r)
        return Result::pass();
      if (code == R_ALL)
        return compare_all(op[7].get<int>(), tag + " explicit full read");
      if (code == R_SUBSET)
        return op_subset(*r, op, tag);
      if (code == R_ITER)
        return compare_all((V % 2 ? P_ITER : P_COPY_TO) + N_PATHS, tag + " iteration read");
      if (code == R_BIN)
        {
          const float x = get_bin(*r, Bin(s, v, a, t, k));
          VF_CHECK(x == ref[g.idx(s, a, v, t, k)], tag, " get_bin_value", g.name(s, a, v, t, k), " = ", x, ", reference ", ref[g.idx(s, a, v, t, k)]);
          return Result::pass();
        }
      if (code == R_VIEWGRAM)
        {
          const Viewgram<float> vw = r->get_viewgram(v, s, false, k);
          for (int aa = g.minax(s); aa <= g.maxax(s); ++aa)
            for (int tt = g.min_tang; tt <= g.max_tang; ++tt)
              VF_CHECK(vw[aa][tt] == ref[g.idx(s, aa, v, tt, k)], tag, " get_viewgram: bin ", g.name(s, aa, v, tt, k), " = ", vw[aa][tt],
                       ", reference ", ref[g.idx(s, aa, v, tt, k)]);
          return Result::pass();
        }
      if (code == R_SINOGRAM)
        {
          const Sinogram<float> sn = r->get_sinogram(a, s, false, k);
          for (int vv = g.min_view; vv <= g.max_view; ++vv)
            for (int tt = g.min_tang; tt <= g.max_tang; ++tt)
              VF_CHECK(sn[vv][tt] == ref[g.idx(s, a, vv, tt, k)], tag, " get_sinogram: bin ", g.name(s, a, vv, tt, k), " = ", sn[vv][tt],
                       ", reference ", ref[g.idx(s, a, vv, tt, k)]);
          return Result::pass();
        }
      if (code == R_SEG_VIEW || code == R_SEG_SINO)
        {
          const SegmentByView<float> sv = code == R_SEG_VIEW ? r->get_segment_by_view(s, k) : SegmentByView<float>(r->get_segment_by_sinogram(s, k));
          const SegmentBySinogram<float> ssn = code == R_SEG_SINO ? r->get_segment_by_sinogram(s, k) : SegmentBySinogram<float>(sv);
          // (the other one is the library's transposition of the one that was read: both must show the reference)
          for (int aa = g.minax(s); aa <= g.maxax(s); ++aa)
            for (int vv = g.min_view; vv <= g.max_view; ++vv)
              for (int tt = g.min_tang; tt <= g.max_tang; ++tt)
                {
                  const float x = ref[g.idx(s, aa, vv, tt, k)];
                  VF_CHECK(sv[vv][aa][tt] == x && ssn[aa][vv][tt] == x, tag, " segment read: bin ", g.name(s, aa, vv, tt, k), " by view ",
                           sv[vv][aa][tt], " by sinogram ", ssn[aa][vv][tt], ", reference ", x);
                }
          return Result::pass();
        }
      // R_RELATED
      {
        ViewSegmentNumbers basic(v, s, k);
        symm->find_basic_view_segment_numbers(basic);
        basic.timing_pos_num() = k;
        // N2 (notes; lead L5): the defaulted 4th argument timing_pos=0 overrides the TOF index of the ViewgramIndices
        const bool defaulted = V % 2 == 1;
        if (defaulted && k != 0 && !no_exclude("N2"))
          {
            vf::stats().excluded_known++;
            vf::stats().count("excluded N2: get_related_viewgrams(indices with TOF index != 0) with defaulted timing_pos");
            return Result::pass();
          }
        const RelatedViewgrams<float> rv = defaulted ? r->get_related_viewgrams(basic, symm) : r->get_related_viewgrams(basic, symm, false, k);
        bool has_requested = false;
        for (auto it = rv.begin(); it != rv.end(); ++it)
          {
            const int vv = it->get_view_num(), sv = it->get_segment_num(), kv = it->get_timing_pos_num();
            VF_CHECK(kv == k, tag, " get_related_viewgrams for indices (view=", basic.view_num(), ",seg=", basic.segment_num(), ",tof=", k,
                     ") returns a viewgram for TOF index ", kv);
            has_requested = has_requested || (vv == v && sv == s);
            for (int aa = g.minax(sv); aa <= g.maxax(sv); ++aa)
              for (int tt = g.min_tang; tt <= g.max_tang; ++tt)
                VF_CHECK((*it)[aa][tt] == ref[g.idx(sv, aa, vv, tt, kv)], tag, " get_related_viewgrams: bin ", g.name(sv, aa, vv, tt, kv), " = ",
                         (*it)[aa][tt], ", reference ", ref[g.idx(sv, aa, vv, tt, kv)]);
          }
        VF_CHECK(has_requested, tag, " the related set of the basic viewgram of (view=", v, ",seg=", s, ") does not contain it");
        return Result::pass();
      }
    }
    case E_OOB:
      return op_oob(op, tag);
    case H_HEADER:
    case H_WRITE_TO_FILE:
      // known finding N6: a header that lists an even number of segments trips assert(num_segments % 2 == 1) in
      // find_segment_sequence (InterfileHeader.cxx) when it is read back; in-memory / stringstream data with such a range keep
      // their histories, only the header operations are left out (VERIF_NO_EXCLUDE=N6 runs them)
      if (g.nseg() % 2 == 0 && !N6_ASSERTION_ONLY && !no_exclude("N6"))
        {
          vf::stats().count("excluded N6: header operation on data with an even number of segments left out");
          return Result::pass();
        }
      return code == H_HEADER ? op_header(tag, op[7].get<int>()) : op_write_to_file(tag, op[7].get<int>());
    default:
      return Result::pass(); // unknown codes are no-ops (keeps every mutated sequence valid)
    }
}

Result
Run::op_subset(ProjData& r, const json& op, const std::string& tag)
{
  const Geo& g = geo();
  // distinct views in a generated order (ProjDataInfoSubsetByView.cxx:39-65: non-empty, in range, unique)
  vf::SplitMix rng(uint64_t(op[6].get<long>()) * 31ULL + 5ULL);
  std::vector<int> all;
  for (int v = 0; v < g.nviews(); ++v)
    all.push_back(v);
  for (std::size_t i = all.size(); i > 1; --i)
    std::swap(all[i - 1], all[std::size_t(rng.range(0, long(i) - 1))]);
  const std::size_t nv = 1 + std::size_t(op[3].get<long>() % g.nviews());
  std::vector<int> views(all.begin(), all.begin() + std::ptrdiff_t(nv));
  if (g.min_view != 0)
    return Result::pass();
  unique_ptr<ProjDataInMemory> sub = r.get_subset(views);
  VF_CHECK(sub->get_num_views() == int(nv), tag, " get_subset: ", sub->get_num_views(), " views, asked for ", nv);
  VF_CHECK(sub->get_min_segment_num() == g.min_seg && sub->get_max_segment_num() == g.max_seg && sub->get_min_tof_pos_num() == g.min_tof
               && sub->get_max_tof_pos_num() == g.max_tof && sub->get_min_tangential_pos_num() == g.min_tang
               && sub->get_max_tangential_pos_num() == g.max_tang,
           tag, " get_subset: index ranges differ from the full data");
  for (int k = g.min_tof; k <= g.max_tof; ++k)
    for (int s = g.min_seg; s <= g.max_seg; ++s)
      for (std::size_t i = 0; i < nv; ++i)
        {
          const Viewgram<float> vw = sub->get_viewgram(int(i), s, false, k);
          for (int a = g.minax(s); a <= g.maxax(s); ++a)
            for (int t = g.min_tang; t <= g.max_tang; ++t)
              VF_CHECK(vw[a][t] == ref[g.idx(s, a, views[i], t, k)], tag, " get_subset: subset view ", i, " (= view ", views[i], ") bin ",
                       g.name(s, a, views[i], t, k), " = ", vw[a][t], ", reference ", ref[g.idx(s, a, views[i], t, k)]);
        }
  return Result::pass();
}

// ---- single items through the long-lived objects, addressed relative to the FILE ----------------------
// V = peer + 4*kind + 32*mode + 256*target (+ 1024: target = the object that does this operation, whatever slot it
// came from).  "peer" does the read/write, "target" is the object whose last item the relative modes refer to.  All numbers are taken modulo what exists, so every (sub)sequence is valid.
Run::Item
Run::resolve_item(int kind, int mode, const Peer& target, const json& op) const
{
  const Geo& g = geo();
  BinC b;
  if (mode == AM_ABS)
    {
      b.s = g.min_seg + int(op[1].get<long>() % g.nseg());
      b.a = g.minax(b.s) + int(op[2].get<long>() % g.nax(b.s));
      b.v = g.min_view + int(op[3].get<long>() % g.nviews());
      b.t = g.min_tang + int(op[4].get<long>() % g.ntang());
      b.k = g.min_tof + int(op[5].get<long>() % g.ntof());
    }
  else
    {
      const long el = long(L.elsize()), n = long(g.n);
      const long e_start = (target.cur_start - L.offset) / el, e_end = (target.cur_end - L.offset) / el;
      long e = 0;
      switch (mode)
        {
        case AM_NEXT:
          e = e_end;
          break;
        case AM_SAME:
          e = e_start;
          break;
        case AM_PREV:
          e = e_start - 1;
          break;
        case AM_NEXT2:
          e = e_end + (e_end - e_start);
          break;
        default:
          e = e_end + n / 2 + op[1].get<long>() % 7;
          break;
        }
      e = ((e % n) + n) % n; // (behind the last item: the first one, and vice versa)
      b = pos2bin[std::size_t(e)];
    }
  Item it;
  it.kind = kind;
  it.s = b.s;
  it.a = b.a;
  it.v = b.v;
  it.t = b.t;
  it.k = b.k;
  // first and last bin of the item: every layout is monotone in each of axial position, view and tangential position
  int a0 = b.a, a1 = b.a, v0 = b.v, v1 = b.v, t0 = g.min_tang, t1 = g.max_tang;
  switch (kind)
    {
    case IK_BIN:
      t0 = t1 = b.t;
      break;
    case IK_VIEWGRAM:
    case IK_RELATED:
      a0 = g.minax(b.s);
      a1 = g.maxax(b.s);
      break;
    case IK_SINOGRAM:
      v0 = g.min_view;
      v1 = g.max_view;
      break;
    default:
      a0 = g.minax(b.s);
      a1 = g.maxax(b.s);
      v0 = g.min_view;
      v1 = g.max_view;
      break;
    }
  it.start = long(c02::byte_pos(g, L, b.s, a0, v0, t0, b.k));
  it.end = long(c02::byte_pos(g, L, b.s, a1, v1, t1, b.k) + L.elsize());
  it.first_idx = g.idx(b.s, a0, v0, t0, b.k);
  return it;
}

Result
Run::op_xread(const json& op, std::size_t opno, const std::string& tag)
{
  if (!file_backed() || peers.empty())
    return Result::pass();
  const Geo& g = geo();
  const long V = op[6].get<long>();
  std::size_t pi = slot_to_peer(V % 4);
  for (std::size_t tries = 0; tries < peers.size() && !peers[pi].can_read; ++tries)
    pi = (pi + 1) % peers.size(); // (write-only object under test: the next object)
  if (!peers[pi].can_read)
    return Result::pass();
  Peer& q = peers[pi];
  const int kind = int((V / 4) % 8) % N_ITEM_KINDS;
  const int mode = int((V / 32) % 8) % N_ADDR_MODES;
  const std::size_t ti = (V / 1024) % 2 ? pi : slot_to_peer((V / 256) % 4);
  const Peer& target = peers[ti];
  const Item it = resolve_item(kind, mode, target, op);
  const int s = it.s, a = it.a, v = it.v, t = it.t, k = it.k;

  // statistics of the interleaving (not part of the oracle)
  const bool continues = q.exact && it.start == q.cur_end;
  const bool fresh_bytes = written_clock[it.first_idx] > q.read_clock && written_by[it.first_idx] != int(pi);
  const bool fresh_in_run = written_clock[it.first_idx] > q.run_clock && written_by[it.first_idx] != int(pi);
  auto& st = vf::stats();
  st.count(std::string("item reads through: ") + peer_kind_names[q.kind + 1]);
  st.count(std::string("item reads of kind: ") + item_kind_names[kind] + " / " + addr_mode_names[mode]);
  if (continues)
    st.count("item reads starting exactly where the same object's previous read ended");
  if (continues && fresh_bytes)
    st.count("... of which over bytes ANOTHER object wrote in between (reader reads k, writer writes k+1, reader reads k+1)");
  if (continues && fresh_in_run && !fresh_bytes)
    st.count("... of which over bytes ANOTHER object wrote earlier during this run of sequential reads (reader reads k, writer writes k+2, reader reads k+1, k+2)");
  if (q.exact && it.start == q.cur_start && fresh_bytes)
    st.count("item re-read by the same object after ANOTHER object overwrote it");
  if (pi == 0 && fresh_bytes)
    st.count("object under test reads an item another object wrote");
  if (pi != ti && mode != AM_ABS && mode != AM_FAR)
    st.count("item reads next to the last item of a DIFFERENT object");

  const std::string where
      = vf::cat(tag, " read ", item_kind_names[kind], " (seg=", s, ",ax=", a, ",view=", v, ",tang=", t, ",tof=", k, ") [", addr_mode_names[mode],
                "] through peer ", pi, " = ", peer_kind_names[q.kind + 1], " (bytes ", it.start, "..", it.end, "; this object's previous item: bytes ",
                q.cur_start, "..", q.cur_end, q.exact ? ", a read" : "", continues && fresh_in_run ? "; another object wrote these bytes since" : "",
                "; backing ", backing_names[backing], ", order ", L.order, ", type ", L.td().name, ")");
  ProjData& r = *q.p;
  bool exact_after = true;
  switch (kind)
    {
    case IK_BIN: {
      const float x = q.f->get_bin_value(Bin(s, v, a, t, k));
      VF_CHECK(x == ref[g.idx(s, a, v, t, k)], where, ": get_bin_value = ", x, ", reference has ", ref[g.idx(s, a, v, t, k)]);
      break;
    }
    case IK_VIEWGRAM: {
      const Viewgram<float> vw = V % 2 ? r.get_viewgram(v, s, false, k) : r.get_viewgram(ViewgramIndices(v, s, k));
      VF_CHECK(vw.get_view_num() == v && vw.get_segment_num() == s && vw.get_timing_pos_num() == k, where, ": viewgram labelled differently");
      for (int aa = g.minax(s); aa <= g.maxax(s); ++aa)
        for (int tt = g.min_tang; tt <= g.max_tang; ++tt)
          VF_CHECK(vw[aa][tt] == ref[g.idx(s, aa, v, tt, k)], where, ": get_viewgram: bin ", g.name(s, aa, v, tt, k), " = ", vw[aa][tt],
                   ", reference has ", ref[g.idx(s, aa, v, tt, k)]);
      break;
    }
    case IK_SINOGRAM: {
      const Sinogram<float> sn = V % 2 ? r.get_sinogram(a, s, false, k) : r.get_sinogram(SinogramIndices(a, s, k));
      VF_CHECK(sn.get_axial_pos_num() == a && sn.get_segment_num() == s && sn.get_timing_pos_num() == k, where, ": sinogram labelled differently");
      for (int vv = g.min_view; vv <= g.max_view; ++vv)
        for (int tt = g.min_tang; tt <= g.max_tang; ++tt)
          VF_CHECK(sn[vv][tt] == ref[g.idx(s, a, vv, tt, k)], where, ": get_sinogram: bin ", g.name(s, a, vv, tt, k), " = ", sn[vv][tt],
                   ", reference has ", ref[g.idx(s, a, vv, tt, k)]);
      break;
    }
    case IK_SEG_VIEW: {
      const SegmentByView<float> sg = V % 2 ? r.get_segment_by_view(s, k) : r.get_segment_by_view(SegmentIndices(s, k));
      VF_CHECK(sg.get_segment_num() == s && sg.get_timing_pos_num() == k, where, ": segment labelled differently");
      for (int vv = g.min_view; vv <= g.max_view; ++vv)
        for (int aa = g.minax(s); aa <= g.maxax(s); ++aa)
          for (int tt = g.min_tang; tt <= g.max_tang; ++tt)
            VF_CHECK(sg[vv][aa][tt] == ref[g.idx(s, aa, vv, tt, k)], where, ": get_segment_by_view: bin ", g.name(s, aa, vv, tt, k), " = ",
                     sg[vv][aa][tt], ", reference has ", ref[g.idx(s, aa, vv, tt, k)]);
      break;
    }
    case IK_SEG_SINO: {
      const SegmentBySinogram<float> sg = V % 2 ? r.get_segment_by_sinogram(s, k) : r.get_segment_by_sinogram(SegmentIndices(s, k));
      VF_CHECK(sg.get_segment_num() == s && sg.get_timing_pos_num() == k, where, ": segment labelled differently");
      for (int aa = g.minax(s); aa <= g.maxax(s); ++aa)
        for (int vv = g.min_view; vv <= g.max_view; ++vv)
          for (int tt = g.min_tang; tt <= g.max_tang; ++tt)
            VF_CHECK(sg[aa][vv][tt] == ref[g.idx(s, aa, vv, tt, k)], where, ": get_segment_by_sinogram: bin ", g.name(s, aa, vv, tt, k), " = ",
                     sg[aa][vv][tt], ", reference has ", ref[g.idx(s, aa, vv, tt, k)]);
      break;
    }
    default: {
      ViewSegmentNumbers basic(v, s, k);
      symm->find_basic_view_segment_numbers(basic);
      basic.timing_pos_num() = k;
      // (the TOF index is always passed explicitly: the defaulted argument is known finding N2)
      const RelatedViewgrams<float> rv = r.get_related_viewgrams(basic, symm, false, k);
      int nrel = 0;
      bool has_requested = false;
      for (auto itv = rv.begin(); itv != rv.end(); ++itv, ++nrel)
        {
          const int vv = itv->get_view_num(), sv = itv->get_segment_num();
          VF_CHECK(itv->get_timing_pos_num() == k, where, ": related viewgram has TOF index ", itv->get_timing_pos_num());
          VF_CHECK(sv >= g.min_seg && sv <= g.max_seg && vv >= g.min_view && vv <= g.max_view, where, ": related viewgram outside the data");
          has_requested = has_requested || (vv == v && sv == s);
          for (int aa = g.minax(sv); aa <= g.maxax(sv); ++aa)
            for (int tt = g.min_tang; tt <= g.max_tang; ++tt)
              VF_CHECK((*itv)[aa][tt] == ref[g.idx(sv, aa, vv, tt, k)], where, ": get_related_viewgrams: bin ", g.name(sv, aa, vv, tt, k), " = ",
                       (*itv)[aa][tt], ", reference has ", ref[g.idx(sv, aa, vv, tt, k)]);
        }
      VF_CHECK(has_requested, where, ": the related set does not contain the requested viewgram");
      exact_after = nrel == 1; // (the order in which a set of several viewgrams is read is not documented)
      break;
    }
    }
  q.cur_start = it.start;
  q.cur_end = it.end;
  q.exact = exact_after;
  q.wrote_last = false;
  q.read_clock = ++clock_;
  if (!continues)
    q.run_clock = q.read_clock;
  (void)opno;
  return Result::pass();
}

Result
Run::op_xwrite(const json& op, std::size_t opno, const std::string& tag)
{
  if (!file_backed() || peers.empty())
    return Result::pass();
  const Geo& g = geo();
  const long V = op[6].get<long>();
  std::size_t wi = slot_to_peer(V % 4);
  if (wi != 0)
    { // a reader in that slot: the next long-lived object that can write, else the object under test
      std::size_t cand = wi;
      for (std::size_t tries = 0; tries + 1 < peers.size() && !peers[cand].can_write; ++tries)
        cand = 1 + cand % (peers.size() - 1);
      wi = peers[cand].can_write ? cand : 0;
    }
  Peer& w = peers[wi];
  const int kind = int((V / 4) % 8) % N_ITEM_KINDS;
  const int mode = int((V / 32) % 8) % N_ADDR_MODES;
  const std::size_t ti = (V / 1024) % 2 ? wi : slot_to_peer((V / 256) % 4);
  const Item it = resolve_item(kind, mode, peers[ti], op);
  const int s = it.s, a = it.a, v = it.v, t = it.t, k = it.k;
  vf::SplitMix rng(c["seed"].get<uint64_t>() * 1000003ULL + uint64_t(V) * 7919ULL + opno + 0x77ULL);
  auto& st = vf::stats();
  st.count(std::string("item writes through: ") + peer_kind_names[w.kind + 1]);
  st.count(std::string("item writes of kind: ") + item_kind_names[kind] + " / " + addr_mode_names[mode]);
  if (wi != 0)
    st.count("writes by a second writer object on the same file");
  if (w.wrote_last && it.start == w.cur_end)
    st.count("item writes directly behind the same object's previous write");
  const std::string what
      = vf::cat(tag, " write ", item_kind_names[kind], " (seg=", s, ",ax=", a, ",view=", v, ",tang=", t, ",tof=", k, ") [", addr_mode_names[mode],
                " w.r.t. peer ", ti, "] through peer ", wi, " = ", peer_kind_names[w.kind + 1], " (bytes ", it.start, "..", it.end, ")");
  ProjData& p = *w.p;
  switch (kind)
    {
    case IK_BIN: {
      const float x = value(rng);
      w.f->set_bin_value(Bin(s, v, a, t, k, x));
      ref[g.idx(s, a, v, t, k)] = x;
      break;
    }
    case IK_VIEWGRAM: {
      Viewgram<float> vw = V % 2 ? p.get_empty_viewgram(v, s, false, k) : Viewgram<float>(pdi, ViewgramIndices(v, s, k));
      for (int aa = g.minax(s); aa <= g.maxax(s); ++aa)
        for (int tt = g.min_tang; tt <= g.max_tang; ++tt)
          ref[g.idx(s, aa, v, tt, k)] = vw[aa][tt] = value(rng);
      VF_CHECK(p.set_viewgram(vw) == Succeeded::yes, what, ": set_viewgram returned Succeeded::no");
      break;
    }
    case IK_SINOGRAM: {
      Sinogram<float> sn = V % 2 ? p.get_empty_sinogram(a, s, false, k) : Sinogram<float>(pdi, SinogramIndices(a, s, k));
      for (int vv = g.min_view; vv <= g.max_view; ++vv)
        for (int tt = g.min_tang; tt <= g.max_tang; ++tt)
          ref[g.idx(s, a, vv, tt, k)] = sn[vv][tt] = value(rng);
      VF_CHECK(p.set_sinogram(sn) == Succeeded::yes, what, ": set_sinogram returned Succeeded::no");
      break;
    }
    case IK_SEG_VIEW: {
      SegmentByView<float> sg = p.get_empty_segment_by_view(s, false, k);
      for (int vv = g.min_view; vv <= g.max_view; ++vv)
        for (int aa = g.minax(s); aa <= g.maxax(s); ++aa)
          for (int tt = g.min_tang; tt <= g.max_tang; ++tt)
            ref[g.idx(s, aa, vv, tt, k)] = sg[vv][aa][tt] = value(rng);
      VF_CHECK(p.set_segment(sg) == Succeeded::yes, what, ": set_segment(by view) returned Succeeded::no");
      break;
    }
    case IK_SEG_SINO: {
      SegmentBySinogram<float> sg = p.get_empty_segment_by_sinogram(s, false, k);
      for (int aa = g.minax(s); aa <= g.maxax(s); ++aa)
        for (int vv = g.min_view; vv <= g.max_view; ++vv)
          for (int tt = g.min_tang; tt <= g.max_tang; ++tt)
            ref[g.idx(s, aa, vv, tt, k)] = sg[aa][vv][tt] = value(rng);
      VF_CHECK(p.set_segment(sg) == Succeeded::yes, what, ": set_segment(by sinogram) returned Succeeded::no");
      break;
    }
    default: {
      ViewSegmentNumbers basic(v, s, k);
      symm->find_basic_view_segment_numbers(basic);
      basic.timing_pos_num() = k;
      RelatedViewgrams<float> rv = p.get_empty_related_viewgrams(basic, symm, false, k);
      for (auto itv = rv.begin(); itv != rv.end(); ++itv)
        {
          const int vv = itv->get_view_num(), sv = itv->get_segment_num();
          VF_CHECK(itv->get_timing_pos_num() == k, what, ": empty related viewgram has TOF index ", itv->get_timing_pos_num());
          VF_CHECK(sv >= g.min_seg && sv <= g.max_seg && vv >= g.min_view && vv <= g.max_view, what, ": related viewgram outside the data");
          for (int aa = g.minax(sv); aa <= g.maxax(sv); ++aa)
            for (int tt = g.min_tang; tt <= g.max_tang; ++tt)
              ref[g.idx(sv, aa, vv, tt, k)] = (*itv)[aa][tt] = value(rng);
        }
      VF_CHECK(p.set_related_viewgrams(rv) == Succeeded::yes, what, ": set_related_viewgrams returned Succeeded::no");
      break;
    }
    }
  // the write call has returned.  The looks that follow do not use the stream of any OTHER long-lived object (their
  // read-ahead state is what the next operations are about): raw bytes through a fresh ifstream, then the whole data
  // set through a freshly opened reader or through the writing object itself.
  w.cur_start = it.start;
  w.cur_end = it.end;
  w.exact = false;
  w.wrote_last = true;
  ++nwrites;
  mark_written(int(wi));
  C02_TRY(check_bytes(what));
  const int sel = op[7].get<int>();
  const int path = sel % N_PATHS;
  bool fresh = (sel / N_PATHS) % 3 == 0 || !w.can_read;
  if (fresh && !can_second_reader())
    {
      if (!w.can_read)
        return Result::pass();
      fresh = false;
    }
  if (fresh)
    {
      shared_ptr<ProjData> other = second_reader();
      vf::stats().count("read-backs through a second object on the same file");
      return compare_object(*other, path, what + " [second object from read_from_file]");
    }
  return compare_object(p, path, what + " [the writing object]");
}

// ---- out-of-range requests ---------------------------------------------------------------------------
// One index one step outside its range, through each path that takes that index.  Decided with asserts off
// (what a Release build does, DESIGN.md 2.3): the request must be reported (std::exception from error()/at(), or
// Succeeded::no from the set_* functions that return a status) and the data must be unchanged afterwards.
enum OobKind
{
  K_SEG = 0,
  K_AX = 1,
  K_VIEW = 2,
  K_TANG = 3,
  K_TOF = 4
};
const char* const kind_names[] = { "segment", "axial position", "view", "tangential position", "TOF index" };

struct AssertsOff
{
  const bool was;
  AssertsOff()
      : was(stir_verif::asserts_on)
  {
    stir_verif::asserts_on = false;
  }
  ~AssertsOff() { stir_verif::asserts_on = was; } // (nests: an inner guard must not switch an outer one off)
};

Result
Run::op_oob(const json& op, const std::string& tag)
{
  const Geo& g = geo();
  static const std::vector<std::vector<int>> kinds_of_path = {
    { K_SEG, K_AX, K_VIEW, K_TANG, K_TOF }, // 0 get_bin_value
    { K_SEG, K_AX, K_VIEW, K_TANG, K_TOF }, // 1 set_bin_value
    { K_SEG, K_VIEW, K_TOF },               // 2 get_viewgram
    { K_SEG, K_AX, K_TOF },                 // 3 get_sinogram
    { K_SEG, K_TOF },                       // 4 get_segment_by_view
    { K_SEG, K_TOF },                       // 5 get_segment_by_sinogram
    { K_SEG, K_VIEW, K_TOF },               // 6 get_related_viewgrams (trivial symmetries)
    { K_VIEW, K_TOF },                      // 7 set_viewgram   (a viewgram/sinogram object for a segment outside the
    { K_AX, K_TOF },                        // 8 set_sinogram    info cannot be constructed at all)
    { K_TOF, K_SEG },                       // 9 set_segment (segment outside: built from the untrimmed info when there is one)
  };
  static const char* const pnames[] = { "get_bin_value", "set_bin_value", "get_viewgram", "get_sinogram", "get_segment_by_view",
                                        "get_segment_by_sinogram", "get_related_viewgrams", "set_viewgram", "set_sinogram", "set_segment" };
  const long V = op[6].get<long>();
  const int path = int(V % 10);
  const auto& kl = kinds_of_path[std::size_t(path)];
  int kind = kl[std::size_t((V / 10) % long(kl.size()))];
  const bool above = (V / 100) % 2 == 1;
  int s = g.min_seg + int(op[1].get<long>() % g.nseg());
  int a = g.minax(s) + int(op[2].get<long>() % g.nax(s));
  int v = g.min_view + int(op[3].get<long>() % g.nviews());
  int t = g.min_tang + int(op[4].get<long>() % g.ntang());
  int k = g.min_tof + int(op[5].get<long>() % g.ntof());
  const bool is_read_path = path == 0 || (path >= 2 && path <= 6);
  if (is_read_path && !readable)
    return Result::pass();

  shared_ptr<ProjDataInfo> bigger; // for set_segment with a segment number outside
  if (path == 9 && kind == K_SEG)
    {
      json j = c["pdi"];
      if (j["trim"].contains("max_seg"))
        j["trim"]["max_seg"] = 1000;
      bigger = vg::make_pdi(scanner, j);
      if (bigger->get_max_segment_num() <= g.max_seg || bigger->get_min_segment_num() >= g.min_seg)
        kind = K_TOF;
    }
  // Domain audit AUD_B: "requests outside the index ranges" is not only one step outside.  Cases with "oob_far" (absent in saved
  // cases = false) make a fifth of the requests further out: 2 steps, exactly one period of that index (the request that would
  // alias onto the first / last legal item if the index were only used in an offset), 1000 and 2^20 steps.  (set_segment with a
  // segment outside keeps one step: the segment has to exist in the untrimmed info.)
  int step = 1;
  if (c.value("oob_far", false) && (V / 200) % 5 == 4 && !(path == 9 && kind == K_SEG))
    {
      const int period = kind == K_SEG ? g.nseg() : kind == K_AX ? g.nax(s) : kind == K_VIEW ? g.nviews() : kind == K_TANG ? g.ntang() : g.ntof();
      const int steps[4] = { 2, period, 1000, 1 << 20 };
      step = steps[(op[1].get<long>() + op[3].get<long>()) % 4];
      vf::stats().count(vf::cat("out-of-range requests further than one step: ", step == period ? "one period" : (step == 2 ? "2" : (step == 1000 ? "1000" : "2^20"))));
    }
  switch (kind)
    {
    case K_SEG:
      s = above ? g.max_seg + step : g.min_seg - step;
      break;
    case K_AX:
      a = above ? g.maxax(s) + step : g.minax(s) - step;
      break;
    case K_VIEW:
      v = above ? g.max_view + step : g.min_view - step;
      break;
    case K_TANG:
      t = above ? g.max_tang + step : g.min_tang - step;
      break;
    default:
      k = above ? g.max_tof + step : g.min_tof - step;
      break;
    }
  const std::string what = vf::cat(tag, " ", pnames[path], " with ", kind_names[kind], " ", step, " step(s) ", above ? "above" : "below", " the range: ",
                                   "(seg=", s, ",ax=", a, ",view=", v, ",tang=", t, ",tof=", k, ") on ", backing_names[backing]);
  // (former findings L2: view/tangential position not range-checked in get_index()/get_offset(), and N3: segment number
  //  used as an index into the per-segment arrays of ProjDataInfo before any range test, are repaired: every kind of
  //  out-of-range request through every path is part of the search)
  vf::stats().count(vf::cat("out-of-range requests: ", pnames[path], " / ", kind_names[kind]));

  bool reported = false;
  std::string how;
  {
    AssertsOff off;
    try
      {
        Succeeded st = Succeeded::yes;
        switch (path)
          {
          case 0:
            (void)get_bin(*pd, Bin(s, v, a, t, k));
            break;
          case 1:
            set_bin(Bin(s, v, a, t, k, 12345.F));
            break;
          case 2:
            (void)pd->get_viewgram(v, s, false, k);
            break;
          case 3:
            (void)pd->get_sinogram(a, s, false, k);
            break;
          case 4:
            (void)pd->get_segment_by_view(s, k);
            break;
          case 5:
            (void)pd->get_segment_by_sinogram(s, k);
            break;
          case 6: {
            shared_ptr<DataSymmetriesForViewSegmentNumbers> triv(new TrivialDataSymmetriesForViewSegmentNumbers);
            (void)pd->get_related_viewgrams(ViewgramIndices(v, s, k), triv, false, k);
            break;
          }
          case 7: {
            Viewgram<float> vw(pdi, ViewgramIndices(v, s, k));
            vw.fill(12345.F);
            st = pd->set_viewgram(vw);
            break;
          }
          case 8: {
            Sinogram<float> sn(pdi, SinogramIndices(a, s, k));
            sn.fill(12345.F);
            st = pd->set_sinogram(sn);
            break;
          }
          default: {
            const shared_ptr<ProjDataInfo>& info = kind == K_SEG ? bigger : pdi;
            if (V % 2)
              {
                SegmentByView<float> sg(info, SegmentIndices(s, k));
                sg.fill(12345.F);
                st = pd->set_segment(sg);
              }
            else
              {
                SegmentBySinogram<float> sg(info, SegmentIndices(s, k));
                sg.fill(12345.F);
                st = pd->set_segment(sg);
              }
            break;
          }
          }
        if (st == Succeeded::no)
          {
            reported = true;
            how = "Succeeded::no";
          }
      }
    catch (const std::exception& e)
      {
        reported = true;
        how = e.what();
      }
  }
  if (!reported)
    return Result::fail(what + ": the request was NOT reported as an error (no exception, no Succeeded::no)");
  // the data must be unchanged: raw bytes and a full read-back
  C02_TRY(check_bytes(what + " [reported: " + how.substr(0, 60) + "] afterwards"));
  return compare_all(op[7].get<int>(), what + " [reported] afterwards");
}

// ---- header round trips ------------------------------------------------------------------------------
Result
compare_info(const ProjDataInfo& a, const ProjDataInfo& b, const std::string& where)
{
  const Geo ga(a), gb(b);
  VF_CHECK(ga.min_seg == gb.min_seg && ga.max_seg == gb.max_seg, where, ": segment range ", gb.min_seg, "..", gb.max_seg, " expected ", ga.min_seg,
           "..", ga.max_seg);
  VF_CHECK(ga.min_ax == gb.min_ax && ga.max_ax == gb.max_ax, where, ": axial position ranges per segment differ");
  VF_CHECK(ga.min_view == gb.min_view && ga.max_view == gb.max_view, where, ": view range differs");
  VF_CHECK(ga.min_tang == gb.min_tang && ga.max_tang == gb.max_tang, where, ": tangential range ", gb.min_tang, "..", gb.max_tang, " expected ",
           ga.min_tang, "..", ga.max_tang);
  VF_CHECK(ga.min_tof == gb.min_tof && ga.max_tof == gb.max_tof && a.get_tof_mash_factor() == b.get_tof_mash_factor(), where,
           ": TOF range/mashing differs");
  VF_CHECK(typeid(a) == typeid(b), where, ": ProjDataInfo type ", typeid(b).name(), " expected ", typeid(a).name());
  const auto* ca = dynamic_cast<const ProjDataInfoCylindrical*>(&a);
  const auto* cb = dynamic_cast<const ProjDataInfoCylindrical*>(&b);
  if (ca && cb)
    for (int s = ga.min_seg; s <= ga.max_seg; ++s)
      VF_CHECK(ca->get_min_ring_difference(s) == cb->get_min_ring_difference(s) && ca->get_max_ring_difference(s) == cb->get_max_ring_difference(s),
               where, ": ring differences of segment ", s, " are ", cb->get_min_ring_difference(s), "..", cb->get_max_ring_difference(s),
               " expected ", ca->get_min_ring_difference(s), "..", ca->get_max_ring_difference(s));
  // sampling of the first and last bin (6 significant digits in the header)
  const Bin b0(ga.min_seg, ga.min_view, ga.minax(ga.min_seg), ga.min_tang, ga.min_tof), b1(ga.max_seg, ga.max_view, ga.maxax(ga.max_seg), ga.max_tang, ga.max_tof);
  // (cylindrical geometries only: detector positions of block geometries are rounded to 1e-3 mm,
  //  DetectorCoordinateMap.cxx:136-139, so their bin coordinates are not a continuous function of the header numbers)
  if (a.get_scanner_ptr()->get_scanner_geometry() == "Cylindrical")
  for (const Bin& bb : { b0, b1 })
    {
      // lengths in the header carry 6 significant digits: an error of 5e-6 relative to the ring radius / scanner length
      const double sc = a.get_scanner_ptr()->get_effective_ring_radius() + std::fabs(a.get_t(b0)) + std::fabs(a.get_t(b1)) + 1.;
      VF_CHECK(std::fabs(a.get_s(bb) - b.get_s(bb)) <= 2e-5 * sc && std::fabs(a.get_t(bb) - b.get_t(bb)) <= 2e-5 * sc
                   && std::fabs(a.get_phi(bb) - b.get_phi(bb)) <= 2e-5 && std::fabs(a.get_tantheta(bb) - b.get_tantheta(bb)) <= 2e-5,
               where, ": coordinates (s,t,phi,tantheta) of a corner bin differ: ", a.get_s(bb), ",", a.get_t(bb), ",", a.get_phi(bb), ",",
               a.get_tantheta(bb), " vs ", b.get_s(bb), ",", b.get_t(bb), ",", b.get_phi(bb), ",", b.get_tantheta(bb));
      vf::stats().maxi("max rel |s,t| difference after header round trip",
                       std::max(std::fabs(a.get_s(bb) - b.get_s(bb)), std::fabs(a.get_t(bb) - b.get_t(bb))) / sc);
    }
  VF_CHECK(a == b, where, ": ProjDataInfo::operator== says the geometry read back differs:\n", a.parameter_info(), "\n--- read back ---\n",
           b.parameter_info());
  return Result::pass();
}

Result
Run::op_header(const std::string& tag, int sel)
{
  if (!has_header)
    return Result::pass();
  const Geo& g = geo();
  shared_ptr<ProjData> rd = ProjData::read_from_file(header_path);
  VF_CHECK(!is_null_ptr(rd), tag, " read_from_file returned null");
  const std::string where = tag + " header round trip";
  C02_TRY(compare_info(*pdi, *rd->get_proj_data_info_sptr(), where));
  C02_TRY(compare_exam(*exam, rd->get_exam_info(), where));
  const ProjDataFromStream* f = dynamic_cast<const ProjDataFromStream*>(rd.get());
  VF_CHECK(f != nullptr, where, ": not a ProjDataFromStream");
  const bool tof = g.ntof() > 1;
  const ProjDataFromStream::StorageOrder want = tof ? ProjDataFromStream::Timing_Segment_View_AxialPos_TangPos : stir_order();
  VF_CHECK(f->get_storage_order() == want, where, ": storage order ", int(f->get_storage_order()), " expected ", int(want));
  VF_CHECK(f->get_segment_sequence_in_stream() == L.seq, where, ": segment sequence in stream differs");
  VF_CHECK(f->get_data_type_in_stream() == NumericType(L.td().id), where, ": number type differs");
  VF_CHECK(f->get_byte_order_in_stream() == ByteOrder(L.big_endian ? ByteOrder::big_endian : ByteOrder::little_endian), where, ": byte order differs");
  VF_CHECK(f->get_offset_in_stream() == std::streamoff(L.offset), where, ": offset ", long(f->get_offset_in_stream()), " expected ", L.offset);
  VF_CHECK(rel_close(f->get_scale_factor(), L.scale, 1e-5), where, ": scale factor ", f->get_scale_factor(), " expected ", L.scale);
  std::vector<float> got;
  int path = sel % N_PATHS;
  C02_TRY(read_all(*rd, path, got, where));
  for (std::size_t i = 0; i < g.n; ++i)
    VF_CHECK(got[i] == ref[i], where, ": values differ at reference index ", i, ": ", got[i], " vs ", ref[i]);
  vf::stats().count("header round trips");
  return Result::pass();
}

Result
Run::op_write_to_file(const std::string& tag, int sel)
{
  const Geo& g = geo();
  shared_ptr<ProjData> src = pd;
  if (!readable)
    {
      if (!can_second_reader())
        return Result::pass();
      src = second_reader();
    }
  const std::string stem = tmp.make("wtf");
  tmp.track(stem + ".hs");
  tmp.track(stem + ".s");
  VF_CHECK(src->write_to_file(stem) == Succeeded::yes, tag, " write_to_file returned Succeeded::no");
  shared_ptr<ProjData> rd = ProjData::read_from_file(stem + ".hs");
  VF_CHECK(!is_null_ptr(rd), tag, " read_from_file returned null");
  const std::string where = tag + " write_to_file + read_from_file";
  C02_TRY(compare_info(*pdi, *rd->get_proj_data_info_sptr(), where));
  C02_TRY(compare_exam(*exam, rd->get_exam_info(), where));
  std::vector<float> got;
  int path = sel % N_PATHS;
  C02_TRY(read_all(*rd, path, got, where));
  for (std::size_t i = 0; i < g.n; ++i)
    VF_CHECK(got[i] == ref[i], where, ": values differ at reference index ", i, ": ", got[i], " vs ", ref[i]);
  vf::stats().count("write_to_file round trips");
  return Result::pass();
}

// ---- the property -----------------------------------------------------------------------------------
bool nontrivial(const json& c);

bool even_number_of_segments(const json& c);

Result
check(const json& c)
{
  // (before the set-up of the run: file-backed stores read their header there)
  std::unique_ptr<AssertsOff> n6_asserts_off;
  if (N6_ASSERTION_ONLY && even_number_of_segments(c))
    {
      n6_asserts_off.reset(new AssertsOff);
      vf::stats().count("cases with an even number of segments: run with the library's assertions off (N6, assertion-only)");
    }
  Run run(c);
  Result r = run.setup();
  if (r.kind != Result::PASS)
    return r;
  const Geo& g = run.geo();
  auto& st = vf::stats();
  st.cls(std::string("backing: ") + backing_names[run.backing]);
  st.cls(g.ntof() > 1 ? "TOF" : "non-TOF");
  if (run.stream_backed)
    {
      st.cls(run.L.order == 0 ? "order Segment_View_AxialPos_TangPos" : "order Segment_AxialPos_View_TangPos");
      st.cls(std::string("type ") + run.L.td().name);
      st.cls(run.L.big_endian ? "big endian" : "little endian");
      if (run.L.seq != segment_sequence(g, 0))
        st.cls("permuted segment sequence");
      if (run.L.offset > 0)
        st.cls("stream offset > 0");
      if (run.L.scale != 1.F)
        st.cls("scale factor != 1");
    }
  {
    bool unequal = false;
    for (int s = g.min_seg; s <= g.max_seg; ++s)
      unequal = unequal || g.nax(s) != g.nax(g.min_seg);
    if (unequal)
      st.cls("unequal axial counts per segment");
    if (g.nseg() > 1)
      st.cls("more than one segment");
    if (g.min_seg != -g.max_seg)
      st.cls("segment range not symmetric");
    if (run.wide_values && run.stream_backed && run.L.td().kmax == 1000000)
      st.cls(std::string("wide integer values in type ") + run.L.td().name);
    if (c["exam"]["frame"].is_array())
      {
        const double st0 = c["exam"]["frame"][0].get<double>(), en0 = st0 + c["exam"]["frame"][1].get<double>();
        if (st0 == 0)
          st.cls("exam: frame starts at time 0");
        else if (st0 < 0)
          st.cls(en0 < 0 ? "exam: frame ends before time 0" : (en0 == 0 ? "exam: frame ends at time 0" : "exam: frame starts before time 0"));
      }
    if (run.symm_is_pet)
      st.cls("PET symmetries for related viewgrams");
    if (dynamic_cast<const ProjDataInfoCylindricalArcCorr*>(run.pdi.get()))
      st.cls("arc-corrected");
    if (run.scanner->get_scanner_geometry() != "Cylindrical")
      st.cls("BlocksOnCylindrical");
  }
  st.maxi("max bins per data set", double(g.n));
  const json& ops = c["ops"];
  for (std::size_t i = 0; i < ops.size(); ++i)
    {
      r = run.run_op(ops[i], i);
      if (r.kind != Result::PASS)
        return r;
    }
  // end of history: everything once more through the raw bytes and one path
  r = run.check_bytes("end of history");
  if (r.kind != Result::PASS)
    return r;
  r = run.compare_all(int(c["seed"].get<uint64_t>() % (3 * N_PATHS)), "end of history");
  if (r.kind != Result::PASS)
    return r;
  // ... and through every long-lived object (open since the start of the history)
  for (std::size_t i = 1; i < run.peers.size(); ++i)
    {
      st.cls(std::string("history with a ") + peer_kind_names[run.peers[i].kind + 1]);
      r = run.compare_object(*run.peers[i].p, int((c["seed"].get<uint64_t>() / 7 + i) % (N_PATHS - 1)),
                             vf::cat("end of history [peer ", i, " = ", peer_kind_names[run.peers[i].kind + 1], ", opened at the start of the history]"));
      if (r.kind != Result::PASS)
        return r;
    }
  if (run.peers.size() > 1)
    st.cls("history with long-lived objects on the same file");
  return r;
}

// ---- generator -------------------------------------------------------------------------------------
bool
single_mashed_tof_bin(const json& c)
{
  const int mash = c["pdi"]["tof_mash"].get<int>();
  const int poss = c["scanner"].value("tof_poss", 0);
  return mash > 0 && poss > 0 && poss / mash == 1;
}

//! N6: the segment range has an even number of segments (only possible with a range that is not symmetric) and a header is read
bool
even_number_of_segments(const json& c)
{
  if (!c["pdi"]["trim"].contains("min_seg"))
    return false;
  try
    {
      shared_ptr<Scanner> sc = vg::make_scanner(c["scanner"]);
      return vg::make_pdi(sc, c["pdi"])->get_num_segments() % 2 == 0;
    }
  catch (const std::exception&)
    {
      return false;
    }
}

bool
history_reads_a_header(const json& c)
{
  // file-backed stores: second readers / long-lived objects / the Interfile pair itself read the header.  (In-memory and
  // stringstream data only read a header in the header operations, which run_op() leaves out for such data.)
  return c["backing"].get<int>() >= B_FSTREAM;
}

std::string
known_signature(const json& c)
{
  if (!no_exclude("N4") && single_mashed_tof_bin(c))
    return "C02:N4:TOF data with a single (fully mashed) TOF bin lose their TOF mashing factor in the header";
  if (!N6_ASSERTION_ONLY && !no_exclude("N6") && even_number_of_segments(c) && history_reads_a_header(c))
    return "C02:N6:header listing an even number of segments trips assert(num_segments % 2 == 1) in find_segment_sequence when read back";
  return "";
}

json
gen_exam(Src& s)
{
  json e;
  e["orient"] = int(s.range(0, 3));
  e["rot"] = int(s.range(0, 3));
  if (s.coin())
    e["frame"] = { double(s.range(0, 4000)) * 0.5, double(s.range(1, 7200)) * 0.25 };
  else
    e["frame"] = nullptr;
  if (s.coin())
    {
      const int lo = int(s.range(100, 500));
      e["energy"] = { lo, lo + int(s.range(50, 300)) };
    }
  else
    e["energy"] = nullptr;
  e["nuclide"] = int(s.range(0, 1));
  return e;
}

json
gen(Src& s, int size)
{
  json c;
  vg::ScannerOpts so;
  so.max_ndet = size < 40 ? 12 : 24;
  so.max_rings = size < 40 ? 3 : 4;
  so.allow_blocks = true;
  so.allow_predefined = false;
  // the shared generator makes a TOF scanner in ~2/9 of the draws; C02 wants TOF in every third case
  const bool want_tof = s.chance(2, 5);
  for (int tries = 0; tries < 10; ++tries)
    {
      c["scanner"] = vg::gen_scanner(s, so);
      if ((c["scanner"].value("tof_poss", 0) > 0) == want_tof)
        break;
    }
  // All numbers in an Interfile header carry 6 significant digits (default stream precision; DESIGN.md change log 4),
  // so scanner lengths are generated with 5 significant digits: what the format can hold.  (Observation N5 in the
  // notes: a blocks scanner whose crystal spacing needs more digits does not survive the header.)
  for (const char* key : { "radius", "doi", "ring_spacing", "bin_size", "tilt", "ax_crystal_spacing", "tr_crystal_spacing", "block_gap_ax",
                           "block_gap_tr", "tof_size", "tof_res" })
    if (c["scanner"].contains(key))
      {
        char buf[64];
        std::snprintf(buf, sizeof(buf), "%.5g", c["scanner"][key].get<double>());
        c["scanner"][key] = std::strtod(buf, nullptr);
      }
  if (c["scanner"].contains("ax_crystal_spacing"))
    {
      c["scanner"]["ring_spacing"] = c["scanner"]["ax_crystal_spacing"];
      // (former finding N5, repaired: a blocks scanner whose crystals fill the block exactly (gap 0) was refused when its
      //  own header was read back; zero gaps are generated in about half of the blocks scanners, stir_gen.h:126-127)
      if (c["scanner"]["block_gap_ax"].get<double>() == 0. || c["scanner"]["block_gap_tr"].get<double>() == 0.)
        vf::stats().count("generated blocks scanners with a zero block gap");
    }
  shared_ptr<Scanner> sc = vg::make_scanner(c["scanner"]);
  vg::PdiOpts po;
  po.allow_arccorr = true;
  po.max_span = 7;
  for (int tries = 0; tries < 6; ++tries)
    {
      c["pdi"] = vg::gen_pdi(s, *sc, po);
      if (!want_tof || !sc->is_tof_ready() || (c["pdi"]["tof_mash"].get<int>() > 0 && !single_mashed_tof_bin(c)))
        break;
    }
  // BlocksOnCylindrical data cannot be described by a header when axially compressed: the header writer asks for
  // get_phi(), which needs the LOR of the bin, and ProjDataInfoCylindrical::get_ring_pair_for_segment_axial_pos_num
  // calls error("... does not work for data with axial compression") (ProjDataInfoCylindrical.cxx:343)
  if (c["scanner"]["geometry"].get<std::string>() != "Cylindrical")
    {
      c["pdi"]["span"] = 1;
      c["pdi"]["max_delta"] = std::min(c["pdi"]["max_delta"].get<int>(), c["scanner"]["rings"].get<int>() - 1);
    }
  // N4 (notes): TOF data mashed into a single TOF bin are written with a non-TOF header and come back with
  // TOF mashing factor 0; excluded by construction (non-TOF data on the TOF scanner instead)
  if (single_mashed_tof_bin(c) && !no_exclude("N4"))
    {
      c["pdi"]["tof_mash"] = 0;
      vf::stats().excluded_known++;
      vf::stats().count("excluded N4: generator replaced single-TOF-bin data by non-TOF data");
    }
  // not more than ~3000 bins (DESIGN C02 bounds): fewer tangential positions first, then fewer segments
  for (int guard = 0; guard < 40; ++guard)
    {
      std::size_t n = 0;
      int max_seg = 0;
      try
        {
          shared_ptr<ProjDataInfo> p = vg::make_pdi(sc, c["pdi"]);
          n = Geo(*p).n;
          max_seg = p->get_max_segment_num();
        }
      catch (const std::exception&)
        {
          break; // rejected in check()
        }
      if (n <= 3000)
        break;
      if (c["pdi"]["tang"].get<int>() > 3)
        c["pdi"]["tang"] = std::max(2, c["pdi"]["tang"].get<int>() / 2);
      else if (max_seg > 0)
        {
          c["pdi"]["trim"]["max_seg"] = max_seg - 1;
          if (!c["pdi"]["trim"].contains("tang_cut"))
            c["pdi"]["trim"]["tang_cut"] = 0;
        }
      else
        break;
    }
  const bool tof = c["pdi"]["tof_mash"].get<int>() > 0;
  const int backing = int(s.pick(std::vector<int>{ B_MEM, B_MEM, B_SSTREAM, B_SSTREAM, B_FSTREAM, B_FSTREAM, B_INTERFILE_RW, B_INTERFILE_RW, B_INTERFILE_WO }));
  c["backing"] = backing;
  int order = int(s.range(0, 1));
  // TOF + Segment_AxialPos_View_TangPos cannot get a header (clean rejection, interfile.cxx:1246): generated rarely for Interfile
  if (tof && order == 1 && backing >= B_INTERFILE_RW && !s.chance(1, 6))
    order = 0;
  c["order"] = order;
  c["perm"] = s.chance(1, 4) ? 0L : (s.chance(1, 4) ? 1L : s.range(2, 100000));
  // number type: float most often, then each of the others
  c["type"] = s.chance(1, 3) ? 0 : int(s.range(0, long(c02::types().size()) - 1));
  c["big_endian"] = s.coin();
  {
    const auto& td = c02::types()[std::size_t(c["type"].get<int>())];
    if (td.id == NumericType::FLOAT)
      c["scale"] = 1.;
    else if (td.id == NumericType::DOUBLE)
      c["scale"] = s.pick(std::vector<double>{ 1., 1., 0.5, 4. }); // powers of two: v/s*s is exact in float
    else
      c["scale"] = s.pick(std::vector<double>{ 1., 1., 1., 0.5, 0.1, 2., 0.25, 3. }); // 6-digit numbers: survive the header
  }
  c["offset"] = s.pick(std::vector<long>{ 0, 0, 1, 7, 16, 100 });
  if (backing == B_MEM)
    { // layout parameters do not exist for in-memory data
      c["order"] = 0;
      c["perm"] = 1;
      c["type"] = 0;
      c["big_endian"] = false;
      c["scale"] = 1.;
      c["offset"] = 0;
    }
  if (backing >= B_INTERFILE_RW)
    c["offset"] = 0;
  c["exam"] = gen_exam(s);
  c["sym"] = int(s.range(0, 1));
  vg::ImageOpts io;
  io.max_xy = 7;
  c["image"] = vg::gen_image(s, io);
  c["seed"] = s.seed64();
  const long nops = s.range(5, 5 + long(size) * 35 / 100);
  // weights: writes dominate; every write is followed by a full read-back through the path in op[7]
  static const std::vector<int> codes = { W_BIN,      W_BIN,      W_BIN,     W_VIEWGRAM, W_VIEWGRAM, W_SINOGRAM,  W_SINOGRAM, W_SEG_VIEW, W_SEG_SINO,
                                          W_RELATED,  W_RELATED,  W_FILL_VALUE, W_FILL_OTHER, W_ITER,  W_ARITH,     R_BIN,      R_VIEWGRAM, R_SINOGRAM,
                                          R_SEG_VIEW, R_SEG_SINO, R_RELATED, R_SUBSET,   R_ITER,     R_ALL,       E_OOB,      E_OOB,      E_OOB,
                                          E_OOB,      H_HEADER,   H_WRITE_TO_FILE };
  // long-lived objects on the same file (file-backed cases): 1-3 readers / second writers that stay open for the
  // whole history; a tenth of the file-backed cases keeps the original shape
  json readers = json::array();
  if (backing >= B_FSTREAM && s.chance(9, 10))
    {
      const long nr = s.pick(std::vector<long>{ 1, 1, 2, 2, 2, 3 });
      for (long i = 0; i < nr; ++i)
        readers.push_back(s.pick(std::vector<int>{ PK_HDR_RO, PK_HDR_RO, PK_HDR_RO, PK_STREAM_RO, PK_STREAM_RO, PK_STREAM_RO, PK_HDR_RW, PK_HDR_RW,
                                                    PK_STREAM_RW, PK_STREAM_RW }));
    }
  c["readers"] = readers;
  const bool xops = !readers.empty();
  json ops = json::array();
  auto plain_op = [&](int code, long v) {
    ops.push_back({ code, s.range(0, 999), s.range(0, 999), s.range(0, 999), s.range(0, 999), s.range(0, 999), v, s.range(0, 47) });
  };
  const long SELF = 4; // target: the object that does the operation
  auto X = [&](int code, long peer, long kind, long mode, long target) { plain_op(code, peer + 4 * kind + 32 * mode + 256 * target); };
  // a long-lived object (1..3) three times out of four, else the object under test (0)
  auto a_reader = [&]() -> long { return s.chance(3, 4) ? s.range(1, 3) : 0; };
  // the object under test writes two times out of three, else whatever sits in slot 1..3 (a reader there: the object under test)
  auto a_writer = [&]() -> long { return s.chance(2, 3) ? 0 : s.range(1, 3); };
  auto a_kind = [&]() -> long { return s.chance(1, 3) ? IK_BIN : s.range(0, N_ITEM_KINDS - 1); };
  while (long(ops.size()) < nops)
    {
      if (xops && s.chance(2, 5))
        {
          // interleavings of reads through long-lived objects with writes next to them in the FILE
          const long r = a_reader(), w = a_writer();
          const long K = a_kind();
          const bool same_kind = s.coin();
          auto kind = [&]() -> long { return same_kind ? K : a_kind(); };
          switch (s.range(0, 7))
            {
            case 0: // reader reads k, writer writes k+1, reader reads k+1
              X(X_READ, r, K, s.chance(1, 3) ? AM_NEXT : AM_ABS, r);
              X(X_WRITE, w, kind(), AM_NEXT, r);
              X(X_READ, r, kind(), AM_NEXT, r);
              break;
            case 1: // writer writes k / k-1 / far away, reader reads k again or goes on
              X(X_READ, r, K, AM_ABS, r);
              X(X_WRITE, w, kind(), s.pick(std::vector<long>{ AM_SAME, AM_SAME, AM_PREV, AM_FAR }), r);
              X(X_READ, r, kind(), s.pick(std::vector<long>{ AM_SAME, AM_SAME, AM_PREV, AM_NEXT }), r);
              break;
            case 2: { // a walk through the file: the writer stays one item ahead of the reader
              X(X_READ, r, K, AM_ABS, r);
              const long steps = s.range(2, 3);
              for (long i = 0; i < steps; ++i)
                {
                  X(X_WRITE, w, kind(), AM_NEXT, r);
                  X(X_READ, r, kind(), AM_NEXT, r);
                }
              break;
            }
            case 3: { // reader after reader: a second object looks at the item first, through another path
              const long r2 = a_reader();
              X(X_READ, r, K, AM_ABS, r);
              X(X_WRITE, w, kind(), AM_NEXT, r);
              X(X_READ, r2, a_kind(), AM_NEXT, r);
              X(X_READ, r, kind(), AM_NEXT, r);
              break;
            }
            case 4: { // two writers alternating on one file, then each reads what the other wrote
              const long w2 = s.range(1, 3);
              X(X_WRITE, 0, K, AM_ABS, 0);
              X(X_WRITE, w2, kind(), s.pick(std::vector<long>{ AM_NEXT, AM_NEXT, AM_SAME, AM_PREV }), 0);
              X(X_READ, 0, kind(), s.pick(std::vector<long>{ AM_NEXT, AM_SAME }), w2);
              X(X_WRITE, 0, kind(), AM_NEXT, w2);
              X(X_READ, w2, kind(), AM_NEXT, w2);
              break;
            }
            case 5: // reader reads k, writer writes k+2, reader reads k+1 and then k+2 (reader after reader on the same object)
              X(X_READ, r, K, AM_ABS, r);
              X(X_WRITE, w, K, AM_NEXT2, r);
              X(X_READ, r, K, AM_NEXT, r);
              X(X_READ, r, kind(), AM_NEXT, r);
              break;
            case 6: { // one writer writes k, k+1, k+2 in a row (each call returns first), a reader looks at the last ones
              X(X_WRITE, w, K, AM_ABS, SELF);
              X(X_WRITE, w, K, AM_NEXT, SELF);
              if (s.coin())
                X(X_WRITE, w, K, AM_NEXT, SELF);
              X(X_READ, r, kind(), s.coin() ? AM_SAME : AM_PREV, w);
              break;
            }
            default: // the object under test reads, another object writes next to it, the object under test reads on
              X(X_READ, 0, K, AM_ABS, 0);
              X(X_WRITE, s.range(1, 3), kind(), s.pick(std::vector<long>{ AM_NEXT, AM_NEXT, AM_SAME }), 0);
              X(X_READ, 0, kind(), s.pick(std::vector<long>{ AM_NEXT, AM_NEXT, AM_SAME }), 0);
              break;
            }
          continue;
        }
      if (xops && s.chance(1, 6))
        { // single item operations with any addressing
          X(s.coin() ? X_READ : X_WRITE, s.range(0, 3), a_kind(), s.range(0, N_ADDR_MODES - 1), s.range(0, 3));
          continue;
        }
      const int code = s.pick(codes);
      // (for E_OOB, v selects path x index kind x direction uniformly: no class of out-of-range request is excluded)
      plain_op(code, s.range(0, 999));
    }
  c["ops"] = ops;
  // ---- domain audit AUD_B: boundaries the quantifier covers that the draws above never / practically never produce.  Drawn LAST
  // (the earlier part of the random stream is unchanged); every field is read with a default so that saved cases keep their meaning.
  // (a) time frame of the exam information: the start was k/2 with k uniform in 0..4000 (exactly 0 once in 4001 cases, never
  //     negative).  TimeFrameDefinitions only demands start <= end.
  if (c["exam"]["frame"].is_array())
    {
      const long w = s.range(0, 7);
      const double st0 = c["exam"]["frame"][0].get<double>(), du0 = c["exam"]["frame"][1].get<double>();
      if (w == 0 || w == 1)
        c["exam"]["frame"][0] = 0.;
      else if (w == 2)
        c["exam"]["frame"][0] = -st0 - 0.5; // before the reference time; ends before or after it
      else if (w == 3)
        c["exam"]["frame"][0] = -du0; // ends exactly at the reference time
    }
  // (b) integer storage of 4 and 8 bytes: values that need the upper bytes (see Run::value)
  c["wide"] = s.coin();
  // (c) out-of-range requests further than one step outside
  c["oob_far"] = true;
  // (d) items that belong to an equal ProjDataInfo in another object
  c["twin_info"] = s.chance(1, 3);
  // (e) a segment range that is not symmetric (reduce_segment_range(-a, b), a != b; ProjData::standard_segment_sequence handles
  //     "-segment_num >= min_segment_num" and "segment_num <= max_segment_num" separately): a sub-range of the symmetric one
  if (s.chance(1, 3))
    {
      int max_seg = 0;
      try
        {
          max_seg = vg::make_pdi(sc, c["pdi"])->get_max_segment_num();
        }
      catch (const std::exception&)
        {}
      if (max_seg > 0)
        {
          const int keep = int(s.range(0, max_seg - 1));
          if (!c["pdi"]["trim"].contains("tang_cut"))
            c["pdi"]["trim"]["tang_cut"] = 0;
          if (s.coin())
            {
              c["pdi"]["trim"]["max_seg"] = max_seg;
              c["pdi"]["trim"]["min_seg"] = -keep;
            }
          else
            {
              c["pdi"]["trim"]["max_seg"] = keep;
              c["pdi"]["trim"]["min_seg"] = -max_seg;
            }
          // known finding N6 (even number of segments in a header that is read back), excluded by construction for the
          // file-backed stores, whose histories read the header all the time: one more segment on the short side
          if ((max_seg + keep + 1) % 2 == 0 && backing >= B_FSTREAM && !N6_ASSERTION_ONLY && !no_exclude("N6"))
            {
              if (c["pdi"]["trim"]["max_seg"].get<int>() == keep)
                c["pdi"]["trim"]["max_seg"] = keep + 1;
              else
                c["pdi"]["trim"]["min_seg"] = -(keep + 1);
              vf::stats().excluded_known++;
              vf::stats().count("excluded N6: generator made the number of segments odd for file-backed data");
            }
        }
    }
  return c;
}

// families of access paths (for the non-trivial rule)
int
family_of_write(int code)
{
  return code; // W_BIN..W_ARITH are their own families
}
int
family_of_path(int path)
{
  switch (path % N_PATHS)
    {
    case P_BIN:
      return W_BIN;
    case P_VIEWGRAM:
      return W_VIEWGRAM;
    case P_SINOGRAM:
      return W_SINOGRAM;
    case P_SEG_VIEW:
      return W_SEG_VIEW;
    case P_SEG_SINO:
      return W_SEG_SINO;
    case P_RELATED:
      return W_RELATED;
    default:
      return W_ITER;
    }
}

// DESIGN C02: >= 2 different write paths, >= 1 read through a path other than the last write path, and a
// non-default layout component (permuted sequence, other storage order, non-float type, offset, TOF)
bool
nontrivial(const json& c)
{
  std::set<int> wfam;
  bool cross_read = false;
  int last_write = -1;
  for (auto& op : c["ops"])
    {
      int code = op[0].get<int>();
      if (code == X_WRITE || code == X_READ)
        { // single items through one of the objects on the file: the family is the item kind
          if (c["backing"].get<int>() < B_FSTREAM)
            continue; // (no-ops there)
          const int fam = W_BIN + int((op[6].get<long>() / 4) % 8) % N_ITEM_KINDS;
          if (code == X_WRITE)
            {
              wfam.insert(fam);
              last_write = fam;
              if (family_of_path(op[7].get<int>()) != last_write)
                cross_read = true;
            }
          else if (last_write >= 0 && fam != last_write)
            cross_read = true;
          continue;
        }
      if (code >= W_BIN && code <= W_ARITH)
        {
          wfam.insert(family_of_write(code));
          last_write = family_of_write(code);
          if (family_of_path(op[7].get<int>()) != last_write)
            cross_read = true;
        }
      else if (code >= R_BIN && code <= R_ALL && last_write >= 0)
        {
          const int fam = code == R_ALL ? family_of_path(op[7].get<int>()) : code - 10;
          if (fam != last_write)
            cross_read = true;
        }
    }
  const bool tof = c["pdi"]["tof_mash"].get<int>() > 0;
  bool layout = tof;
  if (c["backing"].get<int>() != B_MEM)
    layout = layout || c["perm"].get<long>() != 0 || c["order"].get<int>() == 1 || c["type"].get<int>() != 0
             || (c["offset"].get<long>() > 0 && c["backing"].get<int>() <= B_FSTREAM);
  return wfam.size() >= 2 && cross_read && layout;
}

} // namespace

const vf::Property&
the_property()
{
  static vf::Property p;
  p.id = "C02";
  p.gen = gen;
  p.check = check;
  p.nontrivial = nontrivial;
  p.shrink_lists = { "ops" };
  p.known_signature = known_signature;
  return p;
}

// C02 private header: the reference model of projection data (plain vector indexed by my own
// enumeration of (segment, axial, view, tangential, TOF)) and the independent byte-level reader
// of the data stream.  Nothing in here calls ProjDataFromStream::get_offset / ProjDataInMemory::get_index.
#pragma once
#include "verif.h"
#include "stir/ProjDataInfo.h"
#include "stir/NumericType.h"
#include "stir/ByteOrder.h"
#include <vector>
#include <cstring>
#include <algorithm>

namespace c02 {

// index ranges of the data set, read once from the ProjDataInfo getters (the configuration)
struct Geo
{
  int min_seg = 0, max_seg = 0;
  std::vector<int> min_ax, max_ax; // per segment (index seg-min_seg)
  int min_view = 0, max_view = 0, min_tang = 0, max_tang = 0, min_tof = 0, max_tof = 0;
  std::vector<std::size_t> seg_base;
  std::size_t n = 0;

  explicit Geo(const stir::ProjDataInfo& p)
  {
    min_seg = p.get_min_segment_num();
    max_seg = p.get_max_segment_num();
    min_view = p.get_min_view_num();
    max_view = p.get_max_view_num();
    min_tang = p.get_min_tangential_pos_num();
    max_tang = p.get_max_tangential_pos_num();
    min_tof = p.get_min_tof_pos_num();
    max_tof = p.get_max_tof_pos_num();
    for (int s = min_seg; s <= max_seg; ++s)
      {
        min_ax.push_back(p.get_min_axial_pos_num(s));
        max_ax.push_back(p.get_max_axial_pos_num(s));
        seg_base.push_back(n);
        n += std::size_t(nax(s)) * nviews() * ntang() * ntof();
      }
  }
  int nseg() const { return max_seg - min_seg + 1; }
  int nviews() const { return max_view - min_view + 1; }
  int ntang() const { return max_tang - min_tang + 1; }
  int ntof() const { return max_tof - min_tof + 1; }
  int minax(int s) const { return min_ax[std::size_t(s - min_seg)]; }
  int maxax(int s) const { return max_ax[std::size_t(s - min_seg)]; }
  int nax(int s) const { return maxax(s) - minax(s) + 1; }
  //! number of bins of one non-TOF data set
  std::size_t n3d() const { return n / std::size_t(ntof()); }
  //! my enumeration: segment ascending, axial, view, tangential, TOF fastest (no library layout looks like this)
  std::size_t idx(int s, int a, int v, int t, int k) const
  {
    return seg_base[std::size_t(s - min_seg)]
           + ((std::size_t(a - minax(s)) * nviews() + std::size_t(v - min_view)) * ntang() + std::size_t(t - min_tang)) * ntof()
           + std::size_t(k - min_tof);
  }
  std::string name(int s, int a, int v, int t, int k) const { return vf::cat("(seg=", s, ",ax=", a, ",view=", v, ",tang=", t, ",tof=", k, ")"); }
};

struct TypeDesc
{
  stir::NumericType::Type id;
  const char* name;
  int size;
  bool integer;
  bool is_signed;
  long kmax; // largest |k| the generator stores (value = k*scale); see value rules in c02_projdata.cxx
};

inline const std::vector<TypeDesc>&
types()
{
  using stir::NumericType;
  // kmax: find_scale_factor() (convert_range.inl:108-125) keeps the object's scale factor only while
  // max(data)/type_max*1.01 <= scale_factor (and min(data)/type_min*1.01 for signed), otherwise it rescales and
  // ProjDataFromStream::set_* reports failure.  k <= 0.97*type_max satisfies this with margin; for the wide types
  // k is kept below 2^20 so that float(k)*scale/scale rounds back to k exactly.
  static const std::vector<TypeDesc> t = {
    { NumericType::FLOAT, "float", 4, false, true, 0 },
    { NumericType::DOUBLE, "double", 8, false, true, 0 },
    { NumericType::SCHAR, "schar", 1, true, true, 120 },
    { NumericType::UCHAR, "uchar", 1, true, false, 245 },
    { NumericType::SHORT, "short", 2, true, true, 31700 },
    { NumericType::USHORT, "ushort", 2, true, false, 63500 },
    { NumericType::INT, "int", int(sizeof(int)), true, true, 1000000 },
    { NumericType::UINT, "uint", int(sizeof(unsigned)), true, false, 1000000 },
    { NumericType::LONG, "long", int(sizeof(long)), true, true, 1000000 },
    { NumericType::ULONG, "ulong", int(sizeof(unsigned long)), true, false, 1000000 },
  };
  return t;
}

// description of the stream layout as given to the constructor (class documentation of ProjDataFromStream:
// "segment_sequence_in_stream[i] is the segment number of the i-th segment in the stream"; StorageOrder names list
// the indices from slowest to fastest; for TOF data the timing position is the slowest index, min..max)
struct Layout
{
  int order = 0; // 0: Segment_View_AxialPos_TangPos, 1: Segment_AxialPos_View_TangPos
  std::vector<int> seq;
  int type = 0; // index into types()
  bool big_endian = false;
  float scale = 1.F;
  long offset = 0;
  const TypeDesc& td() const { return types()[std::size_t(type)]; }
  std::size_t elsize() const { return std::size_t(td().size); }
};

inline std::size_t
byte_pos(const Geo& g, const Layout& L, int s, int a, int v, int t, int k)
{
  std::size_t el = std::size_t(k - g.min_tof) * g.n3d();
  for (int q : L.seq)
    {
      if (q == s)
        break;
      el += std::size_t(g.nax(q)) * g.nviews() * g.ntang();
    }
  if (L.order == 0)
    el += (std::size_t(v - g.min_view) * g.nax(s) + std::size_t(a - g.minax(s))) * g.ntang();
  else
    el += (std::size_t(a - g.minax(s)) * g.nviews() + std::size_t(v - g.min_view)) * g.ntang();
  el += std::size_t(t - g.min_tang);
  return std::size_t(L.offset) + el * L.elsize();
}

inline bool
native_big_endian()
{
  const unsigned short x = 1;
  unsigned char c[2];
  std::memcpy(c, &x, 2);
  return c[0] == 0;
}

//! decode one stored number to the float the library documents: stored number converted to float, times the scale factor
inline float
decode(const unsigned char* p, const Layout& L)
{
  unsigned char b[8];
  const int sz = L.td().size;
  std::memcpy(b, p, std::size_t(sz));
  if (L.big_endian != native_big_endian())
    std::reverse(b, b + sz);
  float f = 0.F;
  switch (L.td().id)
    {
#define C02_CASE(ID, T)                                                                                                          \
  case stir::NumericType::ID: {                                                                                                  \
    T x;                                                                                                                         \
    std::memcpy(&x, b, sizeof(T));                                                                                               \
    f = static_cast<float>(x);                                                                                                   \
    break;                                                                                                                       \
  }
      C02_CASE(FLOAT, float);
      C02_CASE(DOUBLE, double);
      C02_CASE(SCHAR, signed char);
      C02_CASE(UCHAR, unsigned char);
      C02_CASE(SHORT, short);
      C02_CASE(USHORT, unsigned short);
      C02_CASE(INT, int);
      C02_CASE(UINT, unsigned int);
      C02_CASE(LONG, long);
      C02_CASE(ULONG, unsigned long);
#undef C02_CASE
    default:
      break;
    }
  return f * L.scale;
}

} // namespace c02

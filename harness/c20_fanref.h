// Reference side for the component-based normalisation model of stir/ML_norm.h (used by C20 and C13).
// Nothing here calls a function of ML_norm.cxx except the plain element accessors of the containers
// (FanProjData / GeoData3D operator()), which are the only public way to read them.
#pragma once
#include "stir_gen.h"
#include "stir/ML_norm.h"
#include "stir/ProjDataInMemory.h"
#include "stir/ExamInfo.h"
#include "stir/SegmentBySinogram.h"
#include "stir/DetectionPositionPair.h"
#include <vector>
#include <numeric>
#include <cmath>

namespace c20 {
using namespace stir;
using vf::json;

// ---- scanners ------------------------------------------------------------------------------------
// Virtual crystals are hard-wired per Scanner::Type (Scanner::get_num_virtual_*_crystals_per_block, Scanner.cxx:1604-1633;
// the setters call error() for any other value).  A scanner "of a family" is built through the public constructor with that
// Type and generated (small) dimensions, so that the gap code is exercised on sizes that can be enumerated completely.
inline shared_ptr<Scanner>
make_scanner(const json& j)
{
  if (!j.contains("family"))
    return vg::make_scanner(j);
  vg::quiet();
  const Scanner::Type t = static_cast<Scanner::Type>(j["family"].get<int>());
  return shared_ptr<Scanner>(new Scanner(t,
                                         std::string("verif_family"),
                                         j["ndet"].get<int>(),
                                         j["rings"].get<int>(),
                                         j["max_tang"].get<int>(),
                                         j["max_tang"].get<int>(),
                                         j["radius"].get<float>(),
                                         j["doi"].get<float>(),
                                         j["ring_spacing"].get<float>(),
                                         j["bin_size"].get<float>(),
                                         0.F,
                                         j["ax_blocks_per_bucket"].get<int>(),
                                         j["tr_blocks_per_bucket"].get<int>(),
                                         j["ax_cryst_per_block"].get<int>(),
                                         j["tr_cryst_per_block"].get<int>(),
                                         1,
                                         1,
                                         1,
                                         0.12F,
                                         511.F,
                                         short(-1),
                                         -1.F,
                                         -1.F,
                                         "Cylindrical"));
}

//! block structure of a scanner in the terms ML_norm.cxx uses
struct Blocks
{
  int n, nr;         // detectors per ring / rings, including virtual ones
  int c_tr, c_ax;    // crystals per block including virtual ones
  int v_tr, v_ax;    // virtual crystals per block
  int p_tr, p_ax;    // physical crystals per block
  int nb_tr, nb_ax;  // blocks
  int nphys, nrphys; // physical detectors per ring / rings
  int bpb_tr, bpb_ax, nbuckets_tr, nbuckets_ax;

  static Blocks from(const Scanner& sc)
  {
    Blocks b;
    b.n = sc.get_num_detectors_per_ring();
    b.nr = sc.get_num_rings();
    b.c_tr = sc.get_num_transaxial_crystals_per_block();
    b.c_ax = sc.get_num_axial_crystals_per_block();
    b.v_tr = sc.get_num_virtual_transaxial_crystals_per_block();
    b.v_ax = sc.get_num_virtual_axial_crystals_per_block();
    b.p_tr = b.c_tr - b.v_tr;
    b.p_ax = b.c_ax - b.v_ax;
    b.nb_tr = sc.get_num_transaxial_blocks();
    b.nb_ax = sc.get_num_axial_blocks();
    b.nphys = b.n - b.nb_tr * b.v_tr;
    b.nrphys = b.nr - (b.nb_ax - 1) * b.v_ax; // no virtual ring after the last block (Scanner::get_num_axial_blocks)
    b.bpb_tr = sc.get_num_transaxial_blocks_per_bucket();
    b.bpb_ax = sc.get_num_axial_blocks_per_bucket();
    b.nbuckets_tr = sc.get_num_transaxial_buckets();
    b.nbuckets_ax = sc.get_num_axial_buckets();
    return b;
  }
  // "Transaxial blocks have N physical crystals and a gap at the (N+1)th crystal" (Scanner.cxx, mMR/mCT comments):
  // the virtual crystals are the last ones of each block
  bool virt_tr(int a) const { return a % c_tr >= p_tr; }
  bool virt_ax(int r) const { return r % c_ax >= p_ax; }
  int new_tr(int a) const { return a - (a / c_tr) * v_tr; }
  int new_ax(int r) const { return r - (r / c_ax) * v_ax; }
  int orig_tr(int na) const { return na + (na / p_tr) * v_tr; }
  int orig_ax(int nr_) const { return nr_ + (nr_ / p_ax) * v_ax; }
};

// ---- flat storage for all bins of non-TOF projection data ---------------------------------------
struct BinStore
{
  shared_ptr<const ProjDataInfo> pdi;
  std::vector<long> seg_offset; // indexed by seg - min_seg
  long nv, nt, total;
  int min_seg, min_view, min_tang;
  explicit BinStore(const shared_ptr<const ProjDataInfo>& p)
      : pdi(p)
  {
    min_seg = p->get_min_segment_num();
    min_view = p->get_min_view_num();
    min_tang = p->get_min_tangential_pos_num();
    nv = p->get_num_views();
    nt = p->get_num_tangential_poss();
    total = 0;
    for (int s = p->get_min_segment_num(); s <= p->get_max_segment_num(); ++s)
      {
        seg_offset.push_back(total);
        total += long(p->get_num_axial_poss(s)) * nv * nt;
      }
  }
  bool in_range(int s, int a, int v, int t) const
  {
    const ProjDataInfo& p = *pdi;
    return s >= p.get_min_segment_num() && s <= p.get_max_segment_num() && a >= p.get_min_axial_pos_num(s) && a <= p.get_max_axial_pos_num(s)
           && v >= p.get_min_view_num() && v <= p.get_max_view_num() && t >= p.get_min_tangential_pos_num() && t <= p.get_max_tangential_pos_num();
  }
  long index(int s, int a, int v, int t) const
  {
    return seg_offset[std::size_t(s - min_seg)] + (long(a - pdi->get_min_axial_pos_num(s)) * nv + (v - min_view)) * nt + (t - min_tang);
  }
  //! write a flat vector into (non-TOF) projection data, segment by segment
  void to_projdata(ProjData& pd, const std::vector<float>& v) const
  {
    const ProjDataInfo& p = *pdi;
    for (int s = p.get_min_segment_num(); s <= p.get_max_segment_num(); ++s)
      {
        SegmentBySinogram<float> seg = pd.get_empty_segment_by_sinogram(s);
        for (int a = p.get_min_axial_pos_num(s); a <= p.get_max_axial_pos_num(s); ++a)
          for (int vw = p.get_min_view_num(); vw <= p.get_max_view_num(); ++vw)
            for (int t = p.get_min_tangential_pos_num(); t <= p.get_max_tangential_pos_num(); ++t)
              seg[a][vw][t] = v[std::size_t(index(s, a, vw, t))];
        if (pd.set_segment(seg) != Succeeded::yes)
          error("BinStore::to_projdata: set_segment failed");
      }
  }
  std::vector<float> from_projdata(const ProjData& pd) const
  {
    std::vector<float> v(std::size_t(total), 0.F);
    const ProjDataInfo& p = *pdi;
    for (int s = p.get_min_segment_num(); s <= p.get_max_segment_num(); ++s)
      {
        const SegmentBySinogram<float> seg = pd.get_segment_by_sinogram(s);
        for (int a = p.get_min_axial_pos_num(s); a <= p.get_max_axial_pos_num(s); ++a)
          for (int vw = p.get_min_view_num(); vw <= p.get_max_view_num(); ++vw)
            for (int t = p.get_min_tangential_pos_num(); t <= p.get_max_tangential_pos_num(); ++t)
              v[std::size_t(index(s, a, vw, t))] = seg[a][vw][t];
      }
    return v;
  }
};

// ---- the fan geometry as ML_norm.h defines it -------------------------------------------------------
//! sizes that make_fan_data_remove_gaps derives (ML_norm.cxx:1066-1090, get_fan_info 974-995)
struct FanDims
{
  int half_fan; // in bin terms: bins with |tang| <= half_fan take part
  int fan_size;
  int max_delta;
  int new_half_fan, new_max_delta; // after removal of the virtual crystals
  static FanDims from(const ProjDataInfo& p, const Blocks& b)
  {
    FanDims f;
    f.half_fan = std::min(p.get_max_tangential_pos_num(), -p.get_min_tangential_pos_num());
    f.fan_size = 2 * f.half_fan + 1;
    f.max_delta = p.get_max_segment_num();
    const int new_fan = f.fan_size - (f.fan_size / b.c_tr) * b.v_tr;
    f.new_half_fan = new_fan / 2;
    f.new_max_delta = f.max_delta - (f.max_delta / b.c_ax) * b.v_ax;
    return f;
  }
  //! preconditions asserted by the FanProjData constructor (ML_norm.cxx:729-731)
  bool constructible(const Blocks& b) const { return b.nphys % 2 == 0 && new_max_delta < b.nrphys && 2 * new_half_fan + 1 < b.nphys; }
};

//! hash -> uniform real in [lo,hi), pure function of (seed, key)
inline double
hreal(uint64_t seed, uint64_t key, double lo, double hi)
{
  vf::SplitMix g(seed ^ (key * 0x9e3779b97f4a7c15ULL + 0x632be59bd9b4e019ULL));
  g.next();
  return g.real(lo, hi);
}

//! key of an unordered pair of detectors ((ra,a),(rb,b)), a,b in [0,n)
inline uint64_t
pair_key(int ra, int a, int rb, int b, int n)
{
  uint64_t p = uint64_t(ra) * uint64_t(n) + uint64_t(a), q = uint64_t(rb) * uint64_t(n) + uint64_t(b);
  if (p > q)
    std::swap(p, q);
  return p * 1000003ULL + q;
}

// ---- symmetry classes of the geometric factors --------------------------------------------------------
// Equivalence generated by everything apply_geo_norm / make_geo_data may use (ML_norm.cxx:1338-1411, 1535-1600):
// exchange of the two detectors, rotation by one transaxial unit, translation by one axial unit (where both rings stay
// inside), transaxial mirror a -> n-1-a, axial mirror r -> nr-1-r.  Geometric factors generated constant on these classes
// have an unambiguous expected effect whichever representative the library picks.
struct GeoClasses
{
  int n, nr, unit_tr, unit_ax;
  std::vector<int> parent;
  long id(int ra, int a, int rb, int b) const { return ((long(ra) * n + a) * nr + rb) * n + b; }
  int find(int x)
  {
    while (parent[std::size_t(x)] != x)
      {
        parent[std::size_t(x)] = parent[std::size_t(parent[std::size_t(x)])];
        x = parent[std::size_t(x)];
      }
    return x;
  }
  void unite(long x, long y)
  {
    const int a = find(int(x)), b = find(int(y));
    if (a != b)
      parent[std::size_t(std::max(a, b))] = std::min(a, b);
  }
  GeoClasses(int n_, int nr_, int unit_tr_, int unit_ax_)
      : n(n_),
        nr(nr_),
        unit_tr(unit_tr_),
        unit_ax(unit_ax_),
        parent(std::size_t(n_) * n_ * nr_ * nr_)
  {
    std::iota(parent.begin(), parent.end(), 0);
    for (int ra = 0; ra < nr; ++ra)
      for (int a = 0; a < n; ++a)
        for (int rb = 0; rb < nr; ++rb)
          for (int b = 0; b < n; ++b)
            {
              const long x = id(ra, a, rb, b);
              unite(x, id(rb, b, ra, a));
              unite(x, id(ra, (a + unit_tr) % n, rb, (b + unit_tr) % n));
              if (ra + unit_ax < nr && rb + unit_ax < nr)
                unite(x, id(ra + unit_ax, a, rb + unit_ax, b));
              unite(x, id(ra, n - 1 - a, rb, n - 1 - b));
              unite(x, id(nr - 1 - ra, a, nr - 1 - rb, b));
            }
  }
  int cls(int ra, int a, int rb, int b) { return find(int(id(ra, a, rb, ((b % n) + n) % n))); }
};

// ---- KL -----------------------------------------------------------------------------------------------
//! Kullback-Leibler term as documented in ML_norm.h (a <= threshold ? b : a log(a/b) + b - a), in double
inline double
kl_term(double a, double b, double thr = 0.)
{
  if (a <= thr)
    return b;
  return a * (std::log(a) - std::log(b)) + b - a;
}

} // namespace c20

// C14 — list-mode histogramming and list-mode likelihood agree with the event list.
//
// A harness-side list-mode source (SyntheticCListModeData, public CListModeData interface only) replays a
// generated record stream: time marks (ms), prompts and delayeds given by detector pair / rings / unmashed TOF
// index.  Its events derive from CListEventScannerWithDiscreteDetectors<ProjDataInfoCylindricalNoArcCorr>, so
// STIR's own event->bin code runs.  LmToProjData is driven through its public setters; the oracle is a
// dictionary bin->count computed from the record list with the documented stream semantics.
// Likelihood clause: PoissonLogLikelihoodWithLinearModelForMeanAndListModeDataWithProjMatrixByBin on the same
// stream vs. the projection-data objective on the histogram vs. an explicit sparse matrix.
#include "stir_gen.h"
#include "explicit_p.h"
#include "stir/listmode/CListModeData.h"
#include "stir/listmode/CListRecord.h"
#include "stir/listmode/CListEventScannerWithDiscreteDetectors.h"
#include "stir/listmode/LmToProjData.h"
#include "stir/TimeFrameDefinitions.h"
#include "stir/ExamInfo.h"
#include "stir/ProjData.h"
#include "stir/ProjDataInMemory.h"
#include "stir/DetectionPositionPair.h"
#include "stir/recon_buildblock/PoissonLogLikelihoodWithLinearModelForMeanAndListModeDataWithProjMatrixByBin.h"
#include "stir/recon_buildblock/PoissonLogLikelihoodWithLinearModelForMeanAndProjData.h"
#include "stir/recon_buildblock/ProjectorByBinPairUsingProjMatrixByBin.h"
#include "stir/recon_buildblock/BinNormalisationFromProjData.h"
#include <filesystem>
#include <sstream>
#include <iostream>
#include <unistd.h>

using namespace vf;
using namespace stir;

namespace {

typedef DiscretisedDensity<3, float> target_type;

// Known findings (work/notes/C14_findings.md) are excluded by construction unless VERIF_NO_EXCLUDE=1
bool
exclusions_on()
{
  static const bool on = []() {
    const char* e = std::getenv("VERIF_NO_EXCLUDE");
    return !(e && *e && std::string(e) != "0");
  }();
  return on;
}

//! narrow work-arounds are counted per finding (same counter names as the run-time uses for whole-case signatures)
const char* const SIG_F5 = "C14:file-output:tof-template-mashed-to-one-tof-bin";
void
excluded(const char* sig)
{
  vf::stats().excluded_known++;
  vf::stats().count(std::string("excluded:") + sig);
}

//! switches STIR's assert()s off (= what a Release build executes) for a scope
struct AssertsOff
{
  bool active;
  explicit AssertsOff(bool a)
      : active(a)
  {
    if (active)
      stir_verif::asserts_on = false;
  }
  ~AssertsOff()
  {
    if (active)
      stir_verif::asserts_on = true;
  }
};

// ---- temporary files: one directory per case under VERIF_TMP, removed at the end of the case -------------
std::string
tmp_root()
{
  const char* e = std::getenv("VERIF_TMP");
  std::string d = (e && *e) ? std::string(e) : cat("/tmp/verif_", long(getpid()));
  std::error_code ec;
  std::filesystem::create_directories(d, ec);
  return d;
}
struct CaseDir
{
  std::string path;
  CaseDir()
  {
    static long counter = 0;
    path = cat(tmp_root(), "/c14_", long(getpid()), "_", counter++);
    std::error_code ec;
    std::filesystem::remove_all(path, ec);
    std::filesystem::create_directories(path, ec);
  }
  ~CaseDir()
  {
    std::error_code ec;
    std::filesystem::remove_all(path, ec);
  }
};

// ---- the record stream --------------------------------------------------------------------------------
struct Rec
{
  int kind; // 0 time mark, 1 prompt, 2 delayed
  unsigned long ms;
  int d1, r1, d2, r2, tof;
};

inline long
pmod(long a, long m)
{
  return ((a % m) + m) % m;
}

//! decodes the raw integer tuples of the Case (arguments modulo the scanner, so every sub-sequence is valid)
struct Decoder
{
  int ndet, rings, ntof_scanner; // ntof_scanner = 0 for a non-TOF scanner
  bool has_delayeds;
  unsigned long now = 0;
  std::vector<Rec> out;
  void time(long dt)
  {
    now += static_cast<unsigned long>(std::max<long>(1, std::min<long>(dt, 1000000))); // marks strictly increase (ms)
    out.push_back(Rec{ 0, now, 0, 0, 0, 0, 0 });
  }
  void event(long kind, long a, long b, long c, long d, long e)
  {
    Rec r;
    r.kind = (kind == 2 && has_delayeds) ? 2 : 1;
    r.ms = 0;
    r.d1 = int(pmod(a, ndet));
    r.d2 = int((r.d1 + 1 + pmod(b, ndet - 1)) % ndet); // d1 != d2 by construction (the view/tangential lookup asserts it)
    r.r1 = int(pmod(c, rings));
    r.r2 = int(pmod(d, rings));
    // unmashed TOF index: the scanner's range is -(N/2)..N/2; two steps outside on both sides are generated as well
    if (ntof_scanner > 0)
      {
        const int half = ntof_scanner / 2 + 2;
        r.tof = int(pmod(e + half, 2 * half + 1)) - half;
      }
    else
      r.tof = 0;
    out.push_back(r);
  }
  void tuple(const json& t)
  {
    if (!t.is_array() || t.empty())
      return;
    const long k = t[0].get<long>();
    auto arg = [&](std::size_t i) { return i < t.size() ? t[i].get<long>() : 0L; };
    if (k == 0)
      time(arg(1));
    else
      event(k, arg(1), arg(2), arg(3), arg(4), arg(5));
  }
  //! seeded tail (bulk data is a pure function of the seed)
  void bulk(uint64_t seed, long n, int mark_pct, int delayed_pct, long maxdt)
  {
    SplitMix g(seed);
    for (long i = 0; i < n; ++i)
      {
        const long u = g.range(0, 99);
        if (u < mark_pct)
          time(1 + g.range(0, maxdt));
        else if (!out.empty() && g.range(0, 5) == 0)
          { // repeat an earlier event (piles counts up in one bin, lets prompts and delayeds cancel)
            const Rec& q = out[std::size_t(g.range(0, long(out.size()) - 1))];
            if (q.kind != 0)
              {
                Rec r = q;
                r.kind = (g.range(0, 99) < delayed_pct && has_delayeds) ? 2 : 1;
                out.push_back(r);
              }
          }
        else
          event(g.range(0, 99) < delayed_pct ? 2 : 1, g.range(0, 9999), g.range(0, 9999), g.range(0, 99), g.range(0, 99), g.range(0, 99));
      }
  }
};

std::vector<Rec>
decode_stream(const json& c, const Scanner& sc)
{
  Decoder d;
  d.ndet = sc.get_num_detectors_per_ring();
  d.rings = sc.get_num_rings();
  d.ntof_scanner = sc.is_tof_ready() ? sc.get_max_num_timing_poss() : 0;
  d.has_delayeds = c["has_delayeds"].get<bool>();
  for (const json& t : c["stream"])
    d.tuple(t);
  if (c.contains("bulk") && c["bulk"].is_object())
    {
      const json& b = c["bulk"];
      d.bulk(b["seed"].get<uint64_t>(), b["n"].get<long>(), b["mark_pct"].get<int>(), b["delayed_pct"].get<int>(), b["maxdt"].get<long>());
    }
  return d.out;
}

// ---- the synthetic list-mode source -------------------------------------------------------------------
class SynthEvent : public CListEventScannerWithDiscreteDetectors<ProjDataInfoCylindricalNoArcCorr>
{
  typedef CListEventScannerWithDiscreteDetectors<ProjDataInfoCylindricalNoArcCorr> base_type;

public:
  explicit SynthEvent(const shared_ptr<const ProjDataInfo>& pdi)
      : base_type(pdi)
  {}
  bool is_prompt() const override { return prompt; }
  Succeeded set_prompt(const bool p = true) override
  {
    prompt = p;
    return Succeeded::yes;
  }
  void get_detection_position(DetectionPositionPair<>& dp) const override { dp = pos; }
  void set_detection_position(const DetectionPositionPair<>& dp) override { pos = dp; }

private:
  DetectionPositionPair<> pos;
  bool prompt = true;
};

class SynthTime : public ListTime
{
public:
  unsigned long get_time_in_millisecs() const override { return ms; }
  Succeeded set_time_in_millisecs(const unsigned long t) override
  {
    ms = t;
    return Succeeded::yes;
  }

private:
  unsigned long ms = 0;
};

class SynthRecord : public CListRecord
{
public:
  explicit SynthRecord(const shared_ptr<const ProjDataInfo>& pdi)
      : ev(pdi)
  {}
  bool is_time() const override { return kind == 0; }
  bool is_event() const override { return kind != 0; }
  ListEvent& event() override { return ev; }
  const ListEvent& event() const override { return ev; }
  ListTime& time() override { return tm; }
  const ListTime& time() const override { return tm; }
  void load(const Rec& r)
  {
    kind = r.kind;
    if (r.kind == 0)
      tm.set_time_in_millisecs(r.ms);
    else
      {
        ev.set_detection_position(DetectionPositionPair<>(DetectionPosition<>(r.d1, r.r1, 0), DetectionPosition<>(r.d2, r.r2, 0), r.tof));
        ev.set_prompt(r.kind == 1);
      }
  }

private:
  int kind = 1;
  SynthEvent ev;
  SynthTime tm;
};

class SyntheticCListModeData : public CListModeData
{
public:
  SyntheticCListModeData(const std::vector<Rec>& recs, const shared_ptr<const ProjDataInfo>& pdi, bool delayeds)
      : recs(recs),
        delayeds(delayeds)
  {
    this->exam_info_sptr.reset(new ExamInfo(ImagingModality::PT));
    this->set_proj_data_info_sptr(pdi);
  }
  std::string get_name() const override { return "synthetic list-mode stream"; }
  shared_ptr<CListRecord> get_empty_record_sptr() const override
  {
    return shared_ptr<CListRecord>(new SynthRecord(this->get_proj_data_info_sptr()));
  }
  Succeeded get_next_record(CListRecord& r) const override
  {
    if (pos >= recs.size())
      return Succeeded::no;
    static_cast<SynthRecord&>(r).load(recs[pos++]);
    ++num_reads;
    return Succeeded::yes;
  }
  Succeeded reset() override
  {
    pos = 0;
    return Succeeded::yes;
  }
  SavedPosition save_get_position() override
  {
    saved.push_back(pos);
    return static_cast<SavedPosition>(saved.size() - 1);
  }
  Succeeded set_get_position(const SavedPosition& p) override
  {
    if (p >= saved.size())
      return Succeeded::no;
    pos = saved[p];
    ++num_rewinds;
    return Succeeded::yes;
  }
  bool has_delayeds() const override { return delayeds; }

  mutable long num_reads = 0;
  long num_rewinds = 0;

private:
  std::vector<Rec> recs;
  bool delayeds;
  mutable std::size_t pos = 0;
  std::vector<std::size_t> saved;
};

// ---- LmToProjData: the one control without a public setter --------------------------------------------
// num_TOF_bins_in_memory can only be set by parsing (keyword "num_TOF_bins_in_memory") or by a derived class.
// Both routes are used (Case flag): a derived class writing the protected member, or parsing a parameter text that
// contains only this keyword (post_processing then reports the missing input file, which is ignored: all other
// parameters are given through the public setters afterwards).
struct LmToProjDataWithTOFBatches : public LmToProjData
{
  void set_num_TOF_bins_in_memory(int v)
  {
    this->num_timing_poss_in_memory = v;
    this->_already_setup = false;
  }
  bool get_do_time_frame() const { return this->do_time_frame; }
};

struct World
{
  shared_ptr<Scanner> sc;
  shared_ptr<ProjDataInfo> tmpl; // the template (the oracle's own object; LmToProjData clones what it is given)
  const ProjDataInfoCylindricalNoArcCorr* cyl = nullptr;
  std::vector<Rec> recs;
  bool has_delayeds = true;
  vp::ExplicitP index; // only pdi + enumeration are used here (bin <-> linear index)
  std::vector<Bin> bins;
};

shared_ptr<ProjDataInfo>
make_template(const shared_ptr<Scanner>& sc, const json& c)
{
  shared_ptr<ProjDataInfo> p = vg::make_pdi(sc, c["pdi"]);
  if (c.contains("ax_trim") && c["ax_trim"].is_array() && c["ax_trim"].size() == 3)
    { // truncated axial range of one segment (set_min/max_axial_pos_num are public ProjDataInfo setters)
      const int nseg = p->get_num_segments();
      const int seg = p->get_min_segment_num() + int(pmod(c["ax_trim"][0].get<long>(), nseg));
      // symmetric only: ProjDataInfoCylindrical derives the axial origin from (min+max)/2, so an asymmetric change is a
      // shifted geometry (which initialise_ring_diff_arrays error()s on for span > 1), not a truncation
      const int lo = int(pmod(c["ax_trim"][1].get<long>(), 3)), hi = lo;
      if (p->get_num_axial_poss(seg) > lo + hi)
        {
          p->set_min_axial_pos_num(p->get_min_axial_pos_num(seg) + lo, seg);
          p->set_max_axial_pos_num(p->get_max_axial_pos_num(seg) - hi, seg);
        }
    }
  return p;
}

World
make_world(const json& c)
{
  World w;
  w.sc = vg::make_scanner(c["scanner"]);
  if (w.sc->check_consistency() != Succeeded::yes)
    throw std::runtime_error("scanner inconsistent");
  w.tmpl = make_template(w.sc, c);
  w.cyl = dynamic_cast<const ProjDataInfoCylindricalNoArcCorr*>(w.tmpl.get());
  if (!w.cyl)
    throw std::runtime_error("template is not ProjDataInfoCylindricalNoArcCorr");
  {
    // force the lazily built ring-difference tables now: their error() ("axial positions do not correspond...") is a
    // rejection of the geometry at construction, not an outcome of histogramming
    int sg, ax;
    w.cyl->get_segment_axial_pos_num_for_ring_pair(sg, ax, 0, 0);
  }
  w.has_delayeds = c["has_delayeds"].get<bool>();
  w.recs = decode_stream(c, *w.sc);
  w.index.pdi = w.tmpl;
  vp::ExplicitP::enumerate_bins(*w.tmpl, w.index.bins);
  w.bins = w.index.bins;
  return w;
}

// ---- the oracle ---------------------------------------------------------------------------------------
struct Selection
{
  bool use_time = false; // frame [s_ms, e_ms)
  long s_ms = 0, e_ms = 0;
  long cut = 0; // > 0: stop when the net number of stored counts reaches cut
};

struct Expect
{
  std::vector<double> hist; // linear bin index (ExplicitP enumeration order)
  long n_in_frame = 0, n_accepted = 0, n_out_of_range = 0, n_negative_bins = 0, n_prompts_acc = 0, n_delayeds_acc = 0;
  bool cut_reached = false;
};

//! bin of an event according to the geometry (C01 decides this map), -1 if outside the template's ranges
long
bin_of(const World& w, const Rec& r)
{
  Bin b;
  const DetectionPositionPair<> dp(DetectionPosition<>(r.d1, r.r1, 0), DetectionPosition<>(r.d2, r.r2, 0), r.tof);
  if (w.cyl->get_bin_for_det_pos_pair(b, dp) != Succeeded::yes)
    return -1;
  return w.index.bin_index(b); // tests all five index ranges
}

Expect
expected(const World& w, const Selection& sel, bool store_prompts, bool store_delayeds)
{
  // documented semantics (LmToProjData.h / LmToProjData.cxx comments):
  //  * list-mode data starts at time 0; an event carries the time of the most recent time mark before it
  //  * it belongs to frame [s,e) iff that time is in [s,e)
  //  * prompts add +1 if stored; delayeds add -1 when both are stored, +1 when only delayeds are stored, else nothing
  //  * num_events_to_store counts "the total of prompts-delayeds"
  const int inc_prompt = store_prompts ? 1 : 0;
  const int inc_delayed = store_prompts ? (store_delayeds ? -1 : 0) : (store_delayeds ? 1 : 0);
  Expect ex;
  ex.hist.assign(w.bins.size(), 0.);
  unsigned long now = 0;
  long net = 0;
  for (const Rec& r : w.recs)
    {
      if (r.kind == 0)
        {
          now = r.ms;
          continue;
        }
      if (sel.use_time && !(long(now) >= sel.s_ms && long(now) < sel.e_ms))
        continue;
      ++ex.n_in_frame;
      const long idx = bin_of(w, r);
      if (idx < 0)
        {
          ++ex.n_out_of_range;
          continue;
        }
      const int inc = r.kind == 1 ? inc_prompt : inc_delayed;
      if (inc == 0)
        continue;
      ex.hist[std::size_t(idx)] += inc;
      ++ex.n_accepted;
      (r.kind == 1 ? ex.n_prompts_acc : ex.n_delayeds_acc)++;
      net += inc;
      if (sel.cut > 0 && net == sel.cut)
        {
          ex.cut_reached = true;
          break;
        }
    }
  for (double v : ex.hist)
    if (v < 0)
      ++ex.n_negative_bins;
  return ex;
}

//! statistics only: when the records up to the first time mark >= start have been skipped, the current time is already
//! >= end and the next record is an event (a frame without a time mark inside: nothing of that stretch belongs to it)
bool
frame_over_at_entry(const World& w, long s_ms, long e_ms)
{
  std::size_t pos = 0;
  long cur = 0;
  while (cur < s_ms && pos < w.recs.size())
    {
      const Rec& r = w.recs[pos++];
      if (r.kind == 0)
        cur = long(r.ms);
    }
  return cur >= e_ms && pos < w.recs.size() && w.recs[pos].kind != 0;
}

// ---- running LmToProjData -----------------------------------------------------------------------------
struct RunCfg
{
  int nseg = -1, ntof = -1;
  bool to_file = false, tof_via_parser = false;
};

TimeFrameDefinitions
frames_of(const std::vector<std::pair<long, long>>& f)
{
  std::vector<std::pair<double, double>> v;
  for (auto& p : f)
    v.push_back(std::make_pair(double(p.first) / 1000., double(p.second) / 1000.)); // same ms -> s conversion as ListTime::get_time_in_secs
  return TimeFrameDefinitions(v);
}

//! one process_data() call; returns one flattened histogram per frame (a single one when no frames are given)
std::vector<std::vector<double>>
run_lm_to_projdata(const World& w,
                   const shared_ptr<SyntheticCListModeData>& lm,
                   const std::vector<std::pair<long, long>>& frames,
                   long cut,
                   const RunCfg& cfg,
                   bool store_prompts,
                   bool store_delayeds,
                   const std::string& dir,
                   bool* did_time_frame = nullptr)
{
  LmToProjDataWithTOFBatches conv;
  if (cfg.tof_via_parser)
    {
      std::istringstream par(cat("lm_to_projdata Parameters:=\nnum_TOF_bins_in_memory := ", cfg.ntof, "\nEND:=\n"));
      conv.parse(par); // returns false (no input file keyword): ignored, see above
    }
  else
    conv.set_num_TOF_bins_in_memory(cfg.ntof);
  conv.set_input_data(static_pointer_cast<ExamData>(lm));
  conv.set_template_proj_data_info_sptr(w.tmpl);
  conv.set_num_segments_in_memory(cfg.nseg);
  conv.set_store_prompts(store_prompts);
  conv.set_store_delayeds(store_delayeds);
  conv.set_num_events_to_store(cut);
  if (!frames.empty())
    conv.set_time_frame_definitions(frames_of(frames));
  static long run_counter = 0;
  const std::string prefix = cat(dir, "/out", run_counter++);
  conv.set_output_filename_prefix(prefix); // set_up() insists on a prefix even when the output object is given
  shared_ptr<ProjData> out;
  if (!cfg.to_file)
    {
      out.reset(new ProjDataInMemory(lm->get_exam_info_sptr(), w.tmpl)); // zero-initialised
      conv.set_output_projdata_sptr(out);
    }
  if (conv.set_up() != Succeeded::yes)
    throw std::runtime_error("LmToProjData::set_up failed");
  if (did_time_frame)
    *did_time_frame = conv.get_do_time_frame();
  lm->reset(); // process_data() reads on from the current position
  {
    // process_data() prints progress ("\r<n> events stored", no newline) on std::cout, which the driver parses for FAIL lines
    struct CoutSilencer
    {
      std::ostringstream sink;
      std::streambuf* old;
      CoutSilencer() : old(std::cout.rdbuf(sink.rdbuf())) {}
      ~CoutSilencer() { std::cout.rdbuf(old); }
    } silence;
    conv.process_data();
  }
  std::vector<std::vector<double>> res;
  if (!cfg.to_file)
    res.push_back(w.index.projdata_to_vec(*out));
  else
    {
      const std::size_t nf = frames.empty() ? 1 : frames.size();
      for (std::size_t f = 1; f <= nf; ++f)
        {
          const std::string name = cat(prefix, "_f", f, "g1d0b0.hs"); // documented naming of LmToProjData outputs
          shared_ptr<ProjData> pd = ProjData::read_from_file(name);
          if (*pd->get_proj_data_info_sptr() != *w.tmpl)
            throw std::runtime_error("output file has a different projection data info than the template");
          res.push_back(w.index.projdata_to_vec(*pd));
        }
    }
  return res;
}

std::string
show_bin(const Bin& b)
{
  return cat("(seg ", b.segment_num(), ", ax ", b.axial_pos_num(), ", view ", b.view_num(), ", tang ", b.tangential_pos_num(), ", tof ", b.timing_pos_num(), ")");
}

Result
compare_hist(const World& w, const std::vector<double>& got, const std::vector<double>& want, const std::string& ctx)
{
  VF_CHECK(got.size() == want.size(), ctx, ": size ", got.size(), " vs ", want.size());
  long ndiff = 0;
  std::size_t first = 0;
  double sum_got = 0, sum_want = 0;
  for (std::size_t i = 0; i < got.size(); ++i)
    {
      sum_got += got[i];
      sum_want += want[i];
      if (got[i] != want[i] && ndiff++ == 0)
        first = i;
    }
  VF_CHECK(ndiff == 0, ctx, ": histogram differs from the event list in ", ndiff, " bins; first ", show_bin(w.bins[first]), " stored ", got[first],
           " expected ", want[first], "; totals stored ", sum_got, " expected ", sum_want);
  return Result::pass();
}

#define PROPAGATE(expr)                                                                                                          \
  do                                                                                                                             \
    {                                                                                                                            \
      ::vf::Result r__ = (expr);                                                                                                 \
      if (r__.kind != ::vf::Result::PASS)                                                                                        \
        return r__;                                                                                                              \
    }                                                                                                                            \
  while (0)

int
num_batches(const World& w, const RunCfg& r)
{
  const int nseg = w.tmpl->get_num_segments(), ntof = w.tmpl->get_num_tof_poss();
  const int a = (r.nseg == -1) ? nseg : std::min(r.nseg, nseg);
  const int b = (r.ntof == -1) ? ntof : std::min(r.ntof, ntof);
  return ((nseg + a - 1) / a) * ((ntof + b - 1) / b);
}

std::vector<RunCfg>
run_cfgs(const json& c, bool single_tof_bin_template, bool axial_range_not_from_zero)
{
  std::vector<RunCfg> v;
  for (const json& r : c["runs"])
    {
      RunCfg x;
      // domain (DESIGN C14): 1...all and -1; larger values are clamped by set_up() (min with the number of segments).
      // 0 and other negative values are outside the documented domain (and make process_data loop for ever).
      x.nseg = int(r[0].get<long>());
      if (x.nseg < 1)
        x.nseg = (x.nseg == 0) ? 1 : -1;
      x.ntof = int(r[1].get<long>());
      if (x.ntof < 1)
        x.ntof = (x.ntof == 0) ? 1 : -1;
      x.to_file = r[2].get<long>() != 0;
      x.tof_via_parser = r[3].get<long>() != 0;
      if (x.to_file && axial_range_not_from_zero)
        x.to_file = false; // the Interfile header stores only the NUMBER of axial positions: such a template cannot be a file
      if (x.to_file && single_tof_bin_template && exclusions_on())
        { // finding C14-F5: the Interfile header LmToProjData writes for a TOF template mashed to ONE TOF bin cannot be read back
          x.to_file = false;
          excluded(SIG_F5);
        }
      v.push_back(x);
    }
  if (v.empty())
    v.push_back(RunCfg());
  return v;
}

std::vector<std::pair<long, long>>
frames_from_case(const json& c)
{
  std::vector<std::pair<long, long>> f;
  if (c["mode"].get<int>() != 0)
    return f;
  std::vector<long> b;
  for (const json& x : c["bounds"])
    b.push_back(x.get<long>());
  // normalise (shrunk / mutated cases stay valid): strictly increasing, first >= 0,
  // every frame end > 0.01 s because LmToProjData switches time handling off for end_time <= 0.01 ("end_time > 0.01" test)
  for (std::size_t k = 0; k < b.size(); ++k)
    {
      if (k == 0)
        b[k] = std::max(0L, b[k]);
      else
        b[k] = std::max(std::max(b[k], b[k - 1] + 1), 20L);
    }
  for (std::size_t k = 0; k + 1 < b.size(); ++k)
    f.push_back(std::make_pair(b[k], b[k + 1]));
  return f;
}

// ---- likelihood clause --------------------------------------------------------------------------------
void
to_vec(std::vector<double>& out, const target_type& im)
{
  out.clear();
  for (auto it = im.begin_all_const(); it != im.end_all_const(); ++it)
    out.push_back(*it);
}

shared_ptr<ProjMatrixByBinUsingRayTracing>
lik_matrix(const json& L)
{
  vp::MatrixOpts o;
  o.num_tangential_LORs = L["lors"].get<int>();
  const int sym = L["sym"].get<int>();
  const int cache = L["mcache"].get<int>();
  return vp::make_matrix(o, (sym & 1) != 0, (sym & 2) != 0, (sym & 4) != 0, (sym & 8) != 0, (sym & 16) != 0, cache != 0, cache == 1);
}

double
max_abs(const std::vector<double>& v)
{
  double m = 0;
  for (double x : v)
    m = std::max(m, std::fabs(x));
  return m;
}

Result
compare_vec(const std::vector<double>& got, const std::vector<double>& ref, double tol, const std::string& what, const std::string& statkey)
{
  VF_CHECK(got.size() == ref.size(), what, ": size ", got.size(), " vs ", ref.size());
  const double scale = max_abs(ref);
  double md = 0;
  std::size_t where = 0;
  for (std::size_t i = 0; i < ref.size(); ++i)
    {
      const double d = std::fabs(got[i] - ref[i]);
      if (!(d <= md))
        {
          md = d;
          where = i;
        }
    }
  if (scale > 0)
    stats().maxi(statkey, md / scale);
  VF_CHECK(md <= tol * scale || (scale == 0 && md == 0), what, ": max |diff| ", md, " at element ", where, " (", got.empty() ? 0. : got[where], " vs ",
           ref.empty() ? 0. : ref[where], "), scale ", scale, ", tolerance ", tol);
  return Result::pass();
}

Result
check_likelihood(const json& c, const World& w, const Selection& sel, const std::string& dir)
{
  const json& L = c["lik"];
  // the list-mode objective works in the geometry of the list-mode data itself: the source reports the template
  shared_ptr<SyntheticCListModeData> lm(new SyntheticCListModeData(w.recs, w.tmpl, w.has_delayeds));
  // data of the projection-data objective: the histogram of the prompts (clause 1 has just shown LmToProjData == event list)
  const Expect ex = expected(w, sel, true, false);
  if (ex.n_accepted == 0)
    { // LM_distributable_computation has assert(!record_ptr.empty()): at least one cached event is a precondition
      stats().cls("likelihood: skipped, no accepted prompt in the frame");
      return Result::pass();
    }
  shared_ptr<VoxelsOnCartesianGrid<float>> image;
  vp::ExplicitP P;
  const bool use_add = L["add"].get<bool>(), use_norm = L["norm"].get<bool>();
  const int sym = L["sym"].get<int>();
  shared_ptr<ExamInfo> exam(new ExamInfo(ImagingModality::PT));
  shared_ptr<ProjDataInMemory> data(new ProjDataInMemory(exam, w.tmpl)), add(new ProjDataInMemory(exam, w.tmpl)),
      mult(new ProjDataInMemory(exam, w.tmpl->create_non_tof_clone()));
  typedef PoissonLogLikelihoodWithLinearModelForMeanAndListModeDataWithProjMatrixByBin<target_type> LMObj;
  typedef PoissonLogLikelihoodWithLinearModelForMeanAndProjData<target_type> PDObj;
  LMObj lmobj;
  PDObj pdobj;
  shared_ptr<target_type> target;
  std::vector<double> addv(w.bins.size(), 0.), effv(w.bins.size(), 1.);
  int nsub = 1;
  try
    {
      image = vg::make_image(L["image"], *w.tmpl, 7);
      vg::fill_random(*image, L["dseed"].get<uint64_t>(), 0.5, 2.);
      vp::MatrixOpts o;
      o.num_tangential_LORs = L["lors"].get<int>();
      P = vp::ExplicitP::build(w.tmpl, image, o);
      w.index.vec_to_projdata(*data, ex.hist);
      SplitMix g(L["dseed"].get<uint64_t>() ^ 0x5151ULL);
      for (auto& v : addv)
        v = float(g.real(0.5, 1.5));
      w.index.vec_to_projdata(*add, addv);
      for (auto it = mult->begin_all(); it != mult->end_all(); ++it)
        *it = float(g.real(0.5, 2.));
      nsub = std::max(1, L["subsets"].get<int>());
      if (w.tmpl->get_num_views() % nsub != 0)
        nsub = 1;

      lmobj.set_input_data(static_pointer_cast<ExamData>(lm));
      lmobj.set_proj_matrix(lik_matrix(L));
      if (use_add)
        lmobj.set_additive_proj_data_sptr(add);
      if (use_norm)
        lmobj.set_normalisation_sptr(shared_ptr<BinNormalisation>(new BinNormalisationFromProjData(mult)));
      if (sel.use_time)
        lmobj.frame_defs = frames_of({ std::make_pair(sel.s_ms, sel.e_ms) });
      lmobj.set_num_subsets(nsub);
      lmobj.set_use_subset_sensitivities(true);
      lmobj.set_cache_path(dir);
      lmobj.set_recompute_cache(true);
      const long lmcache = L["lmcache"].get<long>();
      lmobj.set_cache_max_size(static_cast<unsigned long>(lmcache)); // 0: read from the list-mode source at every call

      pdobj.set_proj_data_sptr(data);
      pdobj.set_projector_pair_sptr(shared_ptr<ProjectorByBinPair>(new ProjectorByBinPairUsingProjMatrixByBin(lik_matrix(L))));
      pdobj.set_use_subset_sensitivities(true);
      pdobj.set_num_subsets(nsub);
      if (use_add)
        pdobj.set_additive_proj_data_sptr(add);
      if (use_norm)
        pdobj.set_normalisation_sptr(shared_ptr<BinNormalisation>(new BinNormalisationFromProjData(mult)));
      target.reset(image->clone());
      if (lmobj.set_up(target) != Succeeded::yes)
        return Result::reject("list-mode objective set_up failed");
      if (pdobj.set_up(target) != Succeeded::yes)
        return Result::reject("projection-data objective set_up failed");
    }
  catch (const stir_verif::AssertionFailure&)
    {
      throw;
    }
  catch (const std::exception& e)
    {
      return Result::reject(std::string("likelihood set-up rejected: ") + std::string(e.what()).substr(0, 70));
    }
  const int subset = int(pmod(L["subset"].get<long>(), nsub));
  const bool tof = w.tmpl->get_num_tof_poss() > 1;

  // reference: g = sum_{b in subset} P_b^T y_b / (P_b x + a_b)
  const std::vector<double> x = P.image_to_vec(*image);
  const std::vector<double> fwd = P.forward(x);
  std::vector<double> q(w.bins.size(), 0.);
  double max_quot = 0;
  for (std::size_t b = 0; b < q.size(); ++b)
    if (ex.hist[b] > 0)
      {
        const double den = fwd[b] + (use_add ? addv[b] : 0.);
        const double quot_event = den > 0 ? 1. / den : (P.rows[b].empty() ? 0. : 1e30);
        max_quot = std::max(max_quot, quot_event * ex.hist[b]);
        if (pmod(w.bins[b].view_num() - w.tmpl->get_min_view_num(), nsub) == subset)
          q[b] = ex.hist[b] * quot_event;
      }
  if (sym != 0)
    { // the same screen with the rows the objectives really use (rows derived through symmetry operations can differ from the
      // direct ones by float residues such as 1.2e-7 at plane boundaries, which is enough to reach the quotient thresholds)
      shared_ptr<ProjMatrixByBinUsingRayTracing> mm = lik_matrix(L);
      mm->set_up(w.tmpl, image);
      ProjMatrixElemsForOneBin row;
      for (std::size_t b = 0; b < q.size(); ++b)
        if (ex.hist[b] > 0)
          {
            mm->get_proj_matrix_elems_for_one_bin(row, w.bins[b]);
            double f = 0;
            bool any = false;
            for (auto it = row.begin(); it != row.end(); ++it)
              if (P.inside(it->coord1(), it->coord2(), it->coord3()))
                {
                  any = true;
                  f += double(it->get_value()) * x[std::size_t(P.vox_index(it->coord1(), it->coord2(), it->coord3()))];
                }
            const double den = f + (use_add ? addv[b] : 0.);
            max_quot = std::max(max_quot, den > 0 ? ex.hist[b] / den : (any ? 1e30 : 0.));
          }
    }
  stats().cls(cat("likelihood: ", tof ? "TOF" : "non-TOF", use_add ? " +additive" : "", use_norm ? " +norm" : "", nsub > 1 ? " subsets" : ""));
  if (max_quot > 1000.)
    { // both objectives regularise quotients near 1e4 (divide_and_truncate / max_quotient), in different ways: documented
      // thresholds, not part of the property.  Only cases that stay a factor 10 away from them are compared.
      stats().cls("likelihood: skipped, quotient near the documented 1e4 threshold");
      return Result::pass();
    }
  const std::vector<double> gref = P.back(q);

  // A number of cached prompts that is a multiple of 'max cache size' leaves an EMPTY last cache batch (read_listmode_batch
  // stops a batch when the cache is full and only finds the end of the frame in the next one).  LM_distributable_computation
  // has assert(!record_ptr.empty()), which then fires in builds with assertions, although its loop over zero events is
  // correct (the gradient is checked below as for every other case).  The property does not speak about that internal
  // assertion, so for exactly this class the list-mode calls run with the assertions off (= what a Release build executes).
  // (With the assertion on, the process would terminate: the running HighResWallClockTimer asserts in its destructor.)
  const long lmcache_used = L["lmcache"].get<long>();
  const bool empty_last_cache_batch = lmcache_used > 0 && ex.n_prompts_acc % lmcache_used == 0;
  if (empty_last_cache_batch)
    stats().cls("likelihood: empty last cache batch (list-mode calls with assertions off = Release behaviour)");

  shared_ptr<target_type> g_lm(target->get_empty_copy()), g_pd(target->get_empty_copy());
  {
    AssertsOff guard(empty_last_cache_batch);
    lmobj.compute_sub_gradient_without_penalty_plus_sensitivity(*g_lm, *target, subset);
  }
  pdobj.compute_sub_gradient_without_penalty_plus_sensitivity(*g_pd, *target, subset);
  std::vector<double> vlm, vpd;
  to_vec(vlm, *g_lm);
  to_vec(vpd, *g_pd);
  const std::string ctx = cat("[", tof ? "TOF" : "non-TOF", " add=", use_add, " norm=", use_norm, " subsets=", nsub, " subset=", subset, " sym=", sym,
                              " lmcache=", L["lmcache"].get<long>(), " events=", ex.n_accepted, "]");
  if (std::getenv("VERIF_C14_DEBUG"))
    {
      shared_ptr<ProjMatrixByBinUsingRayTracing> mm = lik_matrix(L);
      mm->set_up(w.tmpl, image);
      for (std::size_t b = 0; b < q.size(); ++b)
        if (ex.hist[b] > 0)
          {
            ProjMatrixElemsForOneBin row;
            mm->get_proj_matrix_elems_for_one_bin(row, w.bins[b]);
            std::cerr << "DEBUG bin " << show_bin(w.bins[b]) << " y=" << ex.hist[b] << " fwd(explicit)=" << fwd[b] << " explicit row:";
            for (auto& e : P.rows[b])
              std::cerr << " [" << e.first << "]=" << e.second;
            std::cerr << "\n   STIR row (sym " << sym << "):";
            for (auto it = row.begin(); it != row.end(); ++it)
              std::cerr << " (" << it->coord1() << "," << it->coord2() << "," << it->coord3() << ")=" << it->get_value();
            std::cerr << "\n";
          }
      for (std::size_t i = 0; i < vlm.size(); ++i)
        std::cerr << "DEBUG grad " << i << " lm " << vlm[i] << " pd " << vpd[i] << " ref " << gref[i] << "\n";
    }
  if (std::getenv("VERIF_C14_DEBUG") && use_add && tof)
    { // hypothesis behind finding C14-F4: every event gets the additive value of the LAST TOF bin of its spatial bin
      const std::size_t per_tof = addv.size() / std::size_t(w.tmpl->get_num_tof_poss());
      std::vector<double> q2(q.size(), 0.);
      for (std::size_t b = 0; b < q2.size(); ++b)
        if (ex.hist[b] > 0 && q[b] != 0)
          q2[b] = ex.hist[b] / (fwd[b] + addv[(b % per_tof) + per_tof * std::size_t(w.tmpl->get_num_tof_poss() - 1)]);
      const std::vector<double> g2 = P.back(q2);
      double md = 0;
      for (std::size_t i = 0; i < g2.size(); ++i)
        md = std::max(md, std::fabs(g2[i] - vlm[i]));
      std::cerr << "DEBUG F4: max |LM gradient - reference with additive term of the last TOF bin| = " << md << " (scale " << max_abs(g2) << ")\n";
    }
  // tolerance 1e-4 of the maximum (float accumulation in a different order; observed maxima are in the evidence)
  PROPAGATE(compare_vec(vlm, vpd, 1e-4, "list-mode gradient (data term) vs projection-data gradient of the histogram " + ctx,
                        "max rel diff LM gradient vs projdata gradient"));
  // the explicit reference is built from a symmetry-free matrix: rows that STIR derives through a symmetry operation may
  // differ from directly computed ones for LORs running exactly along voxel boundaries (the subject and the "tie screen" of
  // C03, frequent on these very small scanners), and with symmetries STIR groups bins into subsets by their BASIC view.
  // So the reference is used when the objectives' matrices are symmetry-free as well; with symmetries on, the two
  // objectives (which derive their rows through the same operations) are compared with each other only.
  const bool ref_applicable = sym == 0;
  if (ref_applicable)
    PROPAGATE(compare_vec(vpd, gref, 1e-4, "projection-data gradient of the histogram vs explicit matrix reference " + ctx,
                          "max rel diff projdata gradient vs explicit reference"));
  if (ref_applicable)
    {
      PROPAGATE(compare_vec(vlm, gref, 1e-4, "list-mode gradient (data term) vs explicit matrix reference " + ctx,
                            "max rel diff LM gradient vs explicit reference"));
      stats().cls("likelihood: compared with explicit reference");
    }
  if (!w.tmpl->is_tof_data())
    { // with TOF data both classes use a non-TOF sensitivity unless "use time-of-flight sensitivities" (documented
      // approximation; the two classes decide "TOF data" differently for a template mashed to a single TOF bin:
      // num_tof_poss > 1 here, is_tof_data() in the projection-data class), so the sensitivity and the full gradient
      // are compared for non-TOF data only
      shared_ptr<target_type> f_lm(target->get_empty_copy()), f_pd(target->get_empty_copy());
      {
        AssertsOff guard(empty_last_cache_batch);
        lmobj.compute_sub_gradient_without_penalty(*f_lm, *target, subset);
      }
      pdobj.compute_sub_gradient_without_penalty(*f_pd, *target, subset);
      std::vector<double> a, b, s_lm, s_pd;
      to_vec(a, *f_lm);
      to_vec(b, *f_pd);
      to_vec(s_lm, lmobj.get_subset_sensitivity(subset));
      to_vec(s_pd, pdobj.get_subset_sensitivity(subset));
      if (std::getenv("VERIF_C14_DEBUG"))
        {
          std::vector<double> ones(w.bins.size(), 1.);
          const std::vector<double> sref = P.back(ones);
          for (std::size_t i = 0; i < s_lm.size(); ++i)
            std::cerr << "DEBUG sens " << i << " lm " << s_lm[i] << " pd " << s_pd[i] << " ref " << sref[i] << " gradlm " << vlm[i] << " gradpd " << vpd[i] << " gref " << gref[i] << "\n";
        }
      PROPAGATE(compare_vec(s_lm, s_pd, 1e-4, "list-mode subset sensitivity vs projection-data subset sensitivity " + ctx,
                            "max rel diff LM sensitivity vs projdata sensitivity"));
      // full gradient = data term - sensitivity: tolerance relative to the larger of the two parts
      const double scale = std::max(max_abs(vpd), max_abs(s_pd));
      double md = 0;
      for (std::size_t i = 0; i < a.size(); ++i)
        md = std::max(md, std::fabs(a[i] - b[i]));
      if (scale > 0)
        stats().maxi("max rel diff LM full gradient vs projdata full gradient", md / scale);
      VF_CHECK(md <= 1e-4 * scale, "list-mode gradient (with sensitivity) vs projection-data gradient ", ctx, ": max |diff| ", md, " scale ", scale);
    }
  stats().cls("likelihood: compared");
  return Result::pass();
}

// ---- the property -------------------------------------------------------------------------------------
Result
check(const json& c)
{
  vg::quiet();
  CaseDir dir;
  World w;
  try
    {
      w = make_world(c);
      // the event class builds an uncompressed ProjDataInfo (span 1, TOF mashing 1) for the scanner in its constructor;
      // scanners for which that is impossible (even number of TOF positions) cannot be list-mode sources of this type
      SynthRecord probe(w.tmpl);
    }
  catch (const stir_verif::AssertionFailure&)
    {
      throw;
    }
  catch (const std::exception& e)
    {
      return Result::reject(std::string("construction rejected: ") + std::string(e.what()).substr(0, 70));
    }
  const int mode = c["mode"].get<int>();
  const bool store_prompts = c["store_prompts"].get<bool>(), store_delayeds = c["store_delayeds"].get<bool>() || !store_prompts;
  bool ax_from_zero = true;
  for (int sg = w.tmpl->get_min_segment_num(); sg <= w.tmpl->get_max_segment_num(); ++sg)
    ax_from_zero = ax_from_zero && w.tmpl->get_min_axial_pos_num(sg) == 0;
  const std::vector<RunCfg> cfgs = run_cfgs(c, w.tmpl->is_tof_data() && w.tmpl->get_num_tof_poss() == 1, !ax_from_zero);
  const std::vector<std::pair<long, long>> frames = frames_from_case(c);
  // the source handed to LmToProjData reports either the uncompressed geometry or the template: only its scanner matters
  shared_ptr<ProjDataInfo> lm_pdi = w.tmpl;
  if (c.value("lm_uncompressed", false))
    lm_pdi.reset(ProjDataInfo::construct_proj_data_info(w.sc, 1, w.sc->get_num_rings() - 1, w.sc->get_num_detectors_per_ring() / 2,
                                                        w.sc->get_max_num_non_arccorrected_bins(), false, w.sc->is_tof_ready() ? 1 : 0)
                     .release());
  shared_ptr<SyntheticCListModeData> lm(new SyntheticCListModeData(w.recs, lm_pdi, w.has_delayeds));

  long n_events = 0, n_marks = 0, n_delayeds = 0;
  for (const Rec& r : w.recs)
    (r.kind == 0 ? n_marks : n_events)++, n_delayeds += (r.kind == 2);
  stats().count("records", long(w.recs.size()));
  stats().count("events", n_events);
  stats().count("time marks", n_marks);
  stats().cls(mode == 0 ? "mode: time frames" : mode == 1 ? "mode: num_events_to_store" : "mode: whole stream");
  stats().cls(w.tmpl->get_num_tof_poss() > 1 ? "template: TOF" : "template: non-TOF");
  if (n_delayeds > 0)
    stats().cls("stream with delayeds");
  stats().cls(store_prompts ? (store_delayeds ? "prompts - delayeds" : "prompts only") : "delayeds only");
  if (!w.recs.empty() && w.recs[0].kind != 0)
    stats().cls("events before the first time mark");
  int max_batches = 1;
  for (const RunCfg& r : cfgs)
    max_batches = std::max(max_batches, num_batches(w, r));
  if (max_batches >= 2)
    stats().cls("a run with >= 2 batches");

  Selection lik_sel;

  if (mode == 0)
    {
      // ---- time frames: one run per frame and batching setting (in-memory output keeps only the last frame of a run) ----
      long boundary_marks = 0;
      for (const Rec& r : w.recs)
        if (r.kind == 0)
          for (std::size_t k = 0; k <= frames.size(); ++k)
            if (long(r.ms) == (k < frames.size() ? frames[k].first : frames.back().second))
              ++boundary_marks;
      if (boundary_marks)
        stats().cls("time mark exactly on a frame boundary");
      std::vector<double> sum(w.bins.size(), 0.);
      bool additivity_decidable = true;
      long oor = 0, neg = 0;
      for (std::size_t f = 0; f <= frames.size(); ++f)
        {
          // f == frames.size(): the whole interval
          if (f == frames.size() && frames.size() == 1)
            break;
          Selection sel;
          sel.use_time = true;
          sel.s_ms = f < frames.size() ? frames[f].first : frames.front().first;
          sel.e_ms = f < frames.size() ? frames[f].second : frames.back().second;
          if (frame_over_at_entry(w, sel.s_ms, sel.e_ms))
            stats().cls("frame already over when its first record is reached (events follow)");
          const Expect ex = expected(w, sel, store_prompts, store_delayeds);
          oor += ex.n_out_of_range;
          neg += ex.n_negative_bins;
          std::vector<double> ref_hist;
          for (std::size_t k = 0; k < cfgs.size(); ++k)
            {
              if (cfgs[k].to_file)
                continue; // file runs are issued once for all frames below
              bool dtf = false;
              const auto res = run_lm_to_projdata(w, lm, { std::make_pair(sel.s_ms, sel.e_ms) }, 0, cfgs[k], store_prompts, store_delayeds, dir.path, &dtf);
              VF_CHECK(dtf, "frame definitions given and num_events_to_store == 0, but do_time_frame is false");
              const std::string ctx = cat(f < frames.size() ? cat("frame ", f + 1) : std::string("whole interval"), " [", sel.s_ms, ",", sel.e_ms,
                                          ") ms, num_segments_in_memory ", cfgs[k].nseg, ", num_TOF_bins_in_memory ", cfgs[k].ntof, " (",
                                          num_batches(w, cfgs[k]), " batches), in-memory output");
              PROPAGATE(compare_hist(w, res[0], ex.hist, ctx));
              if (ref_hist.empty())
                ref_hist = res[0];
              stats().count("LmToProjData runs");
            }
          if (f < frames.size())
            {
              if (ref_hist.empty())
                additivity_decidable = false; // no in-memory run for this frame
              else
                for (std::size_t i = 0; i < sum.size(); ++i)
                  sum[i] += ref_hist[i];
            }
          else if (!ref_hist.empty() && additivity_decidable)
            { // frames of a partition add up to the whole interval (STIR's outputs only)
              PROPAGATE(compare_hist(w, sum, ref_hist, cat("sum over the ", frames.size(), " frames of the partition vs the run over the whole interval")));
              stats().cls("partition additivity checked");
            }
        }
      // one process_data() call for all frames with file output (<prefix>_f<k>g1d0b0.hs per frame)
      for (std::size_t k = 0; k < cfgs.size(); ++k)
        if (cfgs[k].to_file)
          {
            const auto res = run_lm_to_projdata(w, lm, frames, 0, cfgs[k], store_prompts, store_delayeds, dir.path);
            VF_CHECK(res.size() == frames.size(), "multi-frame run wrote ", res.size(), " files for ", frames.size(), " frames");
            for (std::size_t f = 0; f < frames.size(); ++f)
              {
                Selection sel;
                sel.use_time = true;
                sel.s_ms = frames[f].first;
                sel.e_ms = frames[f].second;
                const Expect ex = expected(w, sel, store_prompts, store_delayeds);
                PROPAGATE(compare_hist(w, res[f], ex.hist,
                                       cat("multi-frame run with file output, frame ", f + 1, " of ", frames.size(), " [", sel.s_ms, ",", sel.e_ms,
                                           ") ms, num_segments_in_memory ", cfgs[k].nseg, ", num_TOF_bins_in_memory ", cfgs[k].ntof)));
              }
            stats().cls("multi-frame run with file output");
            stats().count("LmToProjData runs");
          }
      if (oor)
        stats().cls("event outside the template's ranges inside a frame");
      if (neg)
        stats().cls("negative bin (more delayeds than prompts)");
      // the likelihood clause uses one frame of the partition
      std::size_t lf = std::size_t(pmod(c["lik"].value("frame", 0L), long(frames.size())));
      lik_sel.use_time = true;
      for (std::size_t t = 0; t < frames.size(); ++t, lf = (lf + 1) % frames.size())
        { // prefer a frame with at least one accepted prompt (precondition of the list-mode gradient, see check_likelihood)
          lik_sel.s_ms = frames[lf].first;
          lik_sel.e_ms = frames[lf].second;
          if (c["lik"].value("on", false) && expected(w, lik_sel, true, false).n_accepted > 0)
            break;
        }
    }
  else
    {
      // ---- num_events_to_store cut-off (mode 1) or the whole stream (mode 2) ----
      // LmToProjData.h: "or a total number of events (if larger than 0, frame definitions will be ignored)"; the code still
      // uses the frame's start to skip records, so only a frame starting at 0 (or none) is given with a cut-off.
      Selection sel;
      sel.cut = mode == 1 ? std::max(1L, c["cut"].get<long>()) : 0;
      std::vector<std::pair<long, long>> fr;
      if (mode == 1 && c.value("cut_frame_end", 0L) > 0)
        fr.push_back(std::make_pair(0L, std::max(20L, c["cut_frame_end"].get<long>())));
      const Expect ex = expected(w, sel, store_prompts, store_delayeds);
      if (mode == 1)
        stats().cls(ex.cut_reached ? "cut-off reached before the end of the stream" : "cut-off beyond the end of the stream");
      if (ex.n_out_of_range)
        stats().cls("event outside the template's ranges inside a frame");
      if (ex.n_negative_bins)
        stats().cls("negative bin (more delayeds than prompts)");
      for (std::size_t k = 0; k < cfgs.size(); ++k)
        {
          bool dtf = true;
          const auto res = run_lm_to_projdata(w, lm, fr, sel.cut, cfgs[k], store_prompts, store_delayeds, dir.path, &dtf);
          VF_CHECK(dtf == (mode == 2), "do_time_frame is ", dtf, " with num_events_to_store ", sel.cut);
          const std::string ctx = cat(mode == 1 ? cat("first ", sel.cut, " counts (num_events_to_store)") : std::string("whole stream, no frame definitions"),
                                      fr.empty() ? "" : " with a frame [0,e)", ", num_segments_in_memory ", cfgs[k].nseg, ", num_TOF_bins_in_memory ",
                                      cfgs[k].ntof, " (", num_batches(w, cfgs[k]), " batches), ", cfgs[k].to_file ? "file" : "in-memory", " output");
          VF_CHECK(res.size() == 1, ctx, ": ", res.size(), " outputs");
          PROPAGATE(compare_hist(w, res[0], ex.hist, ctx));
          stats().count("LmToProjData runs");
          if (cfgs[k].to_file)
            stats().cls("single-frame run with file output");
        }
    }
  stats().count("source rewinds (set_get_position)", lm->num_rewinds);

  if (c["lik"].value("on", false))
    PROPAGATE(check_likelihood(c, w, lik_sel, dir.path));
  return Result::pass();
}

// ---- generator ----------------------------------------------------------------------------------------
json
gen(Src& s, int size)
{
  json c;
  const bool lik = s.chance(1, 3);
  vg::ScannerOpts so;
  so.max_ndet = size < 40 ? 16 : 32;
  so.max_rings = 4;
  so.allow_tof = true;
  so.allow_tilt = !lik;
  // CListEventScannerWithDiscreteDetectors' constructor builds ProjDataInfo with TOF mashing 1 for the scanner, which
  // error()s for an even number of TOF positions ("Number of TOF bins should be an odd number"): odd or non-TOF only
  const bool want_tof = s.chance(2, 5); // gen_scanner alone gives an odd-TOF scanner in ~20 % of the draws
  for (int tries = 0;; ++tries)
    {
      c["scanner"] = vg::gen_scanner(s, so);
      const int tp = c["scanner"]["tof_poss"].get<int>();
      if ((tp == 0 && !want_tof) || tp % 2 == 1)
        break;
      if (tries >= 8)
        {
          if (tp % 2 == 0)
            c["scanner"]["tof_poss"] = 0;
          break;
        }
    }
  shared_ptr<Scanner> sc = vg::make_scanner(c["scanner"]);
  vg::PdiOpts po;
  po.max_span = lik ? 5 : 7;
  po.allow_trim = true;
  c["pdi"] = vg::gen_pdi(s, *sc, po);
  c["pdi"]["arccorr"] = false;
  if (!lik && s.chance(1, 4))
    c["ax_trim"] = json::array({ int(s.range(0, 8)), int(s.range(1, 2)), 0 });
  c["has_delayeds"] = s.chance(5, 6);
  c["lm_uncompressed"] = s.coin();

  // ---- record stream: explicit (shrinkable) part + optional seeded tail
  const int ndet = sc->get_num_detectors_per_ring(), rings = sc->get_num_rings();
  const int ntof = sc->is_tof_ready() ? sc->get_max_num_timing_poss() : 0;
  const int mark_pct = s.pick(std::vector<int>{ 3, 8, 15, 30 });
  const int delayed_pct = s.pick(std::vector<int>{ 0, 10, 25, 50 });
  const long maxdt = s.pick(std::vector<long>{ 3, 30, 30, 300, 2500 });
  const long nrec = s.chance(1, 12) ? s.range(0, 3) : s.range(4, 20 + 3 * size);
  json stream = json::array();
  const bool start_with_mark = s.chance(1, 3);
  for (long i = 0; i < nrec; ++i)
    {
      const long u = s.range(0, 99);
      if (u < mark_pct || (i == 0 && start_with_mark))
        stream.push_back(json::array({ 0, s.chance(1, 5) ? s.range(1, maxdt * 4) : s.small(1, maxdt) }));
      else if (!stream.empty() && s.chance(1, 5))
        { // repeat an earlier event, possibly with the other kind
          const json& q = stream[std::size_t(s.range(0, long(stream.size()) - 1))];
          if (q[0].get<long>() != 0)
            {
              json r = q;
              r[0] = s.range(0, 99) < delayed_pct ? 2 : 1;
              stream.push_back(r);
            }
        }
      else
        stream.push_back(json::array({ s.range(0, 99) < delayed_pct ? 2 : 1, s.range(0, ndet - 1), s.range(0, std::max(0, ndet - 2)), s.range(0, rings - 1),
                                       s.range(0, rings - 1), ntof > 0 ? s.range(0, 2 * (ntof / 2 + 2)) : 0L }));
    }
  c["stream"] = stream;
  if (s.chance(1, 4))
    {
      json b;
      b["seed"] = s.seed64();
      b["n"] = s.range(50, 200 + 40 * size);
      b["mark_pct"] = mark_pct;
      b["delayed_pct"] = delayed_pct;
      b["maxdt"] = maxdt;
      c["bulk"] = b;
    }
  const std::vector<Rec> recs = decode_stream(c, *sc);
  std::vector<long> marks;
  long n_events = 0;
  for (const Rec& r : recs)
    if (r.kind == 0)
      marks.push_back(long(r.ms));
    else
      ++n_events;
  const long tmax = marks.empty() ? 0 : marks.back();

  // ---- what is histogrammed
  const int m = int(s.range(0, 19));
  c["mode"] = m < 13 ? 0 : (m < 18 ? 1 : 2);
  auto boundary = [&]() -> long {
    const int how = int(s.range(0, 5));
    if (!marks.empty() && how <= 3)
      { // on a mark, one ms after / before it
        const long mk = marks[std::size_t(s.range(0, long(marks.size()) - 1))];
        return std::max(0L, mk + (how <= 1 ? 0 : how == 2 ? 1 : -1));
      }
    return s.range(0, tmax + 60);
  };
  {
    const int K = int(s.small(1, 4));
    std::vector<long> b;
    b.push_back(s.coin() ? 0 : boundary());
    for (int k = 0; k < K; ++k)
      b.push_back(boundary());
    std::sort(b.begin(), b.end());
    b.erase(std::unique(b.begin(), b.end()), b.end());
    if (b.size() < 2)
      b.push_back(b.back() + s.range(1, 50));
    // every frame must end later than 0.01 s: LmToProjData disables its time handling for end_time <= 0.01
    for (std::size_t k = 1; k < b.size(); ++k)
      b[k] = std::max(std::max(b[k], b[k - 1] + 1), 20L);
    c["bounds"] = b;
  }
  c["cut"] = s.chance(1, 5) ? s.range(1, std::max(1L, n_events + 2)) : s.range(1, std::max(1L, n_events / 3));
  c["cut_frame_end"] = s.coin() ? 0 : s.range(20, tmax + 60);
  const int sp = int(s.range(0, 3));
  c["store_prompts"] = sp != 3;
  c["store_delayeds"] = sp == 0 || sp == 1 || sp == 3;

  // ---- batching settings: the first run keeps everything in memory
  shared_ptr<ProjDataInfo> tmpl = make_template(sc, c);
  const int nsegs = tmpl->get_num_segments(), ntofs = tmpl->get_num_tof_poss();
  json runs = json::array();
  runs.push_back(json::array({ -1, -1, 0, 0 }));
  const int nruns = int(s.range(1, 3));
  for (int k = 0; k < nruns; ++k)
    {
      long a = s.chance(1, 6) ? -1 : s.range(1, nsegs + 1);
      long b = s.chance(1, 4) ? -1 : s.range(1, ntofs + 1);
      if (nsegs > 1 && ntofs == 1 && k == 0 && a == -1)
        a = s.range(1, nsegs - 1);
      runs.push_back(json::array({ a, b, s.chance(1, 5) ? 1 : 0, s.chance(1, 4) ? 1 : 0 }));
    }
  c["runs"] = runs;

  // ---- likelihood clause
  json L;
  L["on"] = lik;
  if (lik)
    {
      vg::ImageOpts io;
      io.max_xy = 11;
      L["image"] = vg::gen_image(s, io);
      L["dseed"] = s.seed64();
      L["add"] = s.chance(2, 3);
      L["norm"] = s.coin();
      L["subsets"] = s.pick(vg::divisors(c["pdi"]["views"].get<int>()));
      L["subset"] = int(s.range(0, 95));
      L["sym"] = int(s.chance(1, 3) ? 0 : s.chance(1, 2) ? 31 : s.range(0, 31));
      L["mcache"] = int(s.range(0, 2));
      L["lors"] = int(s.range(1, 2));
      L["lmcache"] = s.coin() ? 0L : s.range(1, std::max(2L, n_events));
      L["frame"] = int(s.range(0, 7));
    }
  c["lik"] = L;
  return c;
}

bool
nontrivial(const json& c)
{
  // >= 2 batches (segments or TOF) in some run, and the stream has delayeds, a mark on a frame boundary or an
  // event outside the template's ranges
  try
    {
      World w = make_world(c);
      int mb = 1;
      for (const RunCfg& r : run_cfgs(c, false, false))
        mb = std::max(mb, num_batches(w, r));
      if (mb < 2)
        return false;
      const auto frames = frames_from_case(c);
      for (const Rec& r : w.recs)
        {
          if (r.kind == 2)
            return true;
          if (r.kind == 0)
            {
              for (auto& f : frames)
                if (long(r.ms) == f.first || long(r.ms) == f.second)
                  return true;
            }
          else if (bin_of(w, r) < 0)
            return true;
        }
    }
  catch (...)
    {
    }
  return false;
}

std::vector<json>
fixed_cases(int)
{
  // corner configurations on a plain 3-ring, 8-detector scanner, span 1
  std::vector<json> v;
  PrngSrc s(14);
  json base = gen(s, 30);
  json sc;
  sc["type"] = -1;
  sc["ndet"] = 8;
  sc["rings"] = 3;
  sc["tr_cryst_per_block"] = 2;
  sc["tr_blocks_per_bucket"] = 1;
  sc["ax_cryst_per_block"] = 1;
  sc["ax_blocks_per_bucket"] = 1;
  sc["singles_units"] = 0;
  sc["max_tang"] = 7;
  sc["radius"] = 100.;
  sc["doi"] = 0.;
  sc["ring_spacing"] = 4.;
  sc["bin_size"] = 3.;
  sc["tilt"] = 0.;
  sc["tof_poss"] = 0;
  sc["geometry"] = "Cylindrical";
  base["scanner"] = sc;
  json pdi;
  pdi["span"] = 1;
  pdi["max_delta"] = 2;
  pdi["views"] = 4;
  pdi["tang"] = 7;
  pdi["arccorr"] = false;
  pdi["tof_mash"] = 0;
  pdi["trim"] = json::object();
  base["pdi"] = pdi;
  base.erase("ax_trim");
  base.erase("bulk");
  base["has_delayeds"] = true;
  base["store_prompts"] = true;
  base["store_delayeds"] = true;
  base["lik"] = json{ { "on", false } };
  base["runs"] = json::array({ json::array({ -1, -1, 0, 0 }), json::array({ 1, -1, 0, 0 }), json::array({ 2, 1, 0, 1 }), json::array({ 7, -1, 1, 0 }) });
  auto ev = [](int k, int a, int b, int r1, int r2) { return json::array({ k, a, b, r1, r2, 0 }); };
  // (1) events before the first mark, marks exactly on the frame boundaries
  {
    json c = base;
    c["stream"] = json::array({ ev(1, 0, 3, 0, 0), ev(1, 1, 3, 0, 2), json::array({ 0, 50 }), ev(1, 2, 3, 1, 1), ev(2, 2, 3, 1, 1), ev(1, 5, 2, 2, 0),
                                json::array({ 0, 50 }), ev(1, 0, 3, 0, 0), ev(2, 3, 3, 2, 2), json::array({ 0, 100 }), ev(1, 4, 2, 1, 2), json::array({ 0, 1 }),
                                ev(1, 4, 2, 1, 2) });
    c["mode"] = 0;
    c["bounds"] = std::vector<long>{ 0, 50, 100, 200, 300 };
    v.push_back(c);
    c["bounds"] = std::vector<long>{ 50, 200, 201 };
    v.push_back(c);
    c["mode"] = 1;
    c["cut"] = 3;
    c["cut_frame_end"] = 0;
    v.push_back(c);
    c["mode"] = 2;
    v.push_back(c);
  }
  // (2) empty stream; only time marks; only delayeds stored
  {
    json c = base;
    c["stream"] = json::array();
    c["mode"] = 0;
    c["bounds"] = std::vector<long>{ 0, 100 };
    v.push_back(c);
    c["stream"] = json::array({ json::array({ 0, 10 }), json::array({ 0, 10 }), json::array({ 0, 200 }) });
    v.push_back(c);
    c["stream"] = json::array({ ev(2, 0, 3, 0, 0), json::array({ 0, 10 }), ev(2, 0, 3, 0, 0), ev(1, 0, 3, 0, 0) });
    c["store_prompts"] = false;
    v.push_back(c);
  }
  return v;
}

} // namespace

const Property&
the_property()
{
  static Property p;
  p.id = "C14";
  p.gen = gen;
  p.check = check;
  p.nontrivial = nontrivial;
  p.fixed_cases = fixed_cases;
  p.shrink_lists = { "stream" };
  p.rule = "a run with >= 2 batches (segments or TOF bins) and a stream with delayeds, a time mark exactly on a frame boundary or an event outside "
           "the template's ranges";
  return p;
}

// C14 — list-mode histogramming and list-mode likelihood agree with the event list.
//
// A harness-side list-mode source (SyntheticCListModeData, public CListModeData interface only) replays a
// generated record stream: time marks (ms), prompts and delayeds given by detector pair / rings / unmashed TOF
// index.  Its events derive from CListEventScannerWithDiscreteDetectors<ProjDataInfoCylindricalNoArcCorr>, so
// STIR's own event->bin code runs.  LmToProjData is driven through its public setters; the oracle is a
// dictionary bin->count computed from the record list with the documented stream semantics.
// Likelihood clause: PoissonLogLikelihoodWithLinearModelForMeanAndListModeDataWithProjMatrixByBin on the same
// stream vs. the projection-data objective on the histogram vs. an explicit sparse matrix (+ a second object re-reading
// the cache files of the first).
// Extensions (entry-point audit, see DESIGN.md C14):
//   A  frame definitions written as .fdef text / Interfile header and read back through TimeFrameDefinitions(filename);
//   B  mode 3: LmToProjData configured with the keyword "frame_definition file" (or TimeFrameDefinitions(file) + setter), all
//      other keywords through the parser, multi-frame runs with file and in-memory output, "maximum absolute segment number
//      to process"; the complete lm_to_projdata route through a parameter FILE (input file, template file, frame file);
//   D  record decoders: ECAT8 32-bit words (record level on the generated scanner, file level with a Siemens header on a
//      predefined ECAT scanner), SAFIR / NeuroLF 64-bit records (file on a blocks-on-cylindrical scanner, also opened through
//      its parameter file and the file-format registry);
//   E  second run of an already used LmToProjData object.
#include "stir_gen.h"
#include "explicit_p.h"
#include "c14_formats.h"
#include "stir/listmode/CListModeData.h"
#include "stir/listmode/CListRecord.h"
#include "stir/listmode/CListEventScannerWithDiscreteDetectors.h"
#include "stir/listmode/LmToProjData.h"
#include "stir/listmode/CListModeDataSAFIR.h"
#include "stir/listmode/CListRecordSAFIR.h"
#include "stir/listmode/CListRecordECAT8_32bit.h"
#include "stir/listmode/CListModeDataECAT8_32bit.h"
#include "stir/listmode/CListEventCylindricalScannerWithDiscreteDetectors.h"
#include "stir/ProjDataInfoGenericNoArcCorr.h"
#include "stir/ProjDataInterfile.h"
#include "stir/IO/read_from_file.h"
#include "stir/listmode/ListModeData.h"
#include "stir/IO/stir_ecat_common.h"
#include "stir/TimeFrameDefinitions.h"
#include "stir/ExamInfo.h"
#include "stir/ProjData.h"
#include "stir/ProjDataInMemory.h"
#include "stir/DetectionPositionPair.h"
#include "stir/recon_buildblock/PoissonLogLikelihoodWithLinearModelForMeanAndListModeDataWithProjMatrixByBin.h"
#include "stir/recon_buildblock/PoissonLogLikelihoodWithLinearModelForMeanAndProjData.h"
#include "stir/recon_buildblock/ProjectorByBinPairUsingProjMatrixByBin.h"
#include "stir/recon_buildblock/BinNormalisationFromProjData.h"
#include <filesystem>
#include <sstream>
#include <iostream>
#include <unistd.h>

using namespace vf;
using namespace stir;

namespace {

typedef DiscretisedDensity<3, float> target_type;

// Known findings (work/notes/C14_findings.md) are excluded by construction unless VERIF_NO_EXCLUDE=1
bool
exclusions_on()
{
  static const bool on = []() {
    const char* e = std::getenv("VERIF_NO_EXCLUDE");
    return !(e && *e && std::string(e) != "0");
  }();
  return on;
}
//! one finding at a time: VERIF_C14_LIFT="F7,E1" lifts only these exclusions (used to show that a prepared repair works
//! while the other known findings stay excluded); VERIF_NO_EXCLUDE=1 lifts all of them
bool
exclusion_on(const std::string& tag)
{
  if (!exclusions_on())
    return false;
  if (tag == "F7" || tag == "E1" || tag == "E2")
    return false; // repaired in /repo (regression inputs replays/C14/fixed_*.json): part of the normal search again
  const char* e = std::getenv("VERIF_C14_LIFT");
  if (!e)
    return true;
  return (std::string(",") + e + ",").find("," + tag + ",") == std::string::npos;
}

//! narrow work-arounds are counted per finding (same counter names as the run-time uses for whole-case signatures)
const char* const SIG_F5 = "C14:file-output:tof-template-mashed-to-one-tof-bin";
const char* const SIG_F6 = "C14:frame-definition-file-keyword:num_events_to_store>0-ignored";
const char* const SIG_F7 = "C14:max-segment-keyword:output-object-with-more-segments";
const char* const SIG_E1 = "C14:object-reuse:time-frames-then-num_events_to_store";
const char* const SIG_E2 = "C14:object-reuse:template-with-more-segments";
const char* const SIG_H1 = "C14:combined-time-and-event-record:first-record-at-or-beyond-a-frame-boundary";
void
excluded(const char* sig)
{
  vf::stats().excluded_known++;
  vf::stats().count(std::string("excluded:") + sig);
}

//! switches STIR's assert()s off (= what a Release build executes) for a scope
struct AssertsOff
{
  bool active;
  explicit AssertsOff(bool a)
      : active(a)
  {
    if (active)
      stir_verif::asserts_on = false;
  }
  ~AssertsOff()
  {
    if (active)
      stir_verif::asserts_on = true;
  }
};

// ---- temporary files: one directory per case under VERIF_TMP, removed at the end of the case -------------
std::string
tmp_root()
{
  const char* e = std::getenv("VERIF_TMP");
  std::string d = (e && *e) ? std::string(e) : cat("/tmp/verif_", long(getpid()));
  std::error_code ec;
  std::filesystem::create_directories(d, ec);
  return d;
}
struct CaseDir
{
  std::string path;
  CaseDir()
  {
    static long counter = 0;
    path = cat(tmp_root(), "/c14_", long(getpid()), "_", counter++);
    std::error_code ec;
    std::filesystem::remove_all(path, ec);
    std::filesystem::create_directories(path, ec);
  }
  ~CaseDir()
  {
    std::error_code ec;
    std::filesystem::remove_all(path, ec);
  }
};

// ---- the record stream --------------------------------------------------------------------------------
struct Rec
{
  int kind; // 0 time mark, 1 prompt, 2 delayed
  unsigned long ms;
  int d1, r1, d2, r2, tof;
  //! audit H: the record is BOTH a timing and a coincidence record (as every record of ROOT list-mode data is, CListRecordROOT.h:
  //! "ROOT data are time and event at the same time"; LmToProjData.cxx: "a record can never be both timing and coincidence event
  //! and there might be a scanner around that has them both combined"): is_time() and is_event() are true, ms is its own time
  bool with_time = false;
};

inline long
pmod(long a, long m)
{
  return ((a % m) + m) % m;
}

//! decodes the raw integer tuples of the Case (arguments modulo the scanner, so every sub-sequence is valid)
struct Decoder
{
  int ndet, rings, ntof_scanner; // ntof_scanner = 0 for a non-TOF scanner
  bool has_delayeds;
  int opp_half = 0; // > 0: detector pairs d1, d1 + ndet/2 +- opp_half (ECAT8 file sub-check)
  long tick = 1; // ms per unit of the time increments (Case key "tick"; 25 or 125 put marks on the boundaries of frames read from files)
  unsigned long now = 0;
  std::vector<Rec> out;
  void time(long dt, bool same_time = false)
  {
    // marks increase (ms).  audit H: a third tuple element 1 repeats the time of the previous mark (two time marks with the same
    // time, or a first mark at time 0: nothing in STIR asks for strictly increasing marks, equal neighbours are a legal boundary)
    if (!same_time)
      now += static_cast<unsigned long>(std::max<long>(1, std::min<long>(dt, 1000000)) * tick);
    out.push_back(Rec{ 0, now, 0, 0, 0, 0, 0 });
  }
  void event(long kind, long a, long b, long c, long d, long e)
  {
    Rec r;
    r.kind = (kind == 2 && has_delayeds) ? 2 : 1;
    r.ms = 0;
    if (opp_half > 0)
      { // large predefined scanners: nearly opposite detectors, so that most pairs fall inside a template with few tangential positions
        r.d1 = int(pmod(a * 7919L + b, ndet));
        r.d2 = int(pmod(r.d1 + ndet / 2 + pmod(b, 2 * opp_half + 1) - opp_half, ndet));
      }
    else
      {
        r.d1 = int(pmod(a, ndet));
        r.d2 = int((r.d1 + 1 + pmod(b, ndet - 1)) % ndet); // d1 != d2 by construction (the view/tangential lookup asserts it)
      }
    r.r1 = int(pmod(c, rings));
    r.r2 = int(pmod(d, rings));
    // unmashed TOF index: the scanner's range is -(N/2)..N/2; two steps outside on both sides are generated as well
    if (ntof_scanner > 0)
      {
        const int half = ntof_scanner / 2 + 2;
        r.tof = int(pmod(e + half, 2 * half + 1)) - half;
      }
    else
      r.tof = 0;
    out.push_back(r);
  }
  void tuple(const json& t)
  {
    if (!t.is_array() || t.empty())
      return;
    const long k = t[0].get<long>();
    auto arg = [&](std::size_t i) { return i < t.size() ? t[i].get<long>() : 0L; };
    if (k == 0)
      time(arg(1), arg(2) == 1);
    else
      event(k, arg(1), arg(2), arg(3), arg(4), arg(5));
  }
  //! seeded tail (bulk data is a pure function of the seed)
  void bulk(uint64_t seed, long n, int mark_pct, int delayed_pct, long maxdt)
  {
    SplitMix g(seed);
    for (long i = 0; i < n; ++i)
      {
        const long u = g.range(0, 99);
        if (u < mark_pct)
          time(1 + g.range(0, maxdt));
        else if (!out.empty() && g.range(0, 5) == 0)
          { // repeat an earlier event (piles counts up in one bin, lets prompts and delayeds cancel)
            const Rec& q = out[std::size_t(g.range(0, long(out.size()) - 1))];
            if (q.kind != 0)
              {
                Rec r = q;
                r.kind = (g.range(0, 99) < delayed_pct && has_delayeds) ? 2 : 1;
                out.push_back(r);
              }
          }
        else
          event(g.range(0, 99) < delayed_pct ? 2 : 1, g.range(0, 9999), g.range(0, 9999), g.range(0, 99), g.range(0, 99), g.range(0, 99));
      }
  }
};

std::vector<Rec>
decode_stream(const json& c, const Scanner& sc, int opp_half = 0)
{
  Decoder d;
  d.opp_half = opp_half;
  d.ndet = sc.get_num_detectors_per_ring();
  d.rings = sc.get_num_rings();
  d.ntof_scanner = sc.is_tof_ready() ? sc.get_max_num_timing_poss() : 0;
  d.has_delayeds = c["has_delayeds"].get<bool>();
  d.tick = std::max(1L, std::min(1000L, c.value("tick", 1L)));
  for (const json& t : c["stream"])
    d.tuple(t);
  if (c.contains("bulk") && c["bulk"].is_object())
    {
      const json& b = c["bulk"];
      d.bulk(b["seed"].get<uint64_t>(), b["n"].get<long>(), b["mark_pct"].get<int>(), b["delayed_pct"].get<int>(), b["maxdt"].get<long>());
    }
  return d.out;
}

//! audit H: the same stream as it comes from a source whose coincidence records carry their own time (is_time() && is_event(),
//! the record type of ROOT list-mode data): every event record reports the time of the most recent mark, and a time mark that is
//! directly followed by an event is not a record of its own (the event is the first record with the new time).  The event list of
//! the oracle is unchanged: an event belongs to [s,e) iff its time - the most recent time mark - is in [s,e).
//! Finding C14-H1 (known/C14/combined_record_on_frame_boundary.json): LmToProjData::process_data skips to the start of a frame with
//! "while (current_time < start_time && get_next_record)" and ends a frame with "if (current_time >= end_time) break", both of which
//! consume the record that carries the first time at or beyond the boundary, so that record's EVENT is never histogrammed although
//! it lies inside the (next) frame.  Narrow exclusion: the time mark that is the first one at or beyond a frame boundary of the
//! case stays a separate time record (unless VERIF_NO_EXCLUDE=1 / VERIF_C14_LIFT=H1).
std::vector<Rec>
combined_stream(const std::vector<Rec>& recs, const std::vector<long>& boundaries_ms, long& n_merged, long& n_merged_on_boundary)
{
  std::vector<Rec> out;
  unsigned long now = 0;
  n_merged = n_merged_on_boundary = 0;
  for (std::size_t i = 0; i < recs.size(); ++i)
    {
      const Rec& r = recs[i];
      if (r.kind == 0)
        {
          bool crosses = false;
          for (long b : boundaries_ms)
            if (long(now) < b && long(r.ms) >= b)
              crosses = true;
          now = r.ms;
          const bool event_follows = i + 1 < recs.size() && recs[i + 1].kind != 0;
          if (event_follows && crosses && exclusion_on("H1"))
            {
              excluded(SIG_H1);
              out.push_back(r);
            }
          else if (event_follows)
            {
              ++n_merged; // the following event carries this time
              if (crosses)
                ++n_merged_on_boundary;
            }
          else
            out.push_back(r);
        }
      else
        {
          Rec e = r;
          e.with_time = true;
          e.ms = now;
          out.push_back(e);
        }
    }
  return out;
}

// ---- the synthetic list-mode source -------------------------------------------------------------------
class SynthEvent : public CListEventScannerWithDiscreteDetectors<ProjDataInfoCylindricalNoArcCorr>
{
  typedef CListEventScannerWithDiscreteDetectors<ProjDataInfoCylindricalNoArcCorr> base_type;

public:
  explicit SynthEvent(const shared_ptr<const ProjDataInfo>& pdi)
      : base_type(pdi)
  {}
  bool is_prompt() const override { return prompt; }
  Succeeded set_prompt(const bool p = true) override
  {
    prompt = p;
    return Succeeded::yes;
  }
  void get_detection_position(DetectionPositionPair<>& dp) const override { dp = pos; }
  void set_detection_position(const DetectionPositionPair<>& dp) override { pos = dp; }

private:
  DetectionPositionPair<> pos;
  bool prompt = true;
};

class SynthTime : public ListTime
{
public:
  unsigned long get_time_in_millisecs() const override { return ms; }
  Succeeded set_time_in_millisecs(const unsigned long t) override
  {
    ms = t;
    return Succeeded::yes;
  }

private:
  unsigned long ms = 0;
};

class SynthRecord : public CListRecord
{
public:
  explicit SynthRecord(const shared_ptr<const ProjDataInfo>& pdi)
      : ev(pdi)
  {}
  bool is_time() const override { return kind == 0 || has_time; }
  bool is_event() const override { return kind != 0; }
  ListEvent& event() override { return ev; }
  const ListEvent& event() const override { return ev; }
  ListTime& time() override { return tm; }
  const ListTime& time() const override { return tm; }
  void load(const Rec& r)
  {
    kind = r.kind;
    has_time = r.kind != 0 && r.with_time;
    if (r.kind == 0)
      tm.set_time_in_millisecs(r.ms);
    else
      {
        if (r.with_time)
          tm.set_time_in_millisecs(r.ms);
        ev.set_detection_position(DetectionPositionPair<>(DetectionPosition<>(r.d1, r.r1, 0), DetectionPosition<>(r.d2, r.r2, 0), r.tof));
        ev.set_prompt(r.kind == 1);
      }
  }

private:
  int kind = 1;
  bool has_time = false;
  SynthEvent ev;
  SynthTime tm;
};

class SyntheticCListModeData : public CListModeData
{
public:
  SyntheticCListModeData(const std::vector<Rec>& recs, const shared_ptr<const ProjDataInfo>& pdi, bool delayeds)
      : recs(recs),
        delayeds(delayeds)
  {
    this->exam_info_sptr.reset(new ExamInfo(ImagingModality::PT));
    this->set_proj_data_info_sptr(pdi);
  }
  std::string get_name() const override { return "synthetic list-mode stream"; }
  shared_ptr<CListRecord> get_empty_record_sptr() const override
  {
    return shared_ptr<CListRecord>(new SynthRecord(this->get_proj_data_info_sptr()));
  }
  Succeeded get_next_record(CListRecord& r) const override
  {
    if (pos >= recs.size())
      return Succeeded::no;
    static_cast<SynthRecord&>(r).load(recs[pos++]);
    ++num_reads;
    return Succeeded::yes;
  }
  Succeeded reset() override
  {
    pos = 0;
    return Succeeded::yes;
  }
  SavedPosition save_get_position() override
  {
    saved.push_back(pos);
    return static_cast<SavedPosition>(saved.size() - 1);
  }
  Succeeded set_get_position(const SavedPosition& p) override
  {
    if (p >= saved.size())
      return Succeeded::no;
    pos = saved[p];
    ++num_rewinds;
    return Succeeded::yes;
  }
  bool has_delayeds() const override { return delayeds; }

  mutable long num_reads = 0;
  long num_rewinds = 0;

private:
  std::vector<Rec> recs;
  bool delayeds;
  mutable std::size_t pos = 0;
  std::vector<std::size_t> saved;
};

// ---- LmToProjData: the one control without a public setter --------------------------------------------
// num_TOF_bins_in_memory can only be set by parsing (keyword "num_TOF_bins_in_memory") or by a derived class.
// Both routes are used (Case flag): a derived class writing the protected member, or parsing a parameter text that
// contains only this keyword (post_processing then reports the missing input file, which is ignored: all other
// parameters are given through the public setters afterwards).
struct LmToProjDataWithTOFBatches : public LmToProjData
{
  void set_num_TOF_bins_in_memory(int v)
  {
    this->num_timing_poss_in_memory = v;
    this->_already_setup = false;
  }
  bool get_do_time_frame() const { return this->do_time_frame; }
};

struct World
{
  shared_ptr<Scanner> sc;
  shared_ptr<ProjDataInfo> tmpl; // the template (the oracle's own object; LmToProjData clones what it is given)
  const ProjDataInfoCylindricalNoArcCorr* cyl = nullptr;
  const ProjDataInfoGenericNoArcCorr* gen = nullptr; // blocks-on-cylindrical scanners (SAFIR sub-check only)
  std::vector<Rec> recs;
  bool has_delayeds = true;
  vp::ExplicitP index; // only pdi + enumeration are used here (bin <-> linear index)
  std::vector<Bin> bins;
};

shared_ptr<ProjDataInfo>
make_template(const shared_ptr<Scanner>& sc, const json& c)
{
  shared_ptr<ProjDataInfo> p = vg::make_pdi(sc, c["pdi"]);
  if (c.contains("ax_trim") && c["ax_trim"].is_array() && c["ax_trim"].size() == 3)
    { // truncated axial range of one segment (set_min/max_axial_pos_num are public ProjDataInfo setters)
      const int nseg = p->get_num_segments();
      const int seg = p->get_min_segment_num() + int(pmod(c["ax_trim"][0].get<long>(), nseg));
      // symmetric only: ProjDataInfoCylindrical derives the axial origin from (min+max)/2, so an asymmetric change is a
      // shifted geometry (which initialise_ring_diff_arrays error()s on for span > 1), not a truncation
      const int lo = int(pmod(c["ax_trim"][1].get<long>(), 3)), hi = lo;
      if (p->get_num_axial_poss(seg) > lo + hi)
        {
          p->set_min_axial_pos_num(p->get_min_axial_pos_num(seg) + lo, seg);
          p->set_max_axial_pos_num(p->get_max_axial_pos_num(seg) - hi, seg);
        }
    }
  return p;
}

World
make_world(const json& c)
{
  World w;
  w.sc = vg::make_scanner(c["scanner"]);
  if (w.sc->check_consistency() != Succeeded::yes)
    throw std::runtime_error("scanner inconsistent");
  w.tmpl = make_template(w.sc, c);
  w.cyl = dynamic_cast<const ProjDataInfoCylindricalNoArcCorr*>(w.tmpl.get());
  if (!w.cyl)
    throw std::runtime_error("template is not ProjDataInfoCylindricalNoArcCorr");
  {
    // force the lazily built ring-difference tables now: their error() ("axial positions do not correspond...") is a
    // rejection of the geometry at construction, not an outcome of histogramming
    int sg, ax;
    w.cyl->get_segment_axial_pos_num_for_ring_pair(sg, ax, 0, 0);
  }
  w.has_delayeds = c["has_delayeds"].get<bool>();
  w.recs = decode_stream(c, *w.sc);
  w.index.pdi = w.tmpl;
  vp::ExplicitP::enumerate_bins(*w.tmpl, w.index.bins);
  w.bins = w.index.bins;
  return w;
}

// ---- the oracle ---------------------------------------------------------------------------------------
struct Selection
{
  bool use_time = false; // frame [s_ms, e_ms)
  long s_ms = 0, e_ms = 0;
  long cut = 0; // > 0: stop when the net number of stored counts reaches cut
};

struct Expect
{
  std::vector<double> hist; // linear bin index (ExplicitP enumeration order)
  long n_in_frame = 0, n_accepted = 0, n_out_of_range = 0, n_negative_bins = 0, n_prompts_acc = 0, n_delayeds_acc = 0;
  bool cut_reached = false;
};

//! bin of an event according to the geometry (C01 decides this map), -1 if outside the template's ranges
long
bin_of(const World& w, const Rec& r)
{
  Bin b;
  const DetectionPositionPair<> dp(DetectionPosition<>(r.d1, r.r1, 0), DetectionPosition<>(r.d2, r.r2, 0), r.tof);
  if ((w.cyl ? w.cyl->get_bin_for_det_pos_pair(b, dp) : w.gen->get_bin_for_det_pos_pair(b, dp)) != Succeeded::yes)
    return -1;
  return w.index.bin_index(b); // tests all five index ranges
}

Expect
expected(const World& w, const Selection& sel, bool store_prompts, bool store_delayeds)
{
  // documented semantics (LmToProjData.h / LmToProjData.cxx comments):
  //  * list-mode data starts at time 0; an event carries the time of the most recent time mark before it
  //  * it belongs to frame [s,e) iff that time is in [s,e)
  //  * prompts add +1 if stored; delayeds add -1 when both are stored, +1 when only delayeds are stored, else nothing
  //  * num_events_to_store counts "the total of prompts-delayeds"
  const int inc_prompt = store_prompts ? 1 : 0;
  const int inc_delayed = store_prompts ? (store_delayeds ? -1 : 0) : (store_delayeds ? 1 : 0);
  Expect ex;
  ex.hist.assign(w.bins.size(), 0.);
  unsigned long now = 0;
  long net = 0;
  for (const Rec& r : w.recs)
    {
      if (r.kind == 0)
        {
          now = r.ms;
          continue;
        }
      if (sel.use_time && !(long(now) >= sel.s_ms && long(now) < sel.e_ms))
        continue;
      ++ex.n_in_frame;
      const long idx = bin_of(w, r);
      if (idx < 0)
        {
          ++ex.n_out_of_range;
          continue;
        }
      const int inc = r.kind == 1 ? inc_prompt : inc_delayed;
      if (inc == 0)
        continue;
      ex.hist[std::size_t(idx)] += inc;
      ++ex.n_accepted;
      (r.kind == 1 ? ex.n_prompts_acc : ex.n_delayeds_acc)++;
      net += inc;
      if (sel.cut > 0 && net == sel.cut)
        {
          ex.cut_reached = true;
          break;
        }
    }
  for (double v : ex.hist)
    if (v < 0)
      ++ex.n_negative_bins;
  return ex;
}

//! statistics only: when the records up to the first time mark >= start have been skipped, the current time is already
//! >= end and the next record is an event (a frame without a time mark inside: nothing of that stretch belongs to it)
bool
frame_over_at_entry(const World& w, long s_ms, long e_ms)
{
  std::size_t pos = 0;
  long cur = 0;
  while (cur < s_ms && pos < w.recs.size())
    {
      const Rec& r = w.recs[pos++];
      if (r.kind == 0)
        cur = long(r.ms);
    }
  return cur >= e_ms && pos < w.recs.size() && w.recs[pos].kind != 0;
}

// ---- running LmToProjData -----------------------------------------------------------------------------
struct RunCfg
{
  int nseg = -1, ntof = -1;
  bool to_file = false, tof_via_parser = false;
  //! every option that has a keyword is given through the parser ("num_segments_in_memory", "Store prompts", "Store delayeds",
  //! "num_events_to_store", "output filename prefix"), as in a .par file of lm_to_projdata; the input data and the template
  //! are objects of the harness and are given through the setters afterwards
  bool all_via_parser = false;
  //! frames from a file: 0 = keyword "frame_definition file" (the only way that member can be set), 1 = TimeFrameDefinitions(file)
  //! constructed by the caller and handed to set_time_frame_definitions
  int frame_file_route = 0;
  //! audit H: the in-memory output object is NOT freshly constructed: it holds stale values in every bin before process_data()
  //! (set_output_projdata_sptr: "set projdata to be filled with output"; "will only store data from the last defined time frame":
  //! what the object held before is replaced, the histogram holds the counts of the events "and nothing else")
  bool prefill = false;
};

TimeFrameDefinitions
frames_of(const std::vector<std::pair<long, long>>& f)
{
  std::vector<std::pair<double, double>> v;
  for (auto& p : f)
    v.push_back(std::make_pair(double(p.first) / 1000., double(p.second) / 1000.)); // same ms -> s conversion as ListTime::get_time_in_secs
  return TimeFrameDefinitions(v);
}

//! everything one process_data() call is configured with
struct RunOpts
{
  std::vector<std::pair<long, long>> frames; // in-memory frame definitions (set_time_frame_definitions); ignored if frame_file is set
  std::string frame_file;                    // frame definitions in a file (.fdef text or Interfile header)
  std::size_t num_frames_in_file = 0;
  long cut = 0;
  bool store_prompts = true, store_delayeds = true;
  int max_seg = -1; // keyword "maximum absolute segment number to process" (no setter exists); -1 = not given
};

//! flattened histogram in the enumeration of the (full) template; bins of segments that the output does not have stay 0
std::vector<double>
hist_of(const World& w, const ProjData& pd)
{
  std::vector<double> v(w.bins.size(), 0.);
  const ProjDataInfo& p = *pd.get_proj_data_info_sptr();
  for (int k = p.get_min_tof_pos_num(); k <= p.get_max_tof_pos_num(); ++k)
    for (int s = p.get_min_segment_num(); s <= p.get_max_segment_num(); ++s)
      for (int vw = p.get_min_view_num(); vw <= p.get_max_view_num(); ++vw)
        {
          const Viewgram<float> vg = pd.get_viewgram(vw, s, false, k);
          for (int a = p.get_min_axial_pos_num(s); a <= p.get_max_axial_pos_num(s); ++a)
            for (int t = p.get_min_tangential_pos_num(); t <= p.get_max_tangential_pos_num(); ++t)
              {
                const long idx = w.index.bin_index(Bin(s, vw, a, t, k));
                if (idx < 0)
                  throw std::runtime_error("output has a bin outside the template's ranges");
                v[std::size_t(idx)] = vg[a][t];
              }
        }
  return v;
}

//! one process_data() call; returns one flattened histogram per output (files: one per frame; in-memory object: one)
std::vector<std::vector<double>>
run_lm_to_projdata(const World& w,
                   const shared_ptr<CListModeData>& lm,
                   const RunOpts& o,
                   const RunCfg& cfg,
                   const std::string& dir,
                   bool* did_time_frame = nullptr,
                   LmToProjDataWithTOFBatches* reuse = nullptr)
{
  static long run_counter = 0;
  const std::string prefix = cat(dir, "/out", run_counter++);
  LmToProjDataWithTOFBatches fresh;
  LmToProjDataWithTOFBatches& conv = reuse ? *reuse : fresh; // clause E: an object that has been used before
  const bool frames_by_keyword = !o.frame_file.empty() && cfg.frame_file_route == 0;
  {
    // the parameter text (LmToProjData.h documents the keywords); parse() reports the missing "input file" keyword
    // (post_processing), which is ignored: input data and template are given through the public setters afterwards
    std::string par;
    if (cfg.tof_via_parser || cfg.all_via_parser)
      par += cat("  num_TOF_bins_in_memory := ", cfg.ntof, "\n");
    if (frames_by_keyword)
      par += cat("  frame_definition file := ", o.frame_file, "\n");
    if (o.max_seg >= 0)
      par += cat("  maximum absolute segment number to process := ", o.max_seg, "\n");
    if (cfg.all_via_parser)
      {
        par += cat("  output filename prefix := ", prefix, "\n");
        par += cat("  num_segments_in_memory := ", cfg.nseg, "\n");
        par += cat("  store prompts := ", o.store_prompts ? 1 : 0, "\n");
        par += cat("  store delayeds := ", o.store_delayeds ? 1 : 0, "\n");
        par += cat("  num_events_to_store := ", o.cut, "\n");
      }
    if (!par.empty())
      {
        std::istringstream text("lm_to_projdata Parameters:=\n" + par + "END:=\n");
        conv.parse(text);
        stats().count("LmToProjData configured through the parser");
      }
    if (!(cfg.tof_via_parser || cfg.all_via_parser))
      conv.set_num_TOF_bins_in_memory(cfg.ntof);
  }
  conv.set_input_data(static_pointer_cast<ExamData>(lm));
  conv.set_template_proj_data_info_sptr(w.tmpl);
  if (!cfg.all_via_parser)
    {
      conv.set_num_segments_in_memory(cfg.nseg);
      conv.set_store_prompts(o.store_prompts);
      conv.set_store_delayeds(o.store_delayeds);
      conv.set_num_events_to_store(o.cut);
      conv.set_output_filename_prefix(prefix); // set_up() insists on a prefix even when the output object is given
    }
  if (!o.frame_file.empty())
    {
      if (!frames_by_keyword)
        conv.set_time_frame_definitions(TimeFrameDefinitions(o.frame_file));
    }
  else if (!o.frames.empty())
    conv.set_time_frame_definitions(frames_of(o.frames));
  shared_ptr<ProjData> out;
  // the geometry the output must have: the template, with the segment range reduced as documented for the keyword
  shared_ptr<ProjDataInfo> want = w.tmpl->create_shared_clone();
  if (o.max_seg >= 0)
    {
      const int m = std::min(o.max_seg, want->get_max_segment_num());
      want->reduce_segment_range(-m, m);
    }
  if (!cfg.to_file)
    {
      // zero-initialised output object.  With the segment keyword it has the reduced range (finding C14-F7: an output object
      // with more segments than the reduced template makes process_data index its table of segments out of range)
      bool full = true;
      if (o.max_seg >= 0 && o.max_seg < w.tmpl->get_max_segment_num() && exclusion_on("F7"))
        {
          full = false;
          excluded(SIG_F7);
        }
      out.reset(new ProjDataInMemory(lm->get_exam_info_sptr(), full ? w.tmpl : want));
      // stale contents (not with the segment keyword and a full-size object: the segments that are not processed are documented
      // to be left alone, the comparison below expects 0 there)
      if (cfg.prefill && o.max_seg < 0)
        {
          out->fill(7.F);
          stats().cls("in-memory output object with stale contents before process_data()");
        }
      conv.set_output_projdata_sptr(out);
    }
  if (conv.set_up() != Succeeded::yes)
    throw std::runtime_error("LmToProjData::set_up failed");
  if (did_time_frame)
    *did_time_frame = conv.get_do_time_frame();
  lm->reset(); // process_data() reads on from the current position
  {
    // process_data() prints progress ("\r<n> events stored", no newline) on std::cout, which the driver parses for FAIL lines
    struct CoutSilencer
    {
      std::ostringstream sink;
      std::streambuf* old;
      CoutSilencer() : old(std::cout.rdbuf(sink.rdbuf())) {}
      ~CoutSilencer() { std::cout.rdbuf(old); }
    } silence;
    conv.process_data();
  }
  std::vector<std::vector<double>> res;
  if (!cfg.to_file)
    res.push_back(hist_of(w, *out));
  else
    {
      const std::size_t nf = !o.frame_file.empty() ? o.num_frames_in_file : (o.frames.empty() ? 1 : o.frames.size());
      for (std::size_t f = 1; f <= nf; ++f)
        {
          const std::string name = cat(prefix, "_f", f, "g1d0b0.hs"); // documented naming of LmToProjData outputs
          shared_ptr<ProjData> pd = ProjData::read_from_file(name);
          if (*pd->get_proj_data_info_sptr() != *want)
            throw std::runtime_error("output file has a different projection data info than the template");
          res.push_back(hist_of(w, *pd));
        }
      if (std::filesystem::exists(cat(prefix, "_f", nf + 1, "g1d0b0.hs")))
        throw std::runtime_error("more output files than frames");
    }
  return res;
}

//! the former interface (frames and options through the setters)
std::vector<std::vector<double>>
run_lm_to_projdata(const World& w,
                   const shared_ptr<SyntheticCListModeData>& lm,
                   const std::vector<std::pair<long, long>>& frames,
                   long cut,
                   const RunCfg& cfg,
                   bool store_prompts,
                   bool store_delayeds,
                   const std::string& dir,
                   bool* did_time_frame = nullptr)
{
  RunOpts o;
  o.frames = frames;
  o.cut = cut;
  o.store_prompts = store_prompts;
  o.store_delayeds = store_delayeds;
  return run_lm_to_projdata(w, lm, o, cfg, dir, did_time_frame);
}

std::string
show_bin(const Bin& b)
{
  return cat("(seg ", b.segment_num(), ", ax ", b.axial_pos_num(), ", view ", b.view_num(), ", tang ", b.tangential_pos_num(), ", tof ", b.timing_pos_num(), ")");
}

Result
compare_hist(const World& w, const std::vector<double>& got, const std::vector<double>& want, const std::string& ctx)
{
  VF_CHECK(got.size() == want.size(), ctx, ": size ", got.size(), " vs ", want.size());
  long ndiff = 0;
  std::size_t first = 0;
  double sum_got = 0, sum_want = 0;
  for (std::size_t i = 0; i < got.size(); ++i)
    {
      sum_got += got[i];
      sum_want += want[i];
      if (got[i] != want[i] && ndiff++ == 0)
        first = i;
    }
  VF_CHECK(ndiff == 0, ctx, ": histogram differs from the event list in ", ndiff, " bins; first ", show_bin(w.bins[first]), " stored ", got[first],
           " expected ", want[first], "; totals stored ", sum_got, " expected ", sum_want);
  return Result::pass();
}

#define PROPAGATE(expr)                                                                                                          \
  do                                                                                                                             \
    {                                                                                                                            \
      ::vf::Result r__ = (expr);                                                                                                 \
      if (r__.kind != ::vf::Result::PASS)                                                                                        \
        return r__;                                                                                                              \
    }                                                                                                                            \
  while (0)

int
num_batches(const World& w, const RunCfg& r)
{
  const int nseg = w.tmpl->get_num_segments(), ntof = w.tmpl->get_num_tof_poss();
  const int a = (r.nseg == -1) ? nseg : std::min(r.nseg, nseg);
  const int b = (r.ntof == -1) ? ntof : std::min(r.ntof, ntof);
  return ((nseg + a - 1) / a) * ((ntof + b - 1) / b);
}

std::vector<RunCfg>
run_cfgs(const json& c, bool single_tof_bin_template, bool axial_range_not_from_zero)
{
  std::vector<RunCfg> v;
  for (const json& r : c["runs"])
    {
      RunCfg x;
      // domain (DESIGN C14): 1...all and -1; larger values are clamped by set_up() (min with the number of segments).
      // 0 and other negative values are outside the documented domain (and make process_data loop for ever).
      x.nseg = int(r[0].get<long>());
      if (x.nseg < 1)
        x.nseg = (x.nseg == 0) ? 1 : -1;
      x.ntof = int(r[1].get<long>());
      if (x.ntof < 1)
        x.ntof = (x.ntof == 0) ? 1 : -1;
      x.to_file = r[2].get<long>() != 0;
      x.tof_via_parser = r[3].get<long>() != 0;
      x.all_via_parser = r.size() > 4 && r[4].get<long>() != 0;
      x.frame_file_route = (r.size() > 5 && r[5].get<long>() != 0) ? 1 : 0;
      x.prefill = r.size() > 6 && r[6].get<long>() != 0;
      if (x.to_file && axial_range_not_from_zero)
        x.to_file = false; // the Interfile header stores only the NUMBER of axial positions: such a template cannot be a file
      if (x.to_file && single_tof_bin_template && exclusion_on("F5"))
        { // finding C14-F5: the Interfile header LmToProjData writes for a TOF template mashed to ONE TOF bin cannot be read back
          x.to_file = false;
          excluded(SIG_F5);
        }
      v.push_back(x);
    }
  if (v.empty())
    v.push_back(RunCfg());
  return v;
}

//! the frame-definition file of the Case.  Mode 3 histograms with it: all durations are then multiples of 125 ms = 1/8 s, so that
//! every frame boundary (a sum of durations) is exact in binary and in integer ms, and "time mark >= frame end" is decided
//! without rounding however the sum is formed (LmToProjData.cxx: "Direct comparison within doubles is unsafe").  In the other
//! modes the file is only read back (clause A) and its durations are arbitrary multiples of 1 ms.
c14f::Fdef
fdef_of_case(const json& c)
{
  const json& j = c["fdef"];
  long unit = std::max(1L, std::min(100000L, j.value("unit", 125L)));
  if (c["mode"].get<int>() == 3)
    unit = std::max(125L, unit / 125 * 125);
  return c14f::decode_fdef(j, unit);
}

std::vector<std::pair<long, long>>
frames_from_case(const json& c)
{
  std::vector<std::pair<long, long>> f;
  if (c["mode"].get<int>() == 3)
    return c14f::fdef_frames_ms(fdef_of_case(c));
  if (c["mode"].get<int>() != 0)
    return f;
  std::vector<long> b;
  for (const json& x : c["bounds"])
    b.push_back(x.get<long>());
  // normalise (shrunk / mutated cases stay valid): strictly increasing, first >= 0,
  // every frame end > 0.01 s because LmToProjData switches time handling off for end_time <= 0.01 ("end_time > 0.01" test)
  for (std::size_t k = 0; k < b.size(); ++k)
    {
      if (k == 0)
        b[k] = std::max(0L, b[k]);
      else
        b[k] = std::max(std::max(b[k], b[k - 1] + 1), 20L);
    }
  for (std::size_t k = 0; k + 1 < b.size(); ++k)
    f.push_back(std::make_pair(b[k], b[k + 1]));
  return f;
}

// ---- likelihood clause --------------------------------------------------------------------------------
void
to_vec(std::vector<double>& out, const target_type& im)
{
  out.clear();
  for (auto it = im.begin_all_const(); it != im.end_all_const(); ++it)
    out.push_back(*it);
}

shared_ptr<ProjMatrixByBinUsingRayTracing>
lik_matrix(const json& L)
{
  vp::MatrixOpts o;
  o.num_tangential_LORs = L["lors"].get<int>();
  const int sym = L["sym"].get<int>();
  const int cache = L["mcache"].get<int>();
  return vp::make_matrix(o, (sym & 1) != 0, (sym & 2) != 0, (sym & 4) != 0, (sym & 8) != 0, (sym & 16) != 0, cache != 0, cache == 1);
}

double
max_abs(const std::vector<double>& v)
{
  double m = 0;
  for (double x : v)
    m = std::max(m, std::fabs(x));
  return m;
}

Result
compare_vec(const std::vector<double>& got, const std::vector<double>& ref, double tol, const std::string& what, const std::string& statkey)
{
  VF_CHECK(got.size() == ref.size(), what, ": size ", got.size(), " vs ", ref.size());
  const double scale = max_abs(ref);
  double md = 0;
  std::size_t where = 0;
  for (std::size_t i = 0; i < ref.size(); ++i)
    {
      const double d = std::fabs(got[i] - ref[i]);
      if (!(d <= md))
        {
          md = d;
          where = i;
        }
    }
  if (scale > 0)
    stats().maxi(statkey, md / scale);
  VF_CHECK(md <= tol * scale || (scale == 0 && md == 0), what, ": max |diff| ", md, " at element ", where, " (", got.empty() ? 0. : got[where], " vs ",
           ref.empty() ? 0. : ref[where], "), scale ", scale, ", tolerance ", tol);
  return Result::pass();
}

Result
check_likelihood(const json& c, const World& w, const Selection& sel, const std::string& dir)
{
  const json& L = c["lik"];
  // the list-mode objective works in the geometry of the list-mode data itself: the source reports the template
  shared_ptr<SyntheticCListModeData> lm(new SyntheticCListModeData(w.recs, w.tmpl, w.has_delayeds));
  // data of the projection-data objective: the histogram of the prompts (clause 1 has just shown LmToProjData == event list)
  const Expect ex = expected(w, sel, true, false);
  if (ex.n_accepted == 0)
    { // LM_distributable_computation has assert(!record_ptr.empty()): at least one cached event is a precondition
      stats().cls("likelihood: skipped, no accepted prompt in the frame");
      return Result::pass();
    }
  shared_ptr<VoxelsOnCartesianGrid<float>> image;
  vp::ExplicitP P;
  const bool use_add = L["add"].get<bool>(), use_norm = L["norm"].get<bool>();
  const int sym = L["sym"].get<int>();
  shared_ptr<ExamInfo> exam(new ExamInfo(ImagingModality::PT));
  shared_ptr<ProjDataInMemory> data(new ProjDataInMemory(exam, w.tmpl)), add(new ProjDataInMemory(exam, w.tmpl)),
      mult(new ProjDataInMemory(exam, w.tmpl->create_non_tof_clone()));
  typedef PoissonLogLikelihoodWithLinearModelForMeanAndListModeDataWithProjMatrixByBin<target_type> LMObj;
  typedef PoissonLogLikelihoodWithLinearModelForMeanAndProjData<target_type> PDObj;
  LMObj lmobj;
  PDObj pdobj;
  shared_ptr<target_type> target;
  std::vector<double> addv(w.bins.size(), 0.), effv(w.bins.size(), 1.);
  int nsub = 1;
  try
    {
      image = vg::make_image(L["image"], *w.tmpl, 7);
      vg::fill_random(*image, L["dseed"].get<uint64_t>(), 0.5, 2.);
      {
        // audit H: the current estimate may hold exact zeros (1: in about a third of the voxels; 2: everywhere, only together with
        // the additive term so that every denominator P x + a stays >= 0.5) - the gradient sum_b P_b^T y_b/(P_b x + a_b) is defined
        // there as anywhere else; cases whose quotients come near the documented 1e4 thresholds are screened out below as before
        int xzero = int(L.value("xzero", 0L));
        if (xzero == 2 && !use_add)
          xzero = 1;
        if (xzero > 0)
          {
            SplitMix gz(L["dseed"].get<uint64_t>() ^ 0x2e20ULL);
            for (auto it = image->begin_all(); it != image->end_all(); ++it)
              if (xzero == 2 || gz.range(0, 2) == 0)
                *it = 0.F;
            stats().cls(xzero == 2 ? "likelihood: current estimate all zero (with additive term)" : "likelihood: current estimate with exact zeros");
          }
      }
      vp::MatrixOpts o;
      o.num_tangential_LORs = L["lors"].get<int>();
      P = vp::ExplicitP::build(w.tmpl, image, o);
      w.index.vec_to_projdata(*data, ex.hist);
      SplitMix g(L["dseed"].get<uint64_t>() ^ 0x5151ULL);
      for (auto& v : addv)
        v = float(g.real(0.5, 1.5));
      if (use_add && L.value("azero", 0L) > 0 && L.value("xzero", 0L) == 0)
        { // audit H: additive term with exact zeros in a third of the bins (legal: P x > 0 for the strictly positive estimate)
          SplitMix ga(L["dseed"].get<uint64_t>() ^ 0xa2e20ULL);
          for (auto& v : addv)
            if (ga.range(0, 2) == 0)
              v = 0.;
          stats().cls("likelihood: additive term with exact zeros");
        }
      w.index.vec_to_projdata(*add, addv);
      for (auto it = mult->begin_all(); it != mult->end_all(); ++it)
        *it = float(g.real(0.5, 2.));
      nsub = std::max(1, L["subsets"].get<int>());
      if (w.tmpl->get_num_views() % nsub != 0)
        nsub = 1;

      lmobj.set_input_data(static_pointer_cast<ExamData>(lm));
      lmobj.set_proj_matrix(lik_matrix(L));
      if (use_add)
        lmobj.set_additive_proj_data_sptr(add);
      if (use_norm)
        lmobj.set_normalisation_sptr(shared_ptr<BinNormalisation>(new BinNormalisationFromProjData(mult)));
      if (sel.use_time)
        lmobj.frame_defs = frames_of({ std::make_pair(sel.s_ms, sel.e_ms) });
      lmobj.set_num_subsets(nsub);
      lmobj.set_use_subset_sensitivities(true);
      lmobj.set_cache_path(dir);
      lmobj.set_recompute_cache(true);
      const long lmcache = L["lmcache"].get<long>();
      lmobj.set_cache_max_size(static_cast<unsigned long>(lmcache)); // 0: read from the list-mode source at every call

      pdobj.set_proj_data_sptr(data);
      pdobj.set_projector_pair_sptr(shared_ptr<ProjectorByBinPair>(new ProjectorByBinPairUsingProjMatrixByBin(lik_matrix(L))));
      pdobj.set_use_subset_sensitivities(true);
      pdobj.set_num_subsets(nsub);
      if (use_add)
        pdobj.set_additive_proj_data_sptr(add);
      if (use_norm)
        pdobj.set_normalisation_sptr(shared_ptr<BinNormalisation>(new BinNormalisationFromProjData(mult)));
      target.reset(image->clone());
      if (lmobj.set_up(target) != Succeeded::yes)
        return Result::reject("list-mode objective set_up failed");
      if (pdobj.set_up(target) != Succeeded::yes)
        return Result::reject("projection-data objective set_up failed");
    }
  catch (const stir_verif::AssertionFailure&)
    {
      throw;
    }
  catch (const std::exception& e)
    {
      return Result::reject(std::string("likelihood set-up rejected: ") + std::string(e.what()).substr(0, 70));
    }
  const int subset = int(pmod(L["subset"].get<long>(), nsub));
  const bool tof = w.tmpl->get_num_tof_poss() > 1;

  // reference: g = sum_{b in subset} P_b^T y_b / (P_b x + a_b)
  const std::vector<double> x = P.image_to_vec(*image);
  const std::vector<double> fwd = P.forward(x);
  std::vector<double> q(w.bins.size(), 0.);
  double max_quot = 0;
  for (std::size_t b = 0; b < q.size(); ++b)
    if (ex.hist[b] > 0)
      {
        const double den = fwd[b] + (use_add ? addv[b] : 0.);
        const double quot_event = den > 0 ? 1. / den : (P.rows[b].empty() ? 0. : 1e30);
        max_quot = std::max(max_quot, quot_event * ex.hist[b]);
        if (pmod(w.bins[b].view_num() - w.tmpl->get_min_view_num(), nsub) == subset)
          q[b] = ex.hist[b] * quot_event;
      }
  if (sym != 0)
    { // the same screen with the rows the objectives really use (rows derived through symmetry operations can differ from the
      // direct ones by float residues such as 1.2e-7 at plane boundaries, which is enough to reach the quotient thresholds)
      shared_ptr<ProjMatrixByBinUsingRayTracing> mm = lik_matrix(L);
      mm->set_up(w.tmpl, image);
      ProjMatrixElemsForOneBin row;
      for (std::size_t b = 0; b < q.size(); ++b)
        if (ex.hist[b] > 0)
          {
            mm->get_proj_matrix_elems_for_one_bin(row, w.bins[b]);
            double f = 0;
            bool any = false;
            for (auto it = row.begin(); it != row.end(); ++it)
              if (P.inside(it->coord1(), it->coord2(), it->coord3()))
                {
                  any = true;
                  f += double(it->get_value()) * x[std::size_t(P.vox_index(it->coord1(), it->coord2(), it->coord3()))];
                }
            const double den = f + (use_add ? addv[b] : 0.);
            max_quot = std::max(max_quot, den > 0 ? ex.hist[b] / den : (any ? 1e30 : 0.));
          }
    }
  stats().cls(cat("likelihood: ", tof ? "TOF" : "non-TOF", use_add ? " +additive" : "", use_norm ? " +norm" : "", nsub > 1 ? " subsets" : ""));
  if (max_quot > 1000.)
    { // both objectives regularise quotients near 1e4 (divide_and_truncate / max_quotient), in different ways: documented
      // thresholds, not part of the property.  Only cases that stay a factor 10 away from them are compared.
      stats().cls("likelihood: skipped, quotient near the documented 1e4 threshold");
      return Result::pass();
    }
  const std::vector<double> gref = P.back(q);

  // A number of cached prompts that is a multiple of 'max cache size' leaves an EMPTY last cache batch (read_listmode_batch
  // stops a batch when the cache is full and only finds the end of the frame in the next one).  LM_distributable_computation
  // has assert(!record_ptr.empty()), which then fires in builds with assertions, although its loop over zero events is
  // correct (the gradient is checked below as for every other case).  The property does not speak about that internal
  // assertion, so for exactly this class the list-mode calls run with the assertions off (= what a Release build executes).
  // (With the assertion on, the process would terminate: the running HighResWallClockTimer asserts in its destructor.)
  const long lmcache_used = L["lmcache"].get<long>();
  const bool empty_last_cache_batch = lmcache_used > 0 && ex.n_prompts_acc % lmcache_used == 0;
  if (empty_last_cache_batch)
    stats().cls("likelihood: empty last cache batch (list-mode calls with assertions off = Release behaviour)");

  shared_ptr<target_type> g_lm(target->get_empty_copy()), g_pd(target->get_empty_copy());
  {
    AssertsOff guard(empty_last_cache_batch);
    lmobj.compute_sub_gradient_without_penalty_plus_sensitivity(*g_lm, *target, subset);
  }
  pdobj.compute_sub_gradient_without_penalty_plus_sensitivity(*g_pd, *target, subset);
  std::vector<double> vlm, vpd;
  to_vec(vlm, *g_lm);
  to_vec(vpd, *g_pd);
  const std::string ctx = cat("[", tof ? "TOF" : "non-TOF", " add=", use_add, " norm=", use_norm, " subsets=", nsub, " subset=", subset, " sym=", sym,
                              " lmcache=", L["lmcache"].get<long>(), " events=", ex.n_accepted, "]");
  if (std::getenv("VERIF_C14_DEBUG"))
    {
      shared_ptr<ProjMatrixByBinUsingRayTracing> mm = lik_matrix(L);
      mm->set_up(w.tmpl, image);
      for (std::size_t b = 0; b < q.size(); ++b)
        if (ex.hist[b] > 0)
          {
            ProjMatrixElemsForOneBin row;
            mm->get_proj_matrix_elems_for_one_bin(row, w.bins[b]);
            std::cerr << "DEBUG bin " << show_bin(w.bins[b]) << " y=" << ex.hist[b] << " fwd(explicit)=" << fwd[b] << " explicit row:";
            for (auto& e : P.rows[b])
              std::cerr << " [" << e.first << "]=" << e.second;
            std::cerr << "\n   STIR row (sym " << sym << "):";
            for (auto it = row.begin(); it != row.end(); ++it)
              std::cerr << " (" << it->coord1() << "," << it->coord2() << "," << it->coord3() << ")=" << it->get_value();
            std::cerr << "\n";
          }
      for (std::size_t i = 0; i < vlm.size(); ++i)
        std::cerr << "DEBUG grad " << i << " lm " << vlm[i] << " pd " << vpd[i] << " ref " << gref[i] << "\n";
    }
  if (std::getenv("VERIF_C14_DEBUG") && use_add && tof)
    { // hypothesis behind finding C14-F4: every event gets the additive value of the LAST TOF bin of its spatial bin
      const std::size_t per_tof = addv.size() / std::size_t(w.tmpl->get_num_tof_poss());
      std::vector<double> q2(q.size(), 0.);
      for (std::size_t b = 0; b < q2.size(); ++b)
        if (ex.hist[b] > 0 && q[b] != 0)
          q2[b] = ex.hist[b] / (fwd[b] + addv[(b % per_tof) + per_tof * std::size_t(w.tmpl->get_num_tof_poss() - 1)]);
      const std::vector<double> g2 = P.back(q2);
      double md = 0;
      for (std::size_t i = 0; i < g2.size(); ++i)
        md = std::max(md, std::fabs(g2[i] - vlm[i]));
      std::cerr << "DEBUG F4: max |LM gradient - reference with additive term of the last TOF bin| = " << md << " (scale " << max_abs(g2) << ")\n";
    }
  // tolerance 1e-4 of the maximum (float accumulation in a different order; observed maxima are in the evidence)
  PROPAGATE(compare_vec(vlm, vpd, 1e-4, "list-mode gradient (data term) vs projection-data gradient of the histogram " + ctx,
                        "max rel diff LM gradient vs projdata gradient"));
  // the explicit reference is built from a symmetry-free matrix: rows that STIR derives through a symmetry operation may
  // differ from directly computed ones for LORs running exactly along voxel boundaries (the subject and the "tie screen" of
  // C03, frequent on these very small scanners), and with symmetries STIR groups bins into subsets by their BASIC view.
  // So the reference is used when the objectives' matrices are symmetry-free as well; with symmetries on, the two
  // objectives (which derive their rows through the same operations) are compared with each other only.
  const bool ref_applicable = sym == 0;
  if (ref_applicable)
    PROPAGATE(compare_vec(vpd, gref, 1e-4, "projection-data gradient of the histogram vs explicit matrix reference " + ctx,
                          "max rel diff projdata gradient vs explicit reference"));
  if (ref_applicable)
    {
      PROPAGATE(compare_vec(vlm, gref, 1e-4, "list-mode gradient (data term) vs explicit matrix reference " + ctx,
                            "max rel diff LM gradient vs explicit reference"));
      stats().cls("likelihood: compared with explicit reference");
    }
  if (!w.tmpl->is_tof_data())
    { // with TOF data both classes use a non-TOF sensitivity unless "use time-of-flight sensitivities" (documented
      // approximation; the two classes decide "TOF data" differently for a template mashed to a single TOF bin:
      // num_tof_poss > 1 here, is_tof_data() in the projection-data class), so the sensitivity and the full gradient
      // are compared for non-TOF data only
      shared_ptr<target_type> f_lm(target->get_empty_copy()), f_pd(target->get_empty_copy());
      {
        AssertsOff guard(empty_last_cache_batch);
        lmobj.compute_sub_gradient_without_penalty(*f_lm, *target, subset);
      }
      pdobj.compute_sub_gradient_without_penalty(*f_pd, *target, subset);
      std::vector<double> a, b, s_lm, s_pd;
      to_vec(a, *f_lm);
      to_vec(b, *f_pd);
      to_vec(s_lm, lmobj.get_subset_sensitivity(subset));
      to_vec(s_pd, pdobj.get_subset_sensitivity(subset));
      if (std::getenv("VERIF_C14_DEBUG"))
        {
          std::vector<double> ones(w.bins.size(), 1.);
          const std::vector<double> sref = P.back(ones);
          for (std::size_t i = 0; i < s_lm.size(); ++i)
            std::cerr << "DEBUG sens " << i << " lm " << s_lm[i] << " pd " << s_pd[i] << " ref " << sref[i] << " gradlm " << vlm[i] << " gradpd " << vpd[i] << " gref " << gref[i] << "\n";
        }
      PROPAGATE(compare_vec(s_lm, s_pd, 1e-4, "list-mode subset sensitivity vs projection-data subset sensitivity " + ctx,
                            "max rel diff LM sensitivity vs projdata sensitivity"));
      // full gradient = data term - sensitivity: tolerance relative to the larger of the two parts
      const double scale = std::max(max_abs(vpd), max_abs(s_pd));
      double md = 0;
      for (std::size_t i = 0; i < a.size(); ++i)
        md = std::max(md, std::fabs(a[i] - b[i]));
      if (scale > 0)
        stats().maxi("max rel diff LM full gradient vs projdata full gradient", md / scale);
      VF_CHECK(md <= 1e-4 * scale, "list-mode gradient (with sensitivity) vs projection-data gradient ", ctx, ": max |diff| ", md, " scale ", scale);
    }
  if (lmcache_used > 0 && L.value("reread", true))
    {
      // a second objective that re-uses the cache files of the first ("recompute cache := 0", how a second reconstruction of the
      // same data is normally run): same data, same model => same gradient.  The class documents that nothing checks whether
      // the cache belongs to the same frame etc.; here it does.  Tolerance 1e-5 of the maximum: the same events in the same
      // order, only the order of the per-thread sums can differ.
      LMObj lm2;
      try
        {
          lm2.set_input_data(static_pointer_cast<ExamData>(lm));
          lm2.set_proj_matrix(lik_matrix(L));
          if (use_add)
            lm2.set_additive_proj_data_sptr(add);
          if (use_norm)
            lm2.set_normalisation_sptr(shared_ptr<BinNormalisation>(new BinNormalisationFromProjData(mult)));
          if (sel.use_time)
            lm2.frame_defs = frames_of({ std::make_pair(sel.s_ms, sel.e_ms) });
          lm2.set_num_subsets(nsub);
          lm2.set_use_subset_sensitivities(true);
          lm2.set_cache_path(dir);
          lm2.set_recompute_cache(false);
          lm2.set_cache_max_size(static_cast<unsigned long>(lmcache_used));
          if (lm2.set_up(target) != Succeeded::yes)
            return Result::fail("list-mode objective re-using the cache files of the first one: set_up failed " + ctx);
        }
      catch (const stir_verif::AssertionFailure&)
        {
          throw;
        }
      catch (const std::exception& e)
        {
          return Result::fail(cat("list-mode objective re-using the cache files of the first one: ", e.what(), " ", ctx));
        }
      shared_ptr<target_type> g2(target->get_empty_copy());
      {
        AssertsOff guard(empty_last_cache_batch);
        lm2.compute_sub_gradient_without_penalty_plus_sensitivity(*g2, *target, subset);
      }
      std::vector<double> v2;
      to_vec(v2, *g2);
      PROPAGATE(compare_vec(v2, vlm, 1e-5, "list-mode gradient from re-read cache files vs the gradient of the object that wrote them " + ctx,
                            "max rel diff LM gradient from re-read cache vs first object"));
      stats().cls("likelihood: second object re-using the cache files");
    }
  stats().cls("likelihood: compared");
  return Result::pass();
}

// ---- clause A: frame definitions read from a file --------------------------------------------------------
//! TimeFrameDefinitions(filename) for a '.fdef' text file or an Interfile header written by the harness must give the frames the
//! text states (the harness's own reading, c14_formats.h).  The same sequential additions are used on both sides, so the values
//! are expected to be identical; the tolerance 1e-12 (relative to 1 + |t|) only allows for another order of the additions
//! (a wrong frame differs by at least one duration, >= 1e-3 s).
Result
check_frame_file(const json& c, const std::string& dir, std::string& path)
{
  const c14f::Fdef f = fdef_of_case(c);
  path = cat(dir, "/frames", f.kind == 0 ? ".fdef" : ".hv");
  c14f::write_text(path, c14f::fdef_text(f));
  const std::vector<std::pair<double, double>> want = c14f::fdef_frames_secs(f);
  stats().cls(f.kind == 0 ? "frame file: .fdef text" : "frame file: Interfile header");
  bool skips = false, multi = false, neg = false;
  for (auto& l : f.lines)
    {
      skips = skips || l.num == 0;
      multi = multi || l.num > 1;
      neg = neg || l.ms < 0;
    }
  if (skips)
    stats().cls("frame file: with skip lines (0 duration)");
  if (multi)
    stats().cls("frame file: several frames per line");
  if (neg)
    stats().cls("frame file: leading negative skip");
  const TimeFrameDefinitions tfd(path); // a valid file: an exception here is a failure of the case
  VF_CHECK(tfd.get_num_frames() == want.size() && tfd.get_num_time_frames() == want.size(), "TimeFrameDefinitions(\"", path, "\") has ", tfd.get_num_frames(),
           " frames, the text defines ", want.size(), "; text:\n", c14f::fdef_text(f));
  auto close = [](double a, double b) {
    const double d = std::fabs(a - b) / (1. + std::fabs(b));
    stats().maxi("max rel diff frame time read from file vs text", d);
    return d <= 1e-12;
  };
  for (unsigned k = 1; k <= want.size(); ++k)
    {
      const double s = want[k - 1].first, e = want[k - 1].second;
      VF_CHECK(close(tfd.get_start_time(k), s) && close(tfd.get_end_time(k), e) && close(tfd.get_duration(k), e - s), "frame ", k, " of ", want.size(),
               " read from ", f.kind == 0 ? ".fdef text" : "Interfile header", " is [", tfd.get_start_time(k), ",", tfd.get_end_time(k), ") duration ",
               tfd.get_duration(k), ", the text defines [", s, ",", e, "); text:\n", c14f::fdef_text(f));
      // get_time_frame_num: "frame number (between 1 and get_num_time_frames()) or 0 if frame not found"; it matches to 0.01 s, so
      // any frame within that distance is an admissible answer
      const unsigned r = tfd.get_time_frame_num(s, e);
      VF_CHECK(r >= 1 && r <= want.size() && std::fabs(want[r - 1].first - s) < .0100001 && std::fabs(want[r - 1].second - e) < .0100001,
               "get_time_frame_num(", s, ",", e, ") = ", r, " for frame ", k);
    }
  VF_CHECK(close(tfd.get_start_time(), want.front().first) && close(tfd.get_end_time(), want.back().second), "overall start/end [", tfd.get_start_time(), ",",
           tfd.get_end_time(), ") vs text [", want.front().first, ",", want.back().second, ")");
  // single-frame copy constructor used by LmToProjData for the per-frame exam info
  {
    const unsigned k = unsigned(want.size());
    const TimeFrameDefinitions one(tfd, k);
    VF_CHECK(one.get_num_frames() == 1 && one.get_start_time(1) == tfd.get_start_time(k) && one.get_end_time(1) == tfd.get_end_time(k),
             "TimeFrameDefinitions(tfd, ", k, ") is not frame ", k);
  }
  // the same frames built with set_num_time_frames / set_time_frame and with the (start, duration) constructor
  {
    TimeFrameDefinitions built;
    built.set_num_time_frames(int(want.size()));
    std::vector<double> starts, durs;
    for (unsigned k = 1; k <= want.size(); ++k)
      {
        built.set_time_frame(int(k), want[k - 1].first, want[k - 1].second);
        starts.push_back(want[k - 1].first);
        durs.push_back(want[k - 1].second - want[k - 1].first);
      }
    const TimeFrameDefinitions from_durations(starts, durs);
    for (unsigned k = 1; k <= want.size(); ++k)
      VF_CHECK(built.get_start_time(k) == want[k - 1].first && built.get_end_time(k) == want[k - 1].second && from_durations.get_start_time(k) == want[k - 1].first
                   && close(from_durations.get_end_time(k), want[k - 1].second),
               "frame ", k, " set with set_time_frame / (starts, durations): [", built.get_start_time(k), ",", built.get_end_time(k), ") / [", from_durations.get_start_time(k), ",",
               from_durations.get_end_time(k), ") vs [", want[k - 1].first, ",", want[k - 1].second, ")");
    VF_CHECK(built.get_num_frames() == want.size() && built == tfd && tfd == built, "TimeFrameDefinitions built with the setters does not compare equal to the one read from the file");
  }
  stats().count("frame files read back");
  return Result::pass();
}

// ---- clause E: an LmToProjData object that has been used before ---------------------------------------------------------------
//! The public setters reset the "already set up" flag, i.e. the class supports being configured again; the second run of one
//! object (every option given again through the setters, set_up() called again) must give what a fresh object gives = the
//! event dictionary.  Histories: 0 time frame -> num_events_to_store; 1 num_events_to_store -> time frame; 2 input without
//! delayeds -> input with delayeds; 3 template with segment 0 only -> full template; 4 the same configuration twice.
Result
check_reuse(const json& c, const World& w, const std::vector<RunCfg>& cfgs, bool store_prompts, bool store_delayeds, const std::string& dir)
{
  int H = int(pmod(c["hist"].get<long>(), 5));
  if (const char* e = std::getenv("VERIF_C14_HIST")) // development aid: force one history
    H = int(pmod(std::atol(e), 5));
  long tmax = 0;
  for (const Rec& r : w.recs)
    if (r.kind == 0)
      tmax = long(r.ms);
  std::vector<std::pair<long, long>> F;
  {
    const auto fr = frames_from_case(c);
    // a frame starting at 0: with num_events_to_store > 0 "frame definitions will be ignored", but the start is still used to skip
    F.push_back(std::make_pair(0L, !fr.empty() ? std::max(20L, fr.front().second) : std::max(20L, tmax / 2 + 1)));
  }
  const long N = std::max(1L, c["cut"].get<long>());
  RunCfg ca = cfgs.front(), cb = cfgs.back();
  for (RunCfg* x : { &ca, &cb })
    {
      x->to_file = false;
      x->all_via_parser = false;
      x->tof_via_parser = false;
    }
  if (H == 0 && exclusion_on("E1"))
    { // finding C14-E1: do_time_frame is only ever switched on by set_up(); an object that has histogrammed a time frame ignores num_events_to_store
      excluded(SIG_E1);
      return Result::pass();
    }
  if (H == 3 && w.tmpl->get_max_segment_num() > 0 && exclusion_on("E2"))
    { // finding C14-E2: set_up() overwrites the "all segments" default (-1) of max_segment_num_to_process with the first template's maximum
      excluded(SIG_E2);
      return Result::pass();
    }
  LmToProjDataWithTOFBatches conv;
  shared_ptr<CListModeData> lm(new SyntheticCListModeData(w.recs, w.tmpl, w.has_delayeds));
  RunOpts oa, ob;
  oa.store_prompts = ob.store_prompts = store_prompts;
  oa.store_delayeds = ob.store_delayeds = store_delayeds;
  Selection sb;
  World wa = w;
  shared_ptr<CListModeData> lma = lm;
  std::string what;
  switch (H)
    {
    case 0:
      oa.frames = F;
      ob.frames = F;
      ob.cut = N;
      sb.cut = N;
      what = cat("first run: time frame [0,", F[0].second, ") ms; second run: num_events_to_store ", N);
      break;
    case 1:
      oa.cut = N;
      ob.frames = F;
      sb.use_time = true;
      sb.s_ms = F[0].first;
      sb.e_ms = F[0].second;
      what = cat("first run: num_events_to_store ", N, "; second run: time frame [0,", F[0].second, ") ms");
      break;
    case 2: {
      std::vector<Rec> prompts_only;
      for (const Rec& r : w.recs)
        if (r.kind != 2)
          prompts_only.push_back(r);
      lma.reset(new SyntheticCListModeData(prompts_only, w.tmpl, false));
      what = "first run: list-mode data without delayeds; second run: list-mode data with delayeds";
      break;
    }
    case 3:
      wa.tmpl = w.tmpl->create_shared_clone();
      wa.tmpl->reduce_segment_range(0, 0);
      wa.cyl = dynamic_cast<const ProjDataInfoCylindricalNoArcCorr*>(wa.tmpl.get());
      wa.index.pdi = wa.tmpl;
      vp::ExplicitP::enumerate_bins(*wa.tmpl, wa.index.bins);
      wa.bins = wa.index.bins;
      what = cat("first run: template with segment 0 only; second run: template with segments ", w.tmpl->get_min_segment_num(), "..", w.tmpl->get_max_segment_num());
      break;
    default:
      oa.frames = ob.frames = F;
      sb.use_time = true;
      sb.s_ms = F[0].first;
      sb.e_ms = F[0].second;
      what = "the same time frame twice";
      break;
    }
  (void)run_lm_to_projdata(wa, lma, oa, ca, dir, nullptr, &conv);
  const auto res = run_lm_to_projdata(w, lm, ob, cb, dir, nullptr, &conv);
  const Expect ex = expected(w, sb, store_prompts, store_delayeds);
  PROPAGATE(compare_hist(w, res[0], ex.hist, cat("second run of one LmToProjData object (", what, "; every option set again, set_up() called again)")));
  stats().cls(cat("object reuse: history ", H));
  stats().count("LmToProjData runs", 2);
  return Result::pass();
}

// ---- clause D: record decoders of the list-mode file formats named in the anchors ----------------------------
//! ECAT8 / PETLINK 32-bit words.  CListRecordECAT8_32bit.h: "the listmode data just stores an offset into a (3D) sinogram"
//! (no axial compression), "data is organised by segment, axial coordinate, view, tangential" (CListRecordECAT8_32bit.cxx),
//! segments in the order 0, -1, +1, ... (stir_ecat_common.h).  The harness encodes every event of the stream from the bin that the
//! uncompressed geometry assigns to its detector pair (C01's map), lets STIR decode the word and demands the same uncompressed
//! bin, the same template bin as for the original pair, the prompt/delayed flag and the time of time words.
//! Not decided here: the ORDER of the TOF bins in the offset (the header text says "0, -1, +1", the code of
//! find_timing_poss_sequence produces 0, +1, -1; no Siemens document is available here): the position of a TOF bin in the
//! sequence is taken from that (non-anchor) helper, everything else of the offset arithmetic is the harness's own.
Result
check_ecat8_records(const World& w)
{
  const Scanner& sc = *w.sc;
  shared_ptr<ProjDataInfo> unc(ProjDataInfo::construct_proj_data_info(w.sc, 1, sc.get_num_rings() - 1, sc.get_num_detectors_per_ring() / 2,
                                                                     sc.get_max_num_non_arccorrected_bins(), false, sc.is_tof_ready() ? 1 : 0)
                                   .release());
  const ProjDataInfoCylindricalNoArcCorr* ucyl = dynamic_cast<const ProjDataInfoCylindricalNoArcCorr*>(unc.get());
  if (!ucyl)
    return Result::pass();
  ecat::CListRecordECAT8_32bit rec_obj(unc);
  CListRecord& rec = rec_obj; // is_time() etc. are private in the derived class and public in CListRecord
  const int ntang = unc->get_num_tangential_poss(), nviews = unc->get_num_views(), nsino = unc->get_num_non_tof_sinograms();
  // sinogram offset of every segment in the documented order 0, -1, +1, -2, +2, ...
  std::map<int, long> seg_offset;
  {
    long z = 0;
    for (int a = 0; a <= unc->get_max_segment_num(); ++a)
      for (int sg : (a == 0 ? std::vector<int>{ 0 } : std::vector<int>{ -a, a }))
        {
          seg_offset[sg] = z;
          z += unc->get_num_axial_poss(sg);
        }
    VF_CHECK(z == nsino, "ECAT8: number of sinograms ", nsino, " vs sum over segments ", z);
  }
  const std::vector<int> tof_seq = ecat::find_timing_poss_sequence(*unc);
  long n_ev = 0, n_tm = 0;
  for (const Rec& r : w.recs)
    {
      unsigned char bytes[4];
      auto load = [&](std::uint32_t word) {
        for (int i = 0; i < 4; ++i)
          bytes[i] = static_cast<unsigned char>((word >> (8 * i)) & 0xffu);
        rec_obj.init_from_data_ptr(reinterpret_cast<const char*>(bytes), 4, ByteOrder::get_native_order() != ByteOrder::little_endian);
      };
      if (r.kind == 0)
        {
          if (r.ms >= (1UL << 29))
            continue; // 29 bits of time
          load(c14f::ecat8_time(std::uint32_t(r.ms)));
          VF_CHECK(rec.is_time() && !rec.is_event(), "ECAT8 time word for ", r.ms, " ms: is_time ", rec.is_time(), " is_event ", rec.is_event());
          VF_CHECK(rec.time().get_time_in_millisecs() == r.ms, "ECAT8 time word for ", r.ms, " ms decodes to ", rec.time().get_time_in_millisecs(), " ms");
          load(c14f::ecat8_other_tag(std::uint32_t(r.ms), 1 + unsigned(r.ms % 3)));
          VF_CHECK(!rec.is_time() && !rec.is_event(), "ECAT8 tag word that is not a time tick (deadtimeetc != 0): is_time ", rec.is_time(), " is_event ", rec.is_event());
          ++n_tm;
          continue;
        }
      if (n_ev >= 400)
        continue;
      const DetectionPositionPair<> dp(DetectionPosition<>(r.d1, r.r1, 0), DetectionPosition<>(r.d2, r.r2, 0), r.tof);
      Bin b;
      if (ucyl->get_bin_for_det_pos_pair(b, dp) != Succeeded::yes)
        continue; // TOF index outside the scanner's range: no uncompressed bin, nothing to encode
      if (w.index.pdi.get() == nullptr)
        continue;
      if (b.tangential_pos_num() < unc->get_min_tangential_pos_num() || b.tangential_pos_num() > unc->get_max_tangential_pos_num()
          || b.timing_pos_num() < unc->get_min_tof_pos_num() || b.timing_pos_num() > unc->get_max_tof_pos_num())
        continue; // pair outside the uncompressed sinogram (tangentially): cannot be stored in this format
      long tof_idx = -1;
      for (std::size_t i = 0; i < tof_seq.size(); ++i)
        if (tof_seq[i] == b.timing_pos_num())
          tof_idx = long(i);
      VF_CHECK(tof_idx >= 0, "ECAT8: TOF bin ", b.timing_pos_num(), " not in the sequence");
      const long z = seg_offset[b.segment_num()] + (b.axial_pos_num() - unc->get_min_axial_pos_num(b.segment_num()));
      const long offset = ((tof_idx * nsino + z) * nviews + (b.view_num() - unc->get_min_view_num())) * ntang + (b.tangential_pos_num() + ntang / 2);
      if (offset >= (1L << 30))
        continue;
      load(c14f::ecat8_event(std::uint32_t(offset), r.kind == 1));
      VF_CHECK(rec.is_event() && !rec.is_time(), "ECAT8 event word: is_event ", rec.is_event(), " is_time ", rec.is_time());
      VF_CHECK(rec.event().is_prompt() == (r.kind == 1), "ECAT8 event word with delayed bit ", r.kind == 1 ? 1 : 0, " ('0 if event is delayed'): is_prompt ",
               rec.event().is_prompt());
      const auto& dev = dynamic_cast<const CListEventCylindricalScannerWithDiscreteDetectors&>(rec.event());
      DetectionPositionPair<> dp2;
      dev.get_detection_position(dp2);
      Bin b2;
      VF_CHECK(ucyl->get_bin_for_det_pos_pair(b2, dp2) == Succeeded::yes && b2.segment_num() == b.segment_num() && b2.axial_pos_num() == b.axial_pos_num()
                   && b2.view_num() == b.view_num() && b2.tangential_pos_num() == b.tangential_pos_num() && b2.timing_pos_num() == b.timing_pos_num(),
               "ECAT8 offset ", offset, " encoded from uncompressed bin ", show_bin(b), " (detectors ", r.d1, "/", r.r1, " - ", r.d2, "/", r.r2, " tof ", r.tof,
               ") decodes to detectors ", dp2.pos1().tangential_coord(), "/", dp2.pos1().axial_coord(), " - ", dp2.pos2().tangential_coord(), "/",
               dp2.pos2().axial_coord(), " tof ", dp2.timing_pos(), " = uncompressed bin ", show_bin(b2));
      Bin bt;
      bt.set_bin_value(1.f);
      rec.event().get_bin(bt, *w.tmpl);
      const long got = bt.get_bin_value() > 0 ? w.index.bin_index(bt) : -1;
      const long want = bin_of(w, r);
      VF_CHECK(got == want, "ECAT8 event (offset ", offset, ", detectors ", r.d1, "/", r.r1, " - ", r.d2, "/", r.r2, " tof ", r.tof, "): get_bin gives template bin index ", got,
               got >= 0 ? show_bin(w.bins[std::size_t(got)]) : std::string(), ", the geometry assigns ", want, want >= 0 ? show_bin(w.bins[std::size_t(want)]) : std::string());
      ++n_ev;
    }
  stats().count("ECAT8 event words round-tripped", n_ev);
  stats().count("ECAT8 time words round-tripped", n_tm);
  if (n_ev)
    stats().cls("ECAT8 record decoder round trip");
  return Result::pass();
}

Result lm_to_projdata_route(const World& w,
                            const std::string& input_file,
                            const std::vector<std::pair<long, long>>& frames,
                            const std::vector<Expect>& ex,
                            bool store_prompts,
                            bool store_delayeds,
                            int nseg_mem,
                            const std::string& dir,
                            const std::string& label);

template <class RecordT>
Result
safir_records_roundtrip(CListModeData& lm, const World& w, const std::string& label)
{
  lm.reset();
  shared_ptr<CListRecord> rec_sptr = lm.get_empty_record_sptr();
  CListRecord& rec = *rec_sptr;
  std::size_t n = 0;
  while (lm.get_next_record(rec) == Succeeded::yes)
    {
      VF_CHECK(n < w.recs.size(), label, " file with ", w.recs.size(), " records: more records read");
      const Rec& r = w.recs[n];
      if (r.kind == 0)
        {
          VF_CHECK(rec.is_time() && !rec.is_event(), label, " record ", n, " (time ", r.ms, " ms): is_time ", rec.is_time(), " is_event ", rec.is_event());
          VF_CHECK(rec.time().get_time_in_millisecs() == r.ms, label, " time record ", n, ": ", rec.time().get_time_in_millisecs(), " ms, written ", r.ms);
        }
      else
        {
          VF_CHECK(rec.is_event() && !rec.is_time(), label, " record ", n, " (event): is_event ", rec.is_event(), " is_time ", rec.is_time());
          VF_CHECK(rec.event().is_prompt() == (r.kind == 1), label, " event record ", n, " written with isDelayed = ", r.kind == 2, ": is_prompt() = ", rec.event().is_prompt());
          RecordT* typed = dynamic_cast<RecordT*>(&rec);
          VF_CHECK(typed != nullptr, label, ": record object is not of the expected record class");
          DetectionPositionPair<> dp;
          typed->get_data().get_detection_position_pair(dp);
          VF_CHECK(int(dp.pos1().tangential_coord()) == r.d1 && int(dp.pos1().axial_coord()) == r.r1 && int(dp.pos2().tangential_coord()) == r.d2
                       && int(dp.pos2().axial_coord()) == r.r2 && dp.pos1().radial_coord() == 0 && dp.pos2().radial_coord() == 0,
                   label, " event record ", n, " written for detectors ", r.d1, "/", r.r1, " - ", r.d2, "/", r.r2, " decodes to ", dp.pos1().tangential_coord(), "/",
                   dp.pos1().axial_coord(), "/", dp.pos1().radial_coord(), " - ", dp.pos2().tangential_coord(), "/", dp.pos2().axial_coord(), "/", dp.pos2().radial_coord());
          const LORAs2Points<float> lor = rec.event().get_LOR();
          // (the scanner of the list-mode data itself: read from a template file it equals the World's only to header precision)
          const Scanner& lsc = *lm.get_proj_data_info_sptr()->get_scanner_ptr();
          const CartesianCoordinate3D<float> c1 = lsc.get_coordinate_for_det_pos(DetectionPosition<>(r.d1, r.r1, 0)),
                                             c2 = lsc.get_coordinate_for_det_pos(DetectionPosition<>(r.d2, r.r2, 0));
          VF_CHECK(norm(lor.p1() - c1) == 0 && norm(lor.p2() - c2) == 0, label, " event record ", n, ": get_LOR() is not the pair of crystal coordinates of detectors ", r.d1,
                   "/", r.r1, " - ", r.d2, "/", r.r2);
          Bin bt;
          bt.set_bin_value(1.f);
          rec.event().get_bin(bt, *w.tmpl);
          const long got = bt.get_bin_value() > 0 ? w.index.bin_index(bt) : -1;
          const long want = bin_of(w, r);
          VF_CHECK(got == want, label, " event record ", n, " (detectors ", r.d1, "/", r.r1, " - ", r.d2, "/", r.r2, "): get_bin gives template bin index ", got,
                   ", the geometry assigns ", want);
        }
      ++n;
    }
  VF_CHECK(n == w.recs.size(), label, " file with ", w.recs.size(), " records: ", n, " records read");
  stats().count("SAFIR records round-tripped", long(n));
  lm.reset();
  return Result::pass();
}

//! SAFIR 64-bit records read from a file through CListModeDataSAFIR (public constructor taking the file and the projection
//! data info; without a crystal map "the scanner detectors will be used", SAFIRCListmodeInputFileFormat.h, which needs a
//! scanner that HAS a detector map: blocks-on-cylindrical geometry).  Round trip of every record (detector pair, rings,
//! layers, prompt/delayed flag, time), get_LOR() = coordinates of the two crystals, get_bin() = the geometry's bin, and
//! LmToProjData on that file (prompts only: the class reports has_delayeds() == false) against the event dictionary.
Result
check_safir(const json& c, const std::string& dir)
{
  const json& S = c["safir"];
  World w;
  try
    {
      w.sc = vg::make_scanner(S["scanner"]);
      if (w.sc->check_consistency() != Succeeded::yes)
        return Result::pass();
      w.tmpl = vg::make_pdi(w.sc, S["pdi"]);
      w.gen = dynamic_cast<const ProjDataInfoGenericNoArcCorr*>(w.tmpl.get());
      if (!w.gen || !w.sc->get_detector_map_sptr())
        return Result::pass();
    }
  catch (const stir_verif::AssertionFailure&)
    {
      throw;
    }
  catch (const std::exception& e)
    {
      stats().count("SAFIR sub-check: geometry rejected");
      return Result::pass();
    }
  w.has_delayeds = true; // the records carry the flag
  {
    json cc = c;
    cc["has_delayeds"] = true;
    w.recs = decode_stream(cc, *w.sc);
  }
  w.index.pdi = w.tmpl;
  vp::ExplicitP::enumerate_bins(*w.tmpl, w.index.bins);
  w.bins = w.index.bins;

  std::vector<std::uint64_t> words;
  for (const Rec& r : w.recs)
    words.push_back(r.kind == 0 ? c14f::safir_time(r.ms) : c14f::safir_event(unsigned(r.r1), unsigned(r.r2), unsigned(r.d1), unsigned(r.d2), 0, 0, r.kind == 2));
  const std::string file = cat(dir, "/lm.clm.safir");
  c14f::write_safir_file(file, words);
  typedef CListRecordSAFIR<CListEventDataSAFIR> RecordT;
  typedef CListRecordSAFIR<CListEventDataNeuroLF> RecordNLF; // same layout with 3-bit layer fields: identical words for layer 0
  shared_ptr<CListModeData> lm(new CListModeDataSAFIR<RecordT>(file, w.tmpl));

  // ---- record by record
  PROPAGATE(safir_records_roundtrip<RecordT>(*lm, w, "SAFIR"));
  {
    CListModeDataSAFIR<RecordNLF> lm_nlf(file, w.tmpl);
    PROPAGATE(safir_records_roundtrip<RecordNLF>(lm_nlf, w, "NeuroLF"));
  }
  // ---- the same file opened the way a user does: a parameter file (SAFIRCListmodeInputFileFormat.h) naming the data file and a
  //      template projection data file, through read_from_file<ListModeData> (file-format registry).  Needs the template as an
  //      Interfile file, which the generic geometry can write only for span 1 (see below).
  std::string safir_par;
  if (S["pdi"]["span"].get<int>() == 1)
    {
      const std::string tmpl_name = cat(dir, "/safir_template");
      {
        shared_ptr<ExamInfo> exam(new ExamInfo(ImagingModality::PT));
        ProjDataInterfile tmpl_file(exam, w.tmpl, tmpl_name, std::ios::out);
      }
      shared_ptr<ProjDataInfo> tmpl_read = ProjData::read_from_file(tmpl_name + ".hs")->get_proj_data_info_sptr()->create_shared_clone();
      if (*tmpl_read == *w.tmpl)
        {
          safir_par = cat(dir, "/safir_lm.par");
          c14f::write_text(safir_par, cat("CListModeDataSAFIR Parameters:=\n  listmode data filename:= ", file, "\n  template projection data filename:= ", tmpl_name,
                                          ".hs\nEND CListModeDataSAFIR Parameters:=\n"));
          shared_ptr<ListModeData> lm_reg(stir::read_from_file<ListModeData>(safir_par));
          CListModeData* clm = dynamic_cast<CListModeData*>(lm_reg.get());
          VF_CHECK(clm != nullptr, "SAFIR parameter file: read_from_file<ListModeData> did not return coincidence list-mode data");
          VF_CHECK(*clm->get_proj_data_info_sptr() == *w.tmpl, "SAFIR parameter file: projection data info of the list-mode data differs from the template file");
          PROPAGATE(safir_records_roundtrip<RecordT>(*clm, w, "SAFIR (parameter file through the registry)"));
          stats().cls("SAFIR file opened through its parameter file (registry)");
        }
      else
        stats().count("SAFIR parameter-file route skipped: template not preserved by the Interfile file");
    }

  // ---- LmToProjData on the SAFIR file, prompts only, frames of the Case (or the whole stream)
  std::vector<std::pair<long, long>> frames = frames_from_case(c);
  if (frames.size() > 3)
    frames.resize(3);
  std::vector<Expect> ex;
  if (frames.empty())
    ex.push_back(expected(w, Selection(), true, false));
  for (auto& fr : frames)
    {
      Selection sel;
      sel.use_time = true;
      sel.s_ms = fr.first;
      sel.e_ms = fr.second;
      ex.push_back(expected(w, sel, true, false));
    }
  {
    long acc = 0;
    for (auto& e : ex)
      acc += e.n_accepted;
    stats().count("SAFIR file: events accepted by the template in the frames", acc);
  }
  for (int pass = 0; pass < 2; ++pass)
    {
      RunCfg cfg;
      // file output only for span 1: the Interfile header writer needs get_LOR() of the bins, which the generic geometry refuses for
      // axially compressed data (error(): "get_ring_pair_for_segment_axial_pos_num does not work for data with axial compression")
      cfg.to_file = pass == 1 && S["pdi"]["span"].get<int>() == 1;
      cfg.nseg = pass == 0 ? -1 : 1 + int(S.value("nseg", 0L) % std::max(1, w.tmpl->get_num_segments()));
      cfg.all_via_parser = pass == 1;
      RunOpts o;
      o.frames = frames;
      o.store_prompts = true;
      o.store_delayeds = false;
      const auto res = run_lm_to_projdata(w, lm, o, cfg, dir);
      const std::string ctx = cat("SAFIR list-mode file, prompts only, num_segments_in_memory ", cfg.nseg, ", ", cfg.to_file ? "file" : "in-memory", " output");
      if (cfg.to_file)
        {
          VF_CHECK(res.size() == ex.size(), ctx, ": ", res.size(), " outputs for ", ex.size(), " frames");
          for (std::size_t f = 0; f < ex.size(); ++f)
            PROPAGATE(compare_hist(w, res[f], ex[f].hist, cat(ctx, ", frame ", f + 1, " of ", ex.size())));
        }
      else
        PROPAGATE(compare_hist(w, res[0], ex.back().hist, cat(ctx, ", last frame (", ex.size(), ")")));
      stats().count("LmToProjData runs");
    }
  if (!safir_par.empty())
    PROPAGATE(lm_to_projdata_route(w, safir_par, frames, ex, true, false, 1 + int(S.value("nseg", 0L) % std::max(1, w.tmpl->get_num_segments())), dir,
                                   "SAFIR parameter file as input file"));
  stats().cls("SAFIR file: records round trip + LmToProjData");
  return Result::pass();
}

//! The route of the lm_to_projdata utility: a parameter FILE (keywords as in the repository's recon_test_pack/lm_to_projdata.par)
//! naming the list-mode input file, the template projection data file, the frame definition file and the output prefix, given to
//! LmToProjData(par_filename); process_data() then writes one Interfile file per frame.
Result
lm_to_projdata_route(const World& w,
                     const std::string& input_file,
                     const std::vector<std::pair<long, long>>& frames,
                     const std::vector<Expect>& ex,
                     bool store_prompts,
                     bool store_delayeds,
                     int nseg_mem,
                     const std::string& dir,
                     const std::string& label)
{
  static long counter = 0;
  const std::string tag = cat("route", counter++);
  const std::string tmpl_name = cat(dir, "/", tag, "_template");
  shared_ptr<ProjDataInfo> tmpl_read;
  {
    shared_ptr<ExamInfo> exam(new ExamInfo(ImagingModality::PT));
    ProjDataInterfile tmpl_file(exam, w.tmpl, tmpl_name, std::ios::out);
  }
  tmpl_read = ProjData::read_from_file(tmpl_name + ".hs")->get_proj_data_info_sptr()->create_shared_clone();
  if (*tmpl_read != *w.tmpl)
    { // what a projection-data file preserves is C02's subject; this route needs the template as a file
      stats().count("lm_to_projdata route skipped: template not preserved by the Interfile file");
      return Result::pass();
    }
  // frames: a .fdef file written from the frames in ms
  std::string frame_file;
  if (!frames.empty())
    {
      frame_file = cat(dir, "/", tag, "_frames.fdef");
      std::string t;
      long prev = 0;
      for (auto& fr : frames)
        {
          if (fr.first != prev)
            t += cat("0 ", c14f::ms_text(fr.first - prev, 0), "\n");
          t += cat("1 ", c14f::ms_text(fr.second - fr.first, 1), "\n");
          prev = fr.second;
        }
      c14f::write_text(frame_file, t);
      // ms-resolution durations: the sums are exact only for multiples of 1/8 s; otherwise a time mark on a boundary that is a
      // rounded sum of decimal fractions is undecidable (the first frame end of a file starting at 0 is a single number: exact)
      bool exact = true;
      for (auto& fr : frames)
        exact = exact && fr.first % 125 == 0 && fr.second % 125 == 0;
      if (!exact)
        for (const Rec& r : w.recs)
          if (r.kind == 0)
            for (std::size_t f = 0; f < frames.size(); ++f)
              {
                // exact: the start of the first frame (0 or one written number) and its end if it starts at 0 (one written number)
                const bool start_exact = f == 0, end_exact = f == 0 && frames[0].first == 0;
                if ((long(r.ms) == frames[f].first && !start_exact) || (long(r.ms) == frames[f].second && !end_exact))
                  frame_file.clear();
              }
      if (frame_file.empty())
        {
          stats().count("lm_to_projdata route skipped: time mark on an inexact boundary");
          return Result::pass();
        }
    }
  const std::string prefix = cat(dir, "/", tag, "_out");
  const std::string par_name = cat(dir, "/", tag, "_lm_to_projdata.par");
  c14f::write_text(par_name, cat("lm_to_projdata Parameters:=\n  input file := ", input_file, "\n  output filename prefix := ", prefix, "\n  template_projdata := ", tmpl_name,
                                 ".hs\n  maximum absolute segment number to process := -1\n  ; store the prompts (value should be 1 or 0)\n  store prompts := ",
                                 store_prompts ? 1 : 0, "\n  store delayeds := ", store_delayeds ? 1 : 0, "\n",
                                 frame_file.empty() ? std::string() : cat("  frame definition file := ", frame_file, "\n"), "  List event coordinates := 0\n  num_segments_in_memory := ",
                                 nseg_mem, "\nEnd :=\n"));
  {
    struct CoutSilencer
    {
      std::ostringstream sink;
      std::streambuf* old;
      CoutSilencer() : old(std::cout.rdbuf(sink.rdbuf())) {}
      ~CoutSilencer() { std::cout.rdbuf(old); }
    } silence;
    LmToProjData conv(par_name.c_str());
    conv.process_data();
  }
  for (std::size_t f = 1; f <= ex.size(); ++f)
    {
      shared_ptr<ProjData> pd = ProjData::read_from_file(cat(prefix, "_f", f, "g1d0b0.hs"));
      VF_CHECK(*pd->get_proj_data_info_sptr() == *w.tmpl, "lm_to_projdata route: output file ", f, " has a different projection data info than the template file");
      PROPAGATE(compare_hist(w, hist_of(w, *pd), ex[f - 1].hist,
                             cat("lm_to_projdata route (parameter file, ", label, ", template file, ", frame_file.empty() ? "no frame file" : "frame definition file",
                                 ", num_segments_in_memory ", nseg_mem, "), frame ", f, " of ", ex.size())));
    }
  VF_CHECK(!std::filesystem::exists(cat(prefix, "_f", ex.size() + 1, "g1d0b0.hs")), "lm_to_projdata route: more output files than frames");
  stats().count("LmToProjData runs");
  stats().cls("lm_to_projdata route: everything through files (parameter file, list-mode file, template, frames)");
  return Result::pass();
}

//! ECAT8 list-mode FILE (Siemens Interfile header + 32-bit words) for a predefined scanner, read through
//! CListModeDataECAT8_32bit, and the complete route of the lm_to_projdata utility: a parameter FILE with "input file",
//! "template_projdata", "frame_definition file", "output filename prefix", ... given to LmToProjData(par_filename).
//! The header describes the uncompressed sinogram the offsets refer to (axial compression 1, views / projections of the scanner;
//! the maximum ring difference may be smaller than rings-1, as in the mMR header of the repository's examples; such events
//! cannot be written).  The harness computes the offset of every event from the bin the header's geometry assigns to the pair.
Result
check_ecat8_file(const json& c, const std::string& dir)
{
  const json& E = c["e8"];
  World w;
  shared_ptr<ProjDataInfo> hdr_pdi;
  int hdr_md = 0;
  try
    {
      w.sc.reset(Scanner::get_scanner_from_name(E["scanner"].get<std::string>()));
      if (w.sc->get_type() == Scanner::Unknown_scanner || w.sc->get_scanner_geometry() != "Cylindrical")
        return Result::pass();
      w.tmpl = vg::make_pdi(w.sc, E["pdi"]);
      w.cyl = dynamic_cast<const ProjDataInfoCylindricalNoArcCorr*>(w.tmpl.get());
      if (!w.cyl)
        return Result::pass();
      hdr_md = std::max(0, w.sc->get_num_rings() - 1 - int(E.value("md_less", 0L)));
      hdr_pdi.reset(ProjDataInfo::construct_proj_data_info(w.sc, 1, hdr_md, w.sc->get_num_detectors_per_ring() / 2, w.sc->get_max_num_non_arccorrected_bins(), false, 0).release());
    }
  catch (const stir_verif::AssertionFailure&)
    {
      throw;
    }
  catch (const std::exception&)
    {
      stats().count("ECAT8 file sub-check: geometry rejected");
      return Result::pass();
    }
  const ProjDataInfoCylindricalNoArcCorr* hcyl = dynamic_cast<const ProjDataInfoCylindricalNoArcCorr*>(hdr_pdi.get());
  w.has_delayeds = true;
  {
    json cc = c;
    cc["has_delayeds"] = true;
    w.recs = decode_stream(cc, *w.sc, w.tmpl->get_max_tangential_pos_num() + 3);
  }
  // ---- encode; events that the format cannot hold are dropped from the stream
  const int ntang = hdr_pdi->get_num_tangential_poss(), nviews = hdr_pdi->get_num_views();
  std::map<int, long> seg_offset;
  {
    long z = 0;
    for (int a = 0; a <= hdr_pdi->get_max_segment_num(); ++a)
      for (int sg : (a == 0 ? std::vector<int>{ 0 } : std::vector<int>{ -a, a }))
        {
          seg_offset[sg] = z;
          z += hdr_pdi->get_num_axial_poss(sg);
        }
  }
  std::vector<std::uint32_t> words;
  std::vector<Rec> kept;
  for (const Rec& r : w.recs)
    {
      if (r.kind == 0)
        {
          if (r.ms >= (1UL << 29))
            break;
          words.push_back(c14f::ecat8_time(std::uint32_t(r.ms)));
          kept.push_back(r);
          if (r.ms % 5 == 0) // a tag word that is neither a time tick nor an event: must be ignored by every reader
            words.push_back(c14f::ecat8_other_tag(std::uint32_t(r.ms), 1 + unsigned(r.ms % 3)));
          continue;
        }
      Bin b;
      const DetectionPositionPair<> dp(DetectionPosition<>(r.d1, r.r1, 0), DetectionPosition<>(r.d2, r.r2, 0), 0);
      if (hcyl->get_bin_for_det_pos_pair(b, dp) != Succeeded::yes || b.tangential_pos_num() < hdr_pdi->get_min_tangential_pos_num()
          || b.tangential_pos_num() > hdr_pdi->get_max_tangential_pos_num() || b.segment_num() < hdr_pdi->get_min_segment_num()
          || b.segment_num() > hdr_pdi->get_max_segment_num())
        continue;
      const long z = seg_offset[b.segment_num()] + b.axial_pos_num();
      const long offset = (z * nviews + b.view_num()) * ntang + (b.tangential_pos_num() + ntang / 2);
      if (offset >= (1L << 30))
        continue;
      words.push_back(c14f::ecat8_event(std::uint32_t(offset), r.kind == 1));
      kept.push_back(r);
    }
  w.recs = kept;
  w.index.pdi = w.tmpl;
  vp::ExplicitP::enumerate_bins(*w.tmpl, w.index.bins);
  w.bins = w.index.bins;

  const std::string data_name = "lm_ecat8.l", hdr_name = cat(dir, "/lm_ecat8.l.hdr");
  c14f::write_words32(cat(dir, "/", data_name), words);
  {
    std::string seg_table = "{";
    const int nseg_hdr = 2 * hdr_md + 1;
    for (int a = 0; a <= hdr_md; ++a)
      for (int sg : (a == 0 ? std::vector<int>{ 0 } : std::vector<int>{ -a, a }))
        seg_table += cat(sg == 0 ? "" : ",", hdr_pdi->get_num_axial_poss(sg));
    seg_table += "}";
    // keys as in the Siemens header of the repository's recon_test_pack (PET_ACQ_small.l.hdr.STIR)
    const std::string h = cat("!INTERFILE:=\n!originating system:=", E["scanner"].get<std::string>(),
                              "\n%SMS-MI header name space:=PETLINK bin address\n%SMS-MI version number:=3.4\n\n!GENERAL DATA:=\n!data offset in bytes:=0\nname of data file := ",
                              data_name,
                              "\n!GENERAL IMAGE DATA:=\n!type of data:=PET\n%patient orientation:=HFS\nPET data type:=Emission\ndata format:=CoincidenceList\n"
                              "!PET STUDY (Emission data):=\nPET scanner type:=cylindrical\nnumber of rings:=",
                              w.sc->get_num_rings(), "\n%number of TOF time bins:=1\n%TOF mashing factor:=1\n\n!IMAGE DATA DESCRIPTION:=\nimage duration (sec):=900\n"
                                                     "%COINCIDENCE LIST DATA:=\n%LM event and tag words format (bits):=32\n%axial compression:=1\n%maximum ring difference:=",
                              hdr_md, "\n%number of projections:=", ntang, "\n%number of views:=", nviews, "\n%number of segments:=", nseg_hdr, "\n%segment table:=", seg_table, "\n");
    c14f::write_text(hdr_name, h);
  }
  shared_ptr<ecat::CListModeDataECAT8_32bit> lm;
  try
    {
      lm.reset(new ecat::CListModeDataECAT8_32bit(hdr_name));
    }
  catch (const stir_verif::AssertionFailure&)
    {
      throw;
    }
  catch (const std::exception& e)
    {
      return Result::fail(cat("ECAT8 list-mode header written by the harness (keys of the repository's sample header) is not read: ", e.what()));
    }
  VF_CHECK(lm->get_scanner() == *w.sc, "ECAT8 file: scanner of the list-mode data is not '", E["scanner"].get<std::string>(), "'");

  // ---- record by record
  {
    shared_ptr<CListRecord> rec_sptr = lm->get_empty_record_sptr();
    CListRecord& rec = *rec_sptr;
    std::size_t n = 0;
    long others = 0;
    while (lm->get_next_record(rec) == Succeeded::yes)
      {
        if (!rec.is_time() && !rec.is_event())
          {
            ++others;
            continue;
          }
        VF_CHECK(n < w.recs.size(), "ECAT8 file with ", w.recs.size(), " time/event words: more read");
        const Rec& r = w.recs[n];
        if (r.kind == 0)
          VF_CHECK(rec.is_time() && !rec.is_event() && rec.time().get_time_in_millisecs() == r.ms, "ECAT8 file word ", n, " written as time ", r.ms, " ms: is_time ",
                   rec.is_time(), " time ", rec.is_time() ? rec.time().get_time_in_millisecs() : 0UL);
        else
          {
            VF_CHECK(rec.is_event() && !rec.is_time() && rec.event().is_prompt() == (r.kind == 1), "ECAT8 file word ", n, " written as ", r.kind == 1 ? "prompt" : "delayed",
                     ": is_event ", rec.is_event(), " is_prompt ", rec.is_event() ? rec.event().is_prompt() : false);
            Bin bt;
            bt.set_bin_value(1.f);
            rec.event().get_bin(bt, *w.tmpl);
            const long got = bt.get_bin_value() > 0 ? w.index.bin_index(bt) : -1;
            const long want = bin_of(w, r);
            VF_CHECK(got == want, "ECAT8 file word ", n, " (detectors ", r.d1, "/", r.r1, " - ", r.d2, "/", r.r2, "): get_bin gives template bin index ", got,
                     got >= 0 ? show_bin(w.bins[std::size_t(got)]) : std::string(), ", the geometry assigns ", want, want >= 0 ? show_bin(w.bins[std::size_t(want)]) : std::string());
          }
        ++n;
      }
    VF_CHECK(n == w.recs.size(), "ECAT8 file with ", w.recs.size(), " time/event words: ", n, " read");
    stats().count("ECAT8 file words round-tripped", long(n));
    stats().count("ECAT8 file other tag words skipped", others);
  }

  // ---- histogramming the file
  const bool store_prompts = c["store_prompts"].get<bool>(), store_delayeds = c["store_delayeds"].get<bool>() || !store_prompts;
  std::vector<std::pair<long, long>> frames = frames_from_case(c);
  if (frames.size() > 3)
    frames.resize(3);
  std::vector<Expect> ex;
  if (frames.empty())
    ex.push_back(expected(w, Selection(), store_prompts, store_delayeds));
  for (auto& fr : frames)
    {
      Selection sel;
      sel.use_time = true;
      sel.s_ms = fr.first;
      sel.e_ms = fr.second;
      ex.push_back(expected(w, sel, store_prompts, store_delayeds));
    }
  const int nseg_mem = 1 + int(E.value("nseg", 0L) % std::max(1, w.tmpl->get_num_segments()));
  {
    long acc = 0;
    for (auto& e : ex)
      acc += e.n_accepted;
    stats().count("ECAT8 file: events accepted by the template in the frames", acc);
  }
  {
    RunCfg cfg;
    cfg.nseg = nseg_mem;
    RunOpts o;
    o.frames = frames;
    o.store_prompts = store_prompts;
    o.store_delayeds = store_delayeds;
    const auto res = run_lm_to_projdata(w, lm, o, cfg, dir);
    PROPAGATE(compare_hist(w, res[0], ex.back().hist,
                           cat("ECAT8 list-mode file (", E["scanner"].get<std::string>(), "), num_segments_in_memory ", cfg.nseg, ", in-memory output, last frame (", ex.size(), ")")));
    stats().count("LmToProjData runs");
  }

  // ---- the route of the lm_to_projdata utility: everything in files, LmToProjData(par_filename)
  PROPAGATE(lm_to_projdata_route(w, hdr_name, frames, ex, store_prompts, store_delayeds, nseg_mem, dir, cat("ECAT8 input file (", E["scanner"].get<std::string>(), ")")));
  stats().cls("ECAT8 file: words round trip + LmToProjData");
  return Result::pass();
}

// ---- the property -------------------------------------------------------------------------------------
Result
check(const json& c)
{
  vg::quiet();
  CaseDir dir;
  World w;
  try
    {
      w = make_world(c);
      // the event class builds an uncompressed ProjDataInfo (span 1, TOF mashing 1) for the scanner in its constructor;
      // scanners for which that is impossible (even number of TOF positions) cannot be list-mode sources of this type
      SynthRecord probe(w.tmpl);
    }
  catch (const stir_verif::AssertionFailure&)
    {
      throw;
    }
  catch (const std::exception& e)
    {
      return Result::reject(std::string("construction rejected: ") + std::string(e.what()).substr(0, 70));
    }
  const int mode = c["mode"].get<int>();
  const bool store_prompts = c["store_prompts"].get<bool>(), store_delayeds = c["store_delayeds"].get<bool>() || !store_prompts;
  bool ax_from_zero = true;
  for (int sg = w.tmpl->get_min_segment_num(); sg <= w.tmpl->get_max_segment_num(); ++sg)
    ax_from_zero = ax_from_zero && w.tmpl->get_min_axial_pos_num(sg) == 0;
  const std::vector<RunCfg> cfgs = run_cfgs(c, w.tmpl->is_tof_data() && w.tmpl->get_num_tof_poss() == 1, !ax_from_zero);
  const std::vector<std::pair<long, long>> frames = frames_from_case(c);
  // the source handed to LmToProjData reports either the uncompressed geometry or the template: only its scanner matters
  shared_ptr<ProjDataInfo> lm_pdi = w.tmpl;
  if (c.value("lm_uncompressed", false))
    lm_pdi.reset(ProjDataInfo::construct_proj_data_info(w.sc, 1, w.sc->get_num_rings() - 1, w.sc->get_num_detectors_per_ring() / 2,
                                                        w.sc->get_max_num_non_arccorrected_bins(), false, w.sc->is_tof_ready() ? 1 : 0)
                     .release());
  // audit H: a fifth of the cases read the stream from a source whose event records carry their own time (see combined_stream)
  std::vector<Rec> source_recs = w.recs;
  if (c.value("combined", false))
    {
      std::vector<long> bnd;
      if (mode == 0 || mode == 3)
        for (auto& fr : frames)
          {
            bnd.push_back(fr.first);
            bnd.push_back(fr.second);
          }
      long n_merged = 0, n_on_boundary = 0;
      source_recs = combined_stream(w.recs, bnd, n_merged, n_on_boundary);
      stats().cls("source with combined time+event records");
      if (n_merged)
        stats().cls("source with combined records: some time mark is carried by the following event");
      if (n_on_boundary)
        stats().cls("source with combined records: the first record at or beyond a frame boundary is a combined one (finding H1 lifted)");
    }
  shared_ptr<SyntheticCListModeData> lm(new SyntheticCListModeData(source_recs, lm_pdi, w.has_delayeds));

  long n_events = 0, n_marks = 0, n_delayeds = 0;
  for (const Rec& r : w.recs)
    (r.kind == 0 ? n_marks : n_events)++, n_delayeds += (r.kind == 2);
  stats().count("records", long(w.recs.size()));
  stats().count("events", n_events);
  stats().count("time marks", n_marks);
  stats().cls(mode == 0 ? "mode: time frames" : mode == 1 ? "mode: num_events_to_store" : mode == 3 ? "mode: time frames from a file" : "mode: whole stream");
  stats().cls(w.tmpl->get_num_tof_poss() > 1 ? "template: TOF" : "template: non-TOF");
  if (n_delayeds > 0)
    stats().cls("stream with delayeds");
  stats().cls(store_prompts ? (store_delayeds ? "prompts - delayeds" : "prompts only") : "delayeds only");
  if (!w.recs.empty() && w.recs[0].kind != 0)
    stats().cls("events before the first time mark");
  {
    long prev = -1;
    bool equal_marks = false, mark_at_zero = false;
    for (const Rec& r : w.recs)
      if (r.kind == 0)
        {
          equal_marks = equal_marks || long(r.ms) == prev;
          mark_at_zero = mark_at_zero || r.ms == 0;
          prev = long(r.ms);
        }
    if (equal_marks)
      stats().cls("two time marks with the same time");
    if (mark_at_zero)
      stats().cls("time mark at time 0");
  }
  int max_batches = 1;
  for (const RunCfg& r : cfgs)
    max_batches = std::max(max_batches, num_batches(w, r));
  if (max_batches >= 2)
    stats().cls("a run with >= 2 batches");

  Selection lik_sel;

  // ---- clause A: the frame-definition file of the Case is read back (every mode; mode 3 histograms with it) ----
  std::string frame_file;
  if (c.contains("fdef"))
    PROPAGATE(check_frame_file(c, dir.path, frame_file));

  if (mode == 3)
    {
      // ---- frames from a file: .fdef text or Interfile header, given by the keyword "frame_definition file" (as lm_to_projdata
      //      is normally configured) or read by the caller with TimeFrameDefinitions(filename) and given to the setter.
      //      One process_data() call for all frames, as a user does it:
      //        file output: <prefix>_f<k>g1d0b0.hs must be the histogram of frame k;
      //        in-memory output object: set_output_projdata_sptr documents "will only store data from the last defined time frame".
      VF_CHECK(!frame_file.empty(), "mode 3 needs the Case key 'fdef'");
      const json P = c.value("p", json::object());
      int max_seg = int(P.value("max_seg", -1L));
      long cut = P.value("cut", 0L);
      if (cut > 0 && exclusion_on("F6"))
        { // finding C14-F6: with the keyword "frame_definition file" a positive num_events_to_store is ignored
          cut = 0;
          excluded(SIG_F6);
        }
      long boundary_marks = 0;
      for (const Rec& r : w.recs)
        if (r.kind == 0)
          for (auto& fr : frames)
            if (long(r.ms) == fr.first || long(r.ms) == fr.second)
              ++boundary_marks;
      if (boundary_marks)
        stats().cls("time mark exactly on a frame boundary");
      if (max_seg >= 0)
        stats().cls("keyword 'maximum absolute segment number to process'");
      std::vector<Expect> ex;
      long oor = 0, neg = 0, gaps = 0;
      for (std::size_t f = 0; f < frames.size(); ++f)
        {
          Selection sel;
          sel.use_time = true;
          sel.s_ms = frames[f].first;
          sel.e_ms = frames[f].second;
          if (f > 0 && frames[f].first != frames[f - 1].second)
            ++gaps;
          ex.push_back(expected(w, sel, store_prompts, store_delayeds));
          if (max_seg >= 0) // reduce_segment_range(-m, m) of the template: nothing is stored in the other segments
            for (std::size_t i = 0; i < w.bins.size(); ++i)
              if (std::abs(w.bins[i].segment_num()) > max_seg)
                ex.back().hist[i] = 0.;
          oor += ex.back().n_out_of_range;
          neg += ex.back().n_negative_bins;
        }
      if (gaps)
        stats().cls("frames from a file with gaps between them");
      if (frames.size() > 1)
        stats().cls("frames from a file: more than one frame");
      Expect ex_cut; // documented for num_events_to_store > 0: "frame definitions will be ignored"
      if (cut > 0)
        {
          Selection sel;
          sel.cut = cut;
          ex_cut = expected(w, sel, store_prompts, store_delayeds);
          if (max_seg >= 0)
            max_seg = -1; // keep the probe of the finding simple
        }
      for (std::size_t k = 0; k < cfgs.size(); ++k)
        {
          RunOpts o;
          o.frame_file = frame_file;
          o.num_frames_in_file = cut > 0 ? 1 : frames.size();
          o.cut = cut;
          o.store_prompts = store_prompts;
          o.store_delayeds = store_delayeds;
          o.max_seg = max_seg;
          RunCfg cfg = cfgs[k];
          if (cut > 0)
            {
              cfg.frame_file_route = 0;
              cfg.all_via_parser = true;
              cfg.to_file = false;
            }
          bool dtf = false;
          const auto res = run_lm_to_projdata(w, lm, o, cfg, dir.path, &dtf);
          const std::string ctx
              = cat("frames from ", fdef_of_case(c).kind == 0 ? ".fdef file" : "Interfile header", cfg.frame_file_route == 0 ? " (keyword 'frame_definition file')" : " (TimeFrameDefinitions(file) + setter)",
                    cfg.all_via_parser ? ", all options parsed" : "", max_seg >= 0 ? cat(", max segment ", max_seg) : std::string(), ", num_segments_in_memory ", cfg.nseg,
                    ", num_TOF_bins_in_memory ", cfg.ntof, " (", num_batches(w, cfg), " batches), ", cfg.to_file ? "file" : "in-memory", " output");
          if (cut > 0)
            {
              VF_CHECK(res.size() == 1, ctx, ": ", res.size(), " outputs");
              PROPAGATE(compare_hist(w, res[0], ex_cut.hist, cat("num_events_to_store ", cut, " together with a frame definition file (documented: frame definitions are ignored), ", ctx)));
              continue;
            }
          VF_CHECK(dtf, "frame definition file given and num_events_to_store == 0, but do_time_frame is false");
          if (cfg.to_file)
            {
              VF_CHECK(res.size() == frames.size(), ctx, ": ", res.size(), " files for ", frames.size(), " frames");
              for (std::size_t f = 0; f < frames.size(); ++f)
                PROPAGATE(compare_hist(w, res[f], ex[f].hist, cat("frame ", f + 1, " of ", frames.size(), " [", frames[f].first, ",", frames[f].second, ") ms, ", ctx)));
              stats().cls("frames from a file: multi-frame run with file output");
            }
          else
            {
              VF_CHECK(res.size() == 1, ctx, ": ", res.size(), " outputs");
              const std::size_t f = frames.size() - 1;
              PROPAGATE(compare_hist(w, res[0], ex[f].hist,
                                     cat("last frame (", f + 1, " of ", frames.size(), ") [", frames[f].first, ",", frames[f].second, ") ms in the output object, ", ctx)));
              stats().cls("frames from a file: run with in-memory output (last frame)");
            }
          stats().cls(cfg.frame_file_route == 0 ? "frames from a file: keyword 'frame_definition file'" : "frames from a file: TimeFrameDefinitions(file) + setter");
          stats().count("LmToProjData runs");
        }
      if (oor)
        stats().cls("event outside the template's ranges inside a frame");
      if (neg)
        stats().cls("negative bin (more delayeds than prompts)");
      std::size_t lf = std::size_t(pmod(c["lik"].value("frame", 0L), long(frames.size())));
      lik_sel.use_time = true;
      for (std::size_t t = 0; t < frames.size(); ++t, lf = (lf + 1) % frames.size())
        {
          lik_sel.s_ms = frames[lf].first;
          lik_sel.e_ms = frames[lf].second;
          if (c["lik"].value("on", false) && expected(w, lik_sel, true, false).n_accepted > 0)
            break;
        }
    }
  else if (mode == 0)
    {
      // ---- time frames: one run per frame and batching setting (in-memory output keeps only the last frame of a run) ----
      long boundary_marks = 0;
      for (const Rec& r : w.recs)
        if (r.kind == 0)
          for (std::size_t k = 0; k <= frames.size(); ++k)
            if (long(r.ms) == (k < frames.size() ? frames[k].first : frames.back().second))
              ++boundary_marks;
      if (boundary_marks)
        stats().cls("time mark exactly on a frame boundary");
      std::vector<double> sum(w.bins.size(), 0.);
      bool additivity_decidable = true;
      long oor = 0, neg = 0;
      for (std::size_t f = 0; f <= frames.size(); ++f)
        {
          // f == frames.size(): the whole interval
          if (f == frames.size() && frames.size() == 1)
            break;
          Selection sel;
          sel.use_time = true;
          sel.s_ms = f < frames.size() ? frames[f].first : frames.front().first;
          sel.e_ms = f < frames.size() ? frames[f].second : frames.back().second;
          if (frame_over_at_entry(w, sel.s_ms, sel.e_ms))
            stats().cls("frame already over when its first record is reached (events follow)");
          const Expect ex = expected(w, sel, store_prompts, store_delayeds);
          oor += ex.n_out_of_range;
          neg += ex.n_negative_bins;
          std::vector<double> ref_hist;
          for (std::size_t k = 0; k < cfgs.size(); ++k)
            {
              if (cfgs[k].to_file)
                continue; // file runs are issued once for all frames below
              bool dtf = false;
              const auto res = run_lm_to_projdata(w, lm, { std::make_pair(sel.s_ms, sel.e_ms) }, 0, cfgs[k], store_prompts, store_delayeds, dir.path, &dtf);
              VF_CHECK(dtf, "frame definitions given and num_events_to_store == 0, but do_time_frame is false");
              const std::string ctx = cat(f < frames.size() ? cat("frame ", f + 1) : std::string("whole interval"), " [", sel.s_ms, ",", sel.e_ms,
                                          ") ms, num_segments_in_memory ", cfgs[k].nseg, ", num_TOF_bins_in_memory ", cfgs[k].ntof, " (",
                                          num_batches(w, cfgs[k]), " batches), in-memory output");
              PROPAGATE(compare_hist(w, res[0], ex.hist, ctx));
              if (ref_hist.empty())
                ref_hist = res[0];
              stats().count("LmToProjData runs");
            }
          if (f < frames.size())
            {
              if (ref_hist.empty())
                additivity_decidable = false; // no in-memory run for this frame
              else
                for (std::size_t i = 0; i < sum.size(); ++i)
                  sum[i] += ref_hist[i];
            }
          else if (!ref_hist.empty() && additivity_decidable)
            { // frames of a partition add up to the whole interval (STIR's outputs only)
              PROPAGATE(compare_hist(w, sum, ref_hist, cat("sum over the ", frames.size(), " frames of the partition vs the run over the whole interval")));
              stats().cls("partition additivity checked");
            }
        }
      // one process_data() call for all frames with an in-memory output object: set_output_projdata_sptr documents
      // "will only store data from the last defined time frame!"
      if (frames.size() > 1)
        for (std::size_t k = 0; k < cfgs.size(); ++k)
          if (!cfgs[k].to_file && (k + frames.size()) % 2 == 1)
            {
              const auto res = run_lm_to_projdata(w, lm, frames, 0, cfgs[k], store_prompts, store_delayeds, dir.path);
              Selection sel;
              sel.use_time = true;
              sel.s_ms = frames.back().first;
              sel.e_ms = frames.back().second;
              PROPAGATE(compare_hist(w, res[0], expected(w, sel, store_prompts, store_delayeds).hist,
                                     cat("multi-frame run with an in-memory output object: last frame (", frames.size(), ") [", sel.s_ms, ",", sel.e_ms,
                                         ") ms expected in the object, num_segments_in_memory ", cfgs[k].nseg, ", num_TOF_bins_in_memory ", cfgs[k].ntof)));
              stats().cls("multi-frame run with in-memory output (last frame)");
              stats().count("LmToProjData runs");
            }
      // one process_data() call for all frames with file output (<prefix>_f<k>g1d0b0.hs per frame)
      for (std::size_t k = 0; k < cfgs.size(); ++k)
        if (cfgs[k].to_file)
          {
            const auto res = run_lm_to_projdata(w, lm, frames, 0, cfgs[k], store_prompts, store_delayeds, dir.path);
            VF_CHECK(res.size() == frames.size(), "multi-frame run wrote ", res.size(), " files for ", frames.size(), " frames");
            for (std::size_t f = 0; f < frames.size(); ++f)
              {
                Selection sel;
                sel.use_time = true;
                sel.s_ms = frames[f].first;
                sel.e_ms = frames[f].second;
                const Expect ex = expected(w, sel, store_prompts, store_delayeds);
                PROPAGATE(compare_hist(w, res[f], ex.hist,
                                       cat("multi-frame run with file output, frame ", f + 1, " of ", frames.size(), " [", sel.s_ms, ",", sel.e_ms,
                                           ") ms, num_segments_in_memory ", cfgs[k].nseg, ", num_TOF_bins_in_memory ", cfgs[k].ntof)));
              }
            stats().cls("multi-frame run with file output");
            stats().count("LmToProjData runs");
          }
      if (oor)
        stats().cls("event outside the template's ranges inside a frame");
      if (neg)
        stats().cls("negative bin (more delayeds than prompts)");
      // the likelihood clause uses one frame of the partition
      std::size_t lf = std::size_t(pmod(c["lik"].value("frame", 0L), long(frames.size())));
      lik_sel.use_time = true;
      for (std::size_t t = 0; t < frames.size(); ++t, lf = (lf + 1) % frames.size())
        { // prefer a frame with at least one accepted prompt (precondition of the list-mode gradient, see check_likelihood)
          lik_sel.s_ms = frames[lf].first;
          lik_sel.e_ms = frames[lf].second;
          if (c["lik"].value("on", false) && expected(w, lik_sel, true, false).n_accepted > 0)
            break;
        }
    }
  else
    {
      // ---- num_events_to_store cut-off (mode 1) or the whole stream (mode 2) ----
      // LmToProjData.h: "or a total number of events (if larger than 0, frame definitions will be ignored)"; the code still
      // uses the frame's start to skip records, so only a frame starting at 0 (or none) is given with a cut-off.
      Selection sel;
      sel.cut = mode == 1 ? std::max(1L, c["cut"].get<long>()) : 0;
      std::vector<std::pair<long, long>> fr;
      if (mode == 1 && c.value("cut_frame_end", 0L) > 0)
        // "cut_frame_start" is never generated (audit H, open gap: with a first frame that starts later than 0 the code skips to that
        // start although LmToProjData.h says frame definitions are ignored for num_events_to_store > 0); the key only serves probes
        fr.push_back(std::make_pair(std::max(0L, c.value("cut_frame_start", 0L)), std::max(20L, c["cut_frame_end"].get<long>())));
      const Expect ex = expected(w, sel, store_prompts, store_delayeds);
      if (mode == 1)
        stats().cls(ex.cut_reached ? "cut-off reached before the end of the stream" : "cut-off beyond the end of the stream");
      if (mode == 1 && ex.cut_reached && store_prompts && store_delayeds && ex.n_delayeds_acc > 0)
        stats().cls("cut-off counts prompts - delayeds: delayeds subtracted before the cut");
      if (mode == 1 && ex.cut_reached && !store_prompts && ex.n_delayeds_acc > 0)
        stats().cls("cut-off counts delayeds (delayeds only)");
      if (ex.n_out_of_range)
        stats().cls("event outside the template's ranges inside a frame");
      if (ex.n_negative_bins)
        stats().cls("negative bin (more delayeds than prompts)");
      for (std::size_t k = 0; k < cfgs.size(); ++k)
        {
          bool dtf = true;
          const auto res = run_lm_to_projdata(w, lm, fr, sel.cut, cfgs[k], store_prompts, store_delayeds, dir.path, &dtf);
          VF_CHECK(dtf == (mode == 2), "do_time_frame is ", dtf, " with num_events_to_store ", sel.cut);
          const std::string ctx = cat(mode == 1 ? cat("first ", sel.cut, " counts (num_events_to_store)") : std::string("whole stream, no frame definitions"),
                                      fr.empty() ? "" : " with a frame [0,e)", ", num_segments_in_memory ", cfgs[k].nseg, ", num_TOF_bins_in_memory ",
                                      cfgs[k].ntof, " (", num_batches(w, cfgs[k]), " batches), ", cfgs[k].to_file ? "file" : "in-memory", " output");
          VF_CHECK(res.size() == 1, ctx, ": ", res.size(), " outputs");
          PROPAGATE(compare_hist(w, res[0], ex.hist, ctx));
          stats().count("LmToProjData runs");
          if (cfgs[k].to_file)
            stats().cls("single-frame run with file output");
        }
    }
  stats().count("source rewinds (set_get_position)", lm->num_rewinds);

  if (c["lik"].value("on", false))
    PROPAGATE(check_likelihood(c, w, lik_sel, dir.path));

  // ---- clause E: object reuse
  if (c.contains("hist") && c["hist"].get<long>() >= 0)
    PROPAGATE(check_reuse(c, w, cfgs, store_prompts, store_delayeds, dir.path));

  // ---- clause D: decoders of the list-mode file formats
  if (c.contains("dec") && c["dec"].value("ecat8", false))
    PROPAGATE(check_ecat8_records(w));
  if (c.contains("safir") && c["safir"].value("on", false))
    PROPAGATE(check_safir(c, dir.path));
  if (c.contains("e8") && c["e8"].value("on", false))
    PROPAGATE(check_ecat8_file(c, dir.path));
  return Result::pass();
}

// ---- generator ----------------------------------------------------------------------------------------
json
gen(Src& s, int size)
{
  json c;
  const bool lik = s.chance(1, 3);
  vg::ScannerOpts so;
  so.max_ndet = size < 40 ? 16 : 32;
  so.max_rings = 4;
  so.allow_tof = true;
  so.allow_tilt = !lik;
  // CListEventScannerWithDiscreteDetectors' constructor builds ProjDataInfo with TOF mashing 1 for the scanner, which
  // error()s for an even number of TOF positions ("Number of TOF bins should be an odd number"): odd or non-TOF only
  const bool want_tof = s.chance(2, 5); // gen_scanner alone gives an odd-TOF scanner in ~20 % of the draws
  for (int tries = 0;; ++tries)
    {
      c["scanner"] = vg::gen_scanner(s, so);
      const int tp = c["scanner"]["tof_poss"].get<int>();
      if ((tp == 0 && !want_tof) || tp % 2 == 1)
        break;
      if (tries >= 8)
        {
          if (tp % 2 == 0)
            c["scanner"]["tof_poss"] = 0;
          break;
        }
    }
  shared_ptr<Scanner> sc = vg::make_scanner(c["scanner"]);
  vg::PdiOpts po;
  po.max_span = lik ? 5 : 7;
  po.allow_trim = true;
  c["pdi"] = vg::gen_pdi(s, *sc, po);
  c["pdi"]["arccorr"] = false;
  if (!lik && s.chance(1, 4))
    c["ax_trim"] = json::array({ int(s.range(0, 8)), int(s.range(1, 2)), 0 });
  c["has_delayeds"] = s.chance(5, 6);
  c["lm_uncompressed"] = s.coin();
  c["combined"] = s.chance(1, 5); // audit H: source whose event records carry their own time
  // ---- what is histogrammed: 0 frames through the setter, 3 frames from a file, 1 num_events_to_store, 2 whole stream
  const int m = int(s.range(0, 19));
  const int mode = m < 9 ? 0 : (m < 14 ? 3 : (m < 18 ? 1 : 2));
  c["mode"] = mode;
  // time unit of the marks: frames read from a file have boundaries at multiples of 125 ms (see fdef_of_case)
  c["tick"] = mode == 3 ? s.pick(std::vector<long>{ 125, 125, 25, 1 }) : (s.chance(1, 8) ? 25L : 1L);

  // ---- record stream: explicit (shrinkable) part + optional seeded tail
  const int ndet = sc->get_num_detectors_per_ring(), rings = sc->get_num_rings();
  const int ntof = sc->is_tof_ready() ? sc->get_max_num_timing_poss() : 0;
  const int mark_pct = s.pick(std::vector<int>{ 3, 8, 15, 30 });
  const int delayed_pct = s.pick(std::vector<int>{ 0, 10, 25, 50 });
  const long maxdt = s.pick(std::vector<long>{ 3, 30, 30, 300, 2500 });
  const long nrec = s.chance(1, 12) ? s.range(0, 3) : s.range(4, 20 + 3 * size);
  json stream = json::array();
  const bool start_with_mark = s.chance(1, 3);
  for (long i = 0; i < nrec; ++i)
    {
      const long u = s.range(0, 99);
      if (u < mark_pct || (i == 0 && start_with_mark))
        {
          if (s.chance(1, 20)) // audit H: the same time as the previous mark (as first mark: a mark at time 0)
            stream.push_back(json::array({ 0, 1, 1 }));
          else
            stream.push_back(json::array({ 0, s.chance(1, 5) ? s.range(1, maxdt * 4) : s.small(1, maxdt) }));
        }
      else if (!stream.empty() && s.chance(1, 5))
        { // repeat an earlier event, possibly with the other kind
          const json& q = stream[std::size_t(s.range(0, long(stream.size()) - 1))];
          if (q[0].get<long>() != 0)
            {
              json r = q;
              r[0] = s.range(0, 99) < delayed_pct ? 2 : 1;
              stream.push_back(r);
            }
        }
      else
        stream.push_back(json::array({ s.range(0, 99) < delayed_pct ? 2 : 1, s.range(0, ndet - 1), s.range(0, std::max(0, ndet - 2)), s.range(0, rings - 1),
                                       s.range(0, rings - 1), ntof > 0 ? s.range(0, 2 * (ntof / 2 + 2)) : 0L }));
    }
  c["stream"] = stream;
  if (s.chance(1, 4))
    {
      json b;
      b["seed"] = s.seed64();
      b["n"] = s.range(50, 200 + 40 * size);
      b["mark_pct"] = mark_pct;
      b["delayed_pct"] = delayed_pct;
      b["maxdt"] = maxdt;
      c["bulk"] = b;
    }
  const std::vector<Rec> recs = decode_stream(c, *sc);
  std::vector<long> marks;
  long n_events = 0;
  for (const Rec& r : recs)
    if (r.kind == 0)
      marks.push_back(long(r.ms));
    else
      ++n_events;
  const long tmax = marks.empty() ? 0 : marks.back();

  auto boundary = [&]() -> long {
    const int how = int(s.range(0, 5));
    if (!marks.empty() && how <= 3)
      { // on a mark, one ms after / before it
        const long mk = marks[std::size_t(s.range(0, long(marks.size()) - 1))];
        return std::max(0L, mk + (how <= 1 ? 0 : how == 2 ? 1 : -1));
      }
    return s.range(0, tmax + 60);
  };
  {
    const int K = int(s.small(1, 4));
    std::vector<long> b;
    b.push_back(s.coin() ? 0 : boundary());
    for (int k = 0; k < K; ++k)
      b.push_back(boundary());
    std::sort(b.begin(), b.end());
    b.erase(std::unique(b.begin(), b.end()), b.end());
    if (b.size() < 2)
      b.push_back(b.back() + s.range(1, 50));
    // every frame must end later than 0.01 s: LmToProjData disables its time handling for end_time <= 0.01
    for (std::size_t k = 1; k < b.size(); ++k)
      b[k] = std::max(std::max(b[k], b[k - 1] + 1), 20L);
    c["bounds"] = b;
  }
  const int sp = int(s.range(0, 3));
  c["store_prompts"] = sp != 3;
  c["store_delayeds"] = sp == 0 || sp == 1 || sp == 3;
  {
    // cut-off: mostly a value that the running total "prompts - delayeds" (of the events the template accepts) does reach
    long max_net = 0;
    try
      {
        const World gw = make_world(c);
        const bool stp = c["store_prompts"].get<bool>(), std_ = c["store_delayeds"].get<bool>() || !stp;
        const int inc_p = stp ? 1 : 0, inc_d = stp ? (std_ ? -1 : 0) : 1;
        long net = 0;
        for (const Rec& r : gw.recs)
          if (r.kind != 0 && bin_of(gw, r) >= 0)
            {
              net += r.kind == 1 ? inc_p : inc_d;
              max_net = std::max(max_net, net);
            }
      }
    catch (...)
      {
      }
    c["cut"] = (max_net >= 1 && !s.chance(1, 5)) ? s.range(1, max_net) : s.range(1, std::max(1L, n_events + 2));
  }
  c["cut_frame_end"] = s.coin() ? 0 : s.range(20, tmax + 60);
  {
    // ---- frame definitions as a file (read back in every mode; mode 3 histograms with them)
    json fd;
    fd["kind"] = s.chance(1, 3) ? 1 : 0;
    fd["nl"] = !s.chance(1, 5);
    const long unit = mode == 3 ? 125L : s.pick(std::vector<long>{ 1, 1, 10, 125, 1000 });
    fd["unit"] = unit;
    const int K = int(s.small(1, 6));
    json lines = json::array();
    long prev = 0; // in units
    const long span_units = std::max(4L, (tmax + 60) / unit);
    for (int k = 0; k < K; ++k)
      {
        long num = s.pick(std::vector<long>{ 0, 1, 1, 1, 2, 3 });
        long u;
        if (k == 0 && num == 0 && s.chance(1, 4))
          u = -s.range(1, 8); // leading negative skip (normalised by decode_fdef if it is too long for the first frame)
        else if (num == 0 && s.chance(1, 6))
          u = 0; // "0 0"
        else
          {
            u = s.small(1, std::max(2L, 2 * span_units / K));
            if (!marks.empty() && s.coin())
              { // end this entry exactly on (or one unit next to) a time mark
                const long mk = marks[std::size_t(s.range(0, long(marks.size()) - 1))] / unit + s.pick(std::vector<long>{ 0, 0, 0, 1, -1 });
                const long n = std::max(1L, num);
                if (mk > prev && (mk - prev) % n == 0)
                  u = (mk - prev) / n;
              }
          }
        prev += u * std::max(1L, num);
        lines.push_back(json::array({ num, u, int(s.range(0, 3)), int(s.range(0, 5)) }));
      }
    fd["lines"] = lines;
    c["fdef"] = fd;
  }

  // ---- batching settings: the first run keeps everything in memory
  shared_ptr<ProjDataInfo> tmpl = make_template(sc, c);
  const int nsegs = tmpl->get_num_segments(), ntofs = tmpl->get_num_tof_poss();
  json runs = json::array();
  runs.push_back(json::array({ -1, -1, 0, 0 }));
  const int nruns = int(s.range(1, 3));
  for (int k = 0; k < nruns; ++k)
    {
      long a = s.chance(1, 6) ? -1 : s.range(1, nsegs + 1);
      long b = s.chance(1, 4) ? -1 : s.range(1, ntofs + 1);
      if (nsegs > 1 && ntofs == 1 && k == 0 && a == -1)
        a = s.range(1, nsegs - 1);
      runs.push_back(json::array({ a, b, s.chance(1, mode == 3 ? 2 : 5) ? 1 : 0, s.chance(1, 4) ? 1 : 0, s.chance(1, 3) ? 1 : 0, s.chance(1, 3) ? 1 : 0,
                                   s.chance(1, 3) ? 1 : 0 }));
    }
  c["runs"] = runs;
  {
    // ---- options that only the parser can set (mode 3)
    json P;
    P["max_seg"] = s.chance(1, 5) ? s.range(0, std::max(0, tmpl->get_max_segment_num())) : -1L;
    P["cut"] = s.chance(1, 10) ? s.range(1, std::max(1L, n_events / 3)) : 0L; // finding C14-F6 (excluded unless VERIF_NO_EXCLUDE=1)
    c["p"] = P;
  }

  // ---- likelihood clause
  json L;
  L["on"] = lik;
  if (lik)
    {
      vg::ImageOpts io;
      io.max_xy = 11;
      L["image"] = vg::gen_image(s, io);
      L["dseed"] = s.seed64();
      L["add"] = s.chance(2, 3);
      L["norm"] = s.coin();
      L["subsets"] = s.pick(vg::divisors(c["pdi"]["views"].get<int>()));
      L["subset"] = int(s.range(0, 95));
      L["sym"] = int(s.chance(1, 3) ? 0 : s.chance(1, 2) ? 31 : s.range(0, 31));
      L["mcache"] = int(s.range(0, 2));
      L["lors"] = int(s.range(1, 2));
      L["lmcache"] = s.coin() ? 0L : s.range(1, std::max(2L, n_events));
      L["frame"] = int(s.range(0, 7));
      const int zz = int(s.range(0, 9));
      L["xzero"] = zz < 2 ? 1 : (zz < 4 ? 2 : 0);
      L["azero"] = (zz == 4 || zz == 5) ? 1 : 0;
    }
  c["lik"] = L;

  c["hist"] = s.chance(1, 3) ? s.range(0, 4) : -1L;
  // ---- decoders of the list-mode file formats (clause D)
  c["dec"] = json{ { "ecat8", s.chance(1, 4) } };
  {
    json S;
    S["on"] = s.chance(1, 6);
    if (S["on"].get<bool>())
      {
        vg::ScannerOpts bo;
        bo.max_ndet = 24;
        bo.max_rings = 4;
        bo.allow_tof = false;
        bo.allow_tilt = false;
        bo.allow_blocks = true;
        json sj;
        for (int tries = 0; tries < 12; ++tries)
          { // blocks-on-cylindrical geometry (the only generated scanners with a detector map)
            sj = vg::gen_scanner(s, bo);
            if (sj["geometry"].get<std::string>() == "BlocksOnCylindrical")
              break;
          }
        if (sj["geometry"].get<std::string>() != "BlocksOnCylindrical")
          S["on"] = false;
        else
          {
            S["scanner"] = sj;
            shared_ptr<Scanner> bsc = vg::make_scanner(sj);
            vg::PdiOpts bp;
            bp.max_span = 5;
            bp.allow_trim = true;
            S["pdi"] = vg::gen_pdi(s, *bsc, bp);
            S["pdi"]["arccorr"] = false;
            S["nseg"] = int(s.range(0, 6));
          }
      }
    c["safir"] = S;
  }
  {
    json E;
    E["on"] = s.chance(1, 6);
    if (E["on"].get<bool>())
      {
        const std::string name = s.pick(std::vector<std::string>{ "ECAT 931", "ECAT 931", "ECAT 953", "ECAT 951" });
        E["scanner"] = name;
        shared_ptr<Scanner> esc(Scanner::get_scanner_from_name(name));
        const int rings = esc->get_num_rings(), nd = esc->get_num_detectors_per_ring();
        std::vector<int> views;
        for (int v : vg::divisors(nd / 2))
          if (v >= 2 && v <= 12)
            views.push_back(v);
        json pj;
        std::vector<int> spans;
        for (int k = 1; k <= std::min(5, 2 * rings - 1); k += 2)
          spans.push_back(k);
        const int span = s.pick(spans);
        pj["span"] = span;
        pj["max_delta"] = int(s.range(span / 2, std::min(rings - 1, 5)));
        pj["views"] = s.pick(views);
        pj["tang"] = int(s.range(3, 25));
        pj["arccorr"] = false;
        pj["tof_mash"] = 0;
        pj["trim"] = json::object();
        E["pdi"] = pj;
        E["md_less"] = s.chance(1, 3) ? 1 : 0;
        E["nseg"] = int(s.range(0, 6));
      }
    c["e8"] = E;
  }
  return c;
}

bool
nontrivial(const json& c)
{
  // >= 2 batches (segments or TOF) in some run, and the stream has delayeds, a mark on a frame boundary or an
  // event outside the template's ranges
  try
    {
      World w = make_world(c);
      int mb = 1;
      for (const RunCfg& r : run_cfgs(c, false, false))
        mb = std::max(mb, num_batches(w, r));
      if (mb < 2)
        return false;
      const auto frames = frames_from_case(c);
      for (const Rec& r : w.recs)
        {
          if (r.kind == 2)
            return true;
          if (r.kind == 0)
            {
              for (auto& f : frames)
                if (long(r.ms) == f.first || long(r.ms) == f.second)
                  return true;
            }
          else if (bin_of(w, r) < 0)
            return true;
        }
    }
  catch (...)
    {
    }
  return false;
}

std::vector<json>
fixed_cases(int)
{
  // corner configurations on a plain 3-ring, 8-detector scanner, span 1
  std::vector<json> v;
  PrngSrc s(14);
  json base = gen(s, 30);
  json sc;
  sc["type"] = -1;
  sc["ndet"] = 8;
  sc["rings"] = 3;
  sc["tr_cryst_per_block"] = 2;
  sc["tr_blocks_per_bucket"] = 1;
  sc["ax_cryst_per_block"] = 1;
  sc["ax_blocks_per_bucket"] = 1;
  sc["singles_units"] = 0;
  sc["max_tang"] = 7;
  sc["radius"] = 100.;
  sc["doi"] = 0.;
  sc["ring_spacing"] = 4.;
  sc["bin_size"] = 3.;
  sc["tilt"] = 0.;
  sc["tof_poss"] = 0;
  sc["geometry"] = "Cylindrical";
  base["scanner"] = sc;
  json pdi;
  pdi["span"] = 1;
  pdi["max_delta"] = 2;
  pdi["views"] = 4;
  pdi["tang"] = 7;
  pdi["arccorr"] = false;
  pdi["tof_mash"] = 0;
  pdi["trim"] = json::object();
  base["pdi"] = pdi;
  base.erase("ax_trim");
  base.erase("bulk");
  base["combined"] = false;
  base["tick"] = 1;
  base["p"] = json{ { "max_seg", -1 }, { "cut", 0 } };
  base["has_delayeds"] = true;
  base["store_prompts"] = true;
  base["store_delayeds"] = true;
  base["lik"] = json{ { "on", false } };
  base["runs"] = json::array({ json::array({ -1, -1, 0, 0 }), json::array({ 1, -1, 0, 0 }), json::array({ 2, 1, 0, 1 }), json::array({ 7, -1, 1, 0 }) });
  auto ev = [](int k, int a, int b, int r1, int r2) { return json::array({ k, a, b, r1, r2, 0 }); };
  // (1) events before the first mark, marks exactly on the frame boundaries
  {
    json c = base;
    c["stream"] = json::array({ ev(1, 0, 3, 0, 0), ev(1, 1, 3, 0, 2), json::array({ 0, 50 }), ev(1, 2, 3, 1, 1), ev(2, 2, 3, 1, 1), ev(1, 5, 2, 2, 0),
                                json::array({ 0, 50 }), ev(1, 0, 3, 0, 0), ev(2, 3, 3, 2, 2), json::array({ 0, 100 }), ev(1, 4, 2, 1, 2), json::array({ 0, 1 }),
                                ev(1, 4, 2, 1, 2) });
    c["mode"] = 0;
    c["bounds"] = std::vector<long>{ 0, 50, 100, 200, 300 };
    v.push_back(c);
    c["bounds"] = std::vector<long>{ 50, 200, 201 };
    v.push_back(c);
    // audit H: the same stream from a source with combined time+event records (the marks on the boundaries stay separate
    // records while finding C14-H1 is excluded), with stale contents in the output objects
    c["combined"] = true;
    c["bounds"] = std::vector<long>{ 0, 75, 100, 250 };
    c["runs"] = json::array({ json::array({ -1, -1, 0, 0, 0, 0, 1 }), json::array({ 1, -1, 0, 0, 0, 0, 1 }), json::array({ 2, 1, 0, 1 }), json::array({ 7, -1, 1, 0 }) });
    v.push_back(c);
    c["combined"] = false;
    c["runs"] = base["runs"];
    c["bounds"] = std::vector<long>{ 50, 200, 201 };
    c["mode"] = 1;
    c["cut"] = 3;
    c["cut_frame_end"] = 0;
    v.push_back(c);
    c["mode"] = 2;
    v.push_back(c);
  }
  // (3) the pattern documented in TimeFrameDefinitions.cxx: "3 50.5 / 1 10 / 0 3 / 1 9" (3 frames of 50.5 s, 1 frame of 10 s, a gap
  //     of 3 s, 1 frame of 9 s), as .fdef text and as Interfile header, time marks on every boundary, events in the gap
  {
    json c = base;
    c["tick"] = 500;
    // marks at 50.5, 101, 151.5, 161.5, 164.5, 173.5 s (in units of 0.5 s: 101, 101, 101, 20, 6, 18), events between them
    c["stream"] = json::array({ ev(1, 0, 3, 0, 0), json::array({ 0, 101 }), ev(1, 1, 3, 0, 2), json::array({ 0, 101 }), ev(1, 2, 3, 1, 1), ev(2, 2, 3, 1, 1),
                                json::array({ 0, 101 }), ev(1, 5, 2, 2, 0), json::array({ 0, 20 }), ev(1, 0, 3, 0, 0), ev(1, 0, 3, 0, 0), json::array({ 0, 6 }),
                                ev(1, 4, 2, 1, 2), ev(1, 3, 3, 2, 2), json::array({ 0, 18 }), ev(1, 4, 2, 1, 2), json::array({ 0, 1 }), ev(1, 4, 2, 1, 2) });
    c["mode"] = 3;
    c["fdef"] = json{ { "kind", 0 }, { "nl", true }, { "unit", 500 },
                      { "lines", json::array({ json::array({ 3, 101, 0, 0 }), json::array({ 1, 20, 0, 0 }), json::array({ 0, 6, 0, 0 }), json::array({ 1, 18, 0, 0 }) }) } };
    c["runs"] = json::array({ json::array({ -1, -1, 0, 0, 0, 0 }), json::array({ 1, -1, 1, 0, 1, 0 }), json::array({ 2, 1, 1, 0, 0, 1 }), json::array({ 7, -1, 0, 0, 1, 0 }) });
    v.push_back(c);
    c["fdef"]["kind"] = 1;
    v.push_back(c);
  }
  // (2) empty stream; only time marks; only delayeds stored
  {
    json c = base;
    c["stream"] = json::array();
    c["mode"] = 0;
    c["bounds"] = std::vector<long>{ 0, 100 };
    v.push_back(c);
    c["stream"] = json::array({ json::array({ 0, 10 }), json::array({ 0, 10 }), json::array({ 0, 200 }) });
    v.push_back(c);
    c["stream"] = json::array({ ev(2, 0, 3, 0, 0), json::array({ 0, 10 }), ev(2, 0, 3, 0, 0), ev(1, 0, 3, 0, 0) });
    c["store_prompts"] = false;
    v.push_back(c);
  }
  return v;
}

} // namespace

const Property&
the_property()
{
  static Property p;
  p.id = "C14";
  p.gen = gen;
  p.check = check;
  p.nontrivial = nontrivial;
  p.fixed_cases = fixed_cases;
  p.shrink_lists = { "stream" };
  p.rule = "a run with >= 2 batches (segments or TOF bins) and a stream with delayeds, a time mark exactly on a frame boundary or an event outside "
           "the template's ranges";
  return p;
}

// C18 — harness-side list-mode source for the list-mode objective function workload.
// Same construction as in the C14 harness (public CListModeData interface only; the events derive from
// CListEventScannerWithDiscreteDetectors<ProjDataInfoCylindricalNoArcCorr>, so STIR's own event->bin code runs).
// The record stream (prompts only, one time mark at the start) is a pure function of a seed stored in the Case.
#pragma once
#include "verif.h"
#include "stir/listmode/CListModeData.h"
#include "stir/listmode/CListRecord.h"
#include "stir/listmode/CListEventScannerWithDiscreteDetectors.h"
#include "stir/ProjDataInfoCylindricalNoArcCorr.h"
#include "stir/DetectionPositionPair.h"
#include "stir/ExamInfo.h"
#include "stir/Scanner.h"
#include <vector>

namespace c18lm {
using namespace stir;

struct Rec
{
  int kind; // 0 time mark, 1 prompt
  unsigned long ms;
  int d1, r1, d2, r2, tof;
};

class SynthEvent : public CListEventScannerWithDiscreteDetectors<ProjDataInfoCylindricalNoArcCorr>
{
  typedef CListEventScannerWithDiscreteDetectors<ProjDataInfoCylindricalNoArcCorr> base_type;

public:
  explicit SynthEvent(const shared_ptr<const ProjDataInfo>& pdi)
      : base_type(pdi)
  {}
  bool is_prompt() const override { return prompt; }
  Succeeded set_prompt(const bool p = true) override
  {
    prompt = p;
    return Succeeded::yes;
  }
  void get_detection_position(DetectionPositionPair<>& dp) const override { dp = pos; }
  void set_detection_position(const DetectionPositionPair<>& dp) override { pos = dp; }

private:
  DetectionPositionPair<> pos;
  bool prompt = true;
};

class SynthTime : public ListTime
{
public:
  unsigned long get_time_in_millisecs() const override { return ms; }
  Succeeded set_time_in_millisecs(const unsigned long t) override
  {
    ms = t;
    return Succeeded::yes;
  }

private:
  unsigned long ms = 0;
};

class SynthRecord : public CListRecord
{
public:
  explicit SynthRecord(const shared_ptr<const ProjDataInfo>& pdi)
      : ev(pdi)
  {}
  bool is_time() const override { return kind == 0; }
  bool is_event() const override { return kind != 0; }
  ListEvent& event() override { return ev; }
  const ListEvent& event() const override { return ev; }
  ListTime& time() override { return tm; }
  const ListTime& time() const override { return tm; }
  void load(const Rec& r)
  {
    kind = r.kind;
    if (r.kind == 0)
      tm.set_time_in_millisecs(r.ms);
    else
      {
        ev.set_detection_position(DetectionPositionPair<>(DetectionPosition<>(r.d1, r.r1, 0), DetectionPosition<>(r.d2, r.r2, 0), r.tof));
        ev.set_prompt(true);
      }
  }

private:
  int kind = 1;
  SynthEvent ev;
  SynthTime tm;
};

class SyntheticCListModeData : public CListModeData
{
public:
  SyntheticCListModeData(const std::vector<Rec>& recs, const shared_ptr<const ProjDataInfo>& pdi)
      : recs(recs)
  {
    this->exam_info_sptr.reset(new ExamInfo(ImagingModality::PT));
    this->set_proj_data_info_sptr(pdi);
  }
  std::string get_name() const override { return "synthetic list-mode stream"; }
  shared_ptr<CListRecord> get_empty_record_sptr() const override
  {
    return shared_ptr<CListRecord>(new SynthRecord(this->get_proj_data_info_sptr()));
  }
  Succeeded get_next_record(CListRecord& r) const override
  {
    if (pos >= recs.size())
      return Succeeded::no;
    static_cast<SynthRecord&>(r).load(recs[pos++]);
    return Succeeded::yes;
  }
  Succeeded reset() override
  {
    pos = 0;
    return Succeeded::yes;
  }
  SavedPosition save_get_position() override
  {
    saved.push_back(pos);
    return static_cast<SavedPosition>(saved.size() - 1);
  }
  Succeeded set_get_position(const SavedPosition& p) override
  {
    if (p >= saved.size())
      return Succeeded::no;
    pos = saved[p];
    return Succeeded::yes;
  }
  bool has_delayeds() const override { return false; }

private:
  std::vector<Rec> recs;
  mutable std::size_t pos = 0;
  std::vector<std::size_t> saved;
};

//! n random prompts (detector pair with d1 != d2 as the view/tangential lookup requires, rings, unmashed TOF index within
//! the scanner's range); events outside the ranges of the data are dropped by the objective function itself
inline std::vector<Rec>
make_stream(uint64_t seed, long n, const Scanner& sc)
{
  vf::SplitMix g(seed);
  const int ndet = sc.get_num_detectors_per_ring(), rings = sc.get_num_rings();
  const int ntof = sc.is_tof_ready() ? sc.get_max_num_timing_poss() : 0;
  std::vector<Rec> out;
  out.push_back(Rec{ 0, 1, 0, 0, 0, 0, 0 });
  for (long i = 0; i < n; ++i)
    {
      Rec r;
      r.kind = 1;
      r.ms = 0;
      if (i > 0 && g.range(0, 2) == 0)
        r = out.back(); // the same detector pair again straight away: neighbouring loop iterations (= different threads) want
                        // the same matrix row / cache entry at almost the same time
      else if (i > 0 && g.range(0, 4) == 0)
        { // repeat an earlier event (several events in one bin)
          const Rec& q = out[std::size_t(g.range(1, long(out.size()) - 1))];
          r = q;
        }
      else
        {
          r.d1 = int(g.range(0, ndet - 1));
          r.d2 = int((r.d1 + 1 + g.range(0, ndet - 2)) % ndet);
          r.r1 = int(g.range(0, rings - 1));
          r.r2 = int(g.range(0, rings - 1));
          r.tof = ntof > 0 ? int(g.range(0, ntof - 1)) - ntof / 2 : 0;
        }
      out.push_back(r);
    }
  return out;
}

//! number of events the objective function will keep (the range tests of read_listmode_batch); needed for two documented
//! preconditions only: LM_distributable_computation has assert(!record_ptr.empty()), and a number of kept prompts that is a
//! multiple of 'max cache size' leaves an empty last cache batch (same assertion; see the C14 harness)
inline long
count_accepted(const std::vector<Rec>& recs, const ProjDataInfo& pdi)
{
  const ProjDataInfoCylindricalNoArcCorr& p = dynamic_cast<const ProjDataInfoCylindricalNoArcCorr&>(pdi);
  long n = 0;
  for (const Rec& r : recs)
    {
      if (r.kind != 1)
        continue;
      Bin b;
      b.set_bin_value(1.F);
      if (p.get_bin_for_det_pos_pair(b, DetectionPositionPair<>(DetectionPosition<>(r.d1, r.r1, 0), DetectionPosition<>(r.d2, r.r2, 0), r.tof))
          != Succeeded::yes)
        continue;
      if (b.segment_num() < p.get_min_segment_num() || b.segment_num() > p.get_max_segment_num()
          || b.tangential_pos_num() < p.get_min_tangential_pos_num() || b.tangential_pos_num() > p.get_max_tangential_pos_num()
          || b.axial_pos_num() < p.get_min_axial_pos_num(b.segment_num()) || b.axial_pos_num() > p.get_max_axial_pos_num(b.segment_num())
          || b.timing_pos_num() < p.get_min_tof_pos_num() || b.timing_pos_num() > p.get_max_tof_pos_num())
        continue;
      ++n;
    }
  return n;
}

} // namespace c18lm

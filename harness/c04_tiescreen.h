// C04 clause (5): which bins of the differential "on-the-fly ray tracing forward projector == forward projection
// through the ray-tracing matrix (1 tangential LOR, same FOV switch)" are DECIDED, and which are ties.
//
// Both projectors trace the SAME rays (ForwardProjectorByBinUsingRayTracing_Siddon.cxx:147-208 and
// ProjMatrixByBinUsingRayTracing.cxx:457-518 are the same parametrisation; the Siddon file says it was "almost
// completely reimplemented in terms of what I did for ProjMatrixByBinUsingRayTracing and RayTraceVoxelsOnCartesianGrid ...
// gives the same results as the projection matrix version").  They can only differ where a DISCRETE decision of the ray
// tracer sits on a floating-point boundary, or where the two codes deliberately resolve a degenerate ray differently:
//
//  T1 first/last voxel: an end point of the ray (intersection with the FOV) within SCREEN of a voxel boundary in x, y or z:
//     round(start_point) picks the voxel (Siddon.cxx:211-217, RayTraceVoxelsOnCartesianGrid.cxx:146-148,182); the on-the-fly
//     projector takes that decision once for the basic view and mirrors it, the matrix takes it per bin.
//  T2 ray inside a plane between two voxel layers (parallel to a grid axis, coordinate half-integer): the matrix splits it
//     half/half over the two layers (RayTraceVoxelsOnCartesianGrid.cxx:103-131, "KT 18/05/2005 handle LORs in a plane
//     between voxels"; for direct sinograms ProjMatrixByBinUsingRayTracing.cxx:711-720 + add_adjacent_z), the on-the-fly
//     projector (2003) assigns it to ONE layer by round().  Transaxially this happens for views at 0/90 degrees when s is
//     a half-integer number of voxels; axially it happens for EVERY bin of segment 0 when the image planes are not centred
//     on the data's planes (half-integer axial_pos_to_z_offset) - see finding C04-F5 in the report.
//  T3 empty / non-empty: |s| within SCREEN of the FOV radius (">=" in Siddon.cxx:164, ">" in ProjMatrix...cxx:472), the
//     square-FOV switch |cos|,|sin| < 1e-3, and the "parallel" thresholds 1e-5 (Siddon.cxx:224) vs 1e-4
//     (RayTraceVoxelsOnCartesianGrid.cxx:99) grid units.
// Everything else is compared.  The screen is evaluated in double from the bin's own coordinates.
#pragma once
#include "stir/ProjDataInfoCylindrical.h"
#include "stir/VoxelsOnCartesianGrid.h"
#include "stir/recon_buildblock/DataSymmetriesForBins_PET_CartesianGrid.h"
#include "stir/Bin.h"
#include <cmath>

namespace c04 {

const double SCREEN = 1e-3; // voxel units (same value as C03's tie screen)

inline bool
near_half(double v)
{
  return std::fabs(v - std::floor(v) - 0.5) < SCREEN;
}

struct OtfGeom
{
  double vx, vy;
  double fovrad; // mm: min(min(max_x,-min_x)*vx, min(max_y,-min_y)*vy)   [Siddon.cxx:139, ProjMatrix...cxx:728]
  bool cyl_fov;
  double R; // ring radius
};

enum TieKind
{
  NO_TIE = 0,
  TIE_ENDPOINT = 1,
  TIE_PLANE_XY = 2,
  TIE_PLANE_Z = 3,
  TIE_EMPTY = 4
};

//! screen of one bin (\a tie_dim: 0 = z, 1 = y, 2 = x for T1/T2 ties; \a kappa: conditioning of the ray); \a off = axial_pos_to_z_offset(segment), \a nppap / \a nppr = planes per axial position / per ring
inline TieKind
screen_bin(const stir::ProjDataInfoCylindrical& p, const stir::Bin& b, const OtfGeom& g, double off, int nppap, int nppr, double& kappa, int& tie_dim)
{
  kappa = 1;
  tie_dim = -1;
  const double s = p.get_s(b);
  const double phi = p.get_phi(b);
  const double cphi = std::cos(phi), sphi = std::sin(phi);
  const double tol_mm = SCREEN * std::min(g.vx, g.vy);
  double max_a, min_a;
  if (g.cyl_fov)
    {
      if (std::fabs(std::fabs(s) - g.fovrad) < tol_mm)
        return TIE_EMPTY;
      if (std::fabs(s) > g.fovrad)
        return NO_TIE; // both empty
      max_a = std::sqrt(g.fovrad * g.fovrad - s * s);
      min_a = -max_a;
    }
  else
    {
      if (std::fabs(std::fabs(cphi) - 1e-3) < 1e-5 || std::fabs(std::fabs(sphi) - 1e-3) < 1e-5)
        return TIE_EMPTY;
      if (std::fabs(cphi) < 1e-3 || std::fabs(sphi) < 1e-3)
        {
          if (std::fabs(std::fabs(s) - g.fovrad) < tol_mm)
            return TIE_EMPTY;
          if (g.fovrad < std::fabs(s))
            return NO_TIE;
          max_a = g.fovrad;
          min_a = -g.fovrad;
        }
      else
        {
          const double sg_s = sphi < 0 ? -1. : 1., sg_c = cphi < 0 ? -1. : 1.;
          max_a = std::min((g.fovrad * sg_s - s * cphi) / sphi, (g.fovrad * sg_c + s * sphi) / cphi);
          min_a = std::max((-g.fovrad * sg_s - s * cphi) / sphi, (-g.fovrad * sg_c + s * sphi) / cphi);
          const double d = max_a - min_a; // both return "empty" if d < 1e-3*vx
          if (d < -tol_mm)
            return NO_TIE;
          if (d < 1e-2 * g.vx)
            return TIE_EMPTY;
        }
    }
  const double x0 = (s * cphi + max_a * sphi) / g.vx, x1 = (s * cphi + min_a * sphi) / g.vx;
  const double y0 = (s * sphi - max_a * cphi) / g.vy, y1 = (s * sphi - min_a * cphi) / g.vy;
  const double delta = p.get_average_ring_difference(b.segment_num());
  // z in voxel units along the ray (Siddon.cxx:151-152); the second ray of a 2-ray bin is the first one shifted by one plane
  const double TMP = std::sqrt(std::max(g.R * g.R - s * s, 1e-30));
  const double zc = nppap * (b.axial_pos_num() + (nppap == 2 && delta != 0 ? -0.25 : 0.)) + off;
  const double z0 = zc + nppr * delta / 2 * (1 - max_a / TMP), z1 = zc + nppr * delta / 2 * (1 - min_a / TMP);
  const double c0[3] = { z0, y0, x0 }, c1[3] = { z1, y1, x1 };
  double n2 = 0;
  for (int d = 0; d < 3; ++d)
    n2 += (c1[d] - c0[d]) * (c1[d] - c0[d]);
  if (std::sqrt(n2) < 1e-2)
    return TIE_EMPTY; // (nearly) coinciding end points
  {
    // conditioning (as in C03): a rounding error e (float, ~1e-7 x coordinate) in the start point moves the position at which the ray
    // crosses a plane perpendicular to direction d by e / |difference_d| of the chord; kappa = largest extent / smallest non-parallel one
    double dmax = 0, dmin = 1e30;
    for (int d = 0; d < 3; ++d)
      {
        const double ad = std::fabs(c1[d] - c0[d]);
        dmax = std::max(dmax, ad);
        if (ad > 3e-4)
          dmin = std::min(dmin, ad);
      }
    if (dmin < 1e29)
      kappa = std::max(1., dmax / dmin);
  }
  for (int d = 0; d < 3; ++d)
    {
      const double ad = std::fabs(c1[d] - c0[d]);
      if (ad > 3e-6 && ad < 3e-4)
        return TIE_EMPTY; // "parallel to a coordinate plane" is decided at 1e-5 (on the fly) / 1e-4 (matrix) grid units
      if (ad <= 3e-6)
        {
          if (near_half(c0[d]))
            {
              tie_dim = d;
              return d == 0 ? TIE_PLANE_Z : TIE_PLANE_XY; // T2
            }
        }
      else if (near_half(c0[d]) || near_half(c1[d]))
        {
          tie_dim = d;
          return TIE_ENDPOINT; // T1
        }
    }
  return NO_TIE;
}

} // namespace c04

// C19 checks, part C: SeparableMetzArrayFilter (kind 6), SeparableConvolutionImageFilter (kind 7)
#pragma once
#include "c19_checks_b.h"

namespace c19 {

inline stir::shared_ptr<stir::SeparableMetzArrayFilter<3, float>>
make_metz(const float* fwhm, const float* power, const float* samp, const int* maxk)
{
  stir::VectorWithOffset<float> fw(1, 3), pw(1, 3);
  stir::VectorWithOffset<int> mk(1, 3);
  stir::BasicCoordinate<3, float> sd;
  for (int a = 0; a < 3; ++a)
    {
      fw[a + 1] = fwhm[a];
      pw[a + 1] = power[a];
      mk[a + 1] = maxk[a];
      sd[a + 1] = samp[a];
    }
  StdoutSilencer quiet; // the constructor printf()s all kernel elements
  return stir::shared_ptr<stir::SeparableMetzArrayFilter<3, float>>(new stir::SeparableMetzArrayFilter<3, float>(fw, pw, sd, mk));
}

//! documented continuous Metz filter, band-limited at the Nyquist frequency of the sampling distance, sampled at j*dx:
//! k_j = dx * int_{-fc}^{fc} M(f) cos(2 pi f j dx) df,  M = (1-(1-G^2)^(P+1))/G,  G(f) = exp(-2 pi^2 sigma^2 f^2)
inline double
metz_formula(int j, double sigma_mm, double power, double dx)
{
  const int n = 4096; // Simpson
  const double fc = 0.5 / dx, h = fc / n, pi = 3.14159265358979323846;
  auto M = [&](double f) {
    const double G = std::exp(-2 * pi * pi * sigma_mm * sigma_mm * f * f);
    const double G2 = G * G;
    if (G2 < 1e-9)
      return (power + 1) * G;
    return (1 - std::pow(1 - G2, power + 1)) / G;
  };
  double s = 0;
  for (int i = 0; i <= n; ++i)
    {
      const double f = i * h;
      const double w = (i == 0 || i == n) ? 1 : (i % 2 ? 4 : 2);
      s += w * M(f) * std::cos(2 * pi * f * j * dx);
    }
  return 2 * dx * s * h / 3;
}

//! kernel of one axis, measured as the impulse response of an instance that filters along axis 1 only
inline Result
probe_metz_axis(float fwhm, float power, float samp, int maxk, K1& k, int max_half = 4000)
{
  k = K1();
  if (!(fwhm > 0))
    return Result::pass(); // FWHM 0: no filtering along this axis (kernel {1}); reference: identity
  const float fw[3] = { fwhm, 0.F, 0.F }, pw[3] = { power, 0.F, 0.F }, sd[3] = { samp, 1.F, 1.F };
  const int mk[3] = { maxk, -1, -1 };
  const auto F = make_metz(fw, pw, sd, mk);
  for (int H = 48; H <= max_half; H *= 4)
    {
      Nd imp;
      imp.mn[0] = -H;
      imp.len[0] = 2 * H + 1;
      imp.alloc();
      imp.at(0, 0, 0) = 1.;
      Nd R;
      Result r = apply3(*F, imp, 1, R);
      if (r.failed())
        return r;
      int L = -1;
      for (int i = 0; i <= H; ++i)
        if (R.at(i, 0, 0) != 0 || R.at(-i, 0, 0) != 0)
          L = i;
      if (L >= H - 1)
        continue;
      if (L < 0)
        return Result::fail(vf::cat("Metz filter (fwhm ", fwhm, ", power ", power, ", sampling ", samp, ", max kernel ", maxk, ") has an all-zero impulse response"));
      k.mn = -L;
      k.c.assign(std::size_t(2 * L + 1), 0.);
      for (int i = -L; i <= L; ++i)
        k.c[std::size_t(i + L)] = R.at(i, 0, 0);
      return Result::pass();
    }
  return Result::reject("Metz kernel longer than the probe");
}

// =============================================================================================
// kind 6
inline Result
check_metz(const json& c)
{
  float fwhm[3], power[3], samp[3];
  int m[3];
  for (int a = 0; a < 3; ++a)
    {
      fwhm[a] = float(c.at("fwhm").at(std::size_t(a)).get<double>());
      power[a] = float(c.at("power").at(std::size_t(a)).get<double>());
      samp[a] = float(c.at("vox").at(std::size_t(a)).get<double>());
      m[a] = c.at("maxk").at(std::size_t(a)).get<int>();
      if (!(samp[a] > 0) || fwhm[a] < 0 || power[a] < 0 || m[a] == 0 || m[a] < -1)
        return Result::reject("parameters outside the documented domain");
    }
  Axis kk[3];
  bool unit_gain = true; // power 0, unrestricted kernel length on every filtered axis
  for (int a = 0; a < 3; ++a)
    {
      Result r = probe_metz_axis(fwhm[a], power[a], samp[a], m[a], kk[a].k);
      if (r.kind != Result::PASS)
        return r;
      if (kk[a].k.empty())
        {
          vf::stats().cls("metz axis with FWHM 0 (no filtering)");
          continue;
        }
      const K1& k = kk[a].k;
      const int L = k.mx();
      vf::stats().cls(power[a] > 0 ? "metz axis power>0" : "metz axis power 0");
      vf::stats().maxi("metz: kernel half length", L);
      for (int i = 1; i <= L; ++i)
        VF_CHECK(k.c[std::size_t(L + i)] == k.c[std::size_t(L - i)], "Metz kernel not symmetric along axis ", a + 1, " at ", i);
      if (m[a] > 0)
        {
          VF_CHECK(2 * L + 1 <= m[a], "Metz kernel along axis ", a + 1, " has ", 2 * L + 1, " elements, max_kernel_size=", m[a]);
          vf::stats().cls("metz axis with max_kernel_size");
        }
      const double sum = k.sum();
      const bool clipped = m[a] > 0; // a clipped kernel is not re-normalised by this class (nothing documented): no claim on its sum
      if (!clipped)
        {
          // documented frequency response: M(0) = 1 for every power => the kernel sums to one
          vf::stats().maxi(power[a] > 0 ? "metz: |kernel sum - 1| (power>0, unrestricted)" : "metz: |kernel sum - 1| (power 0, unrestricted)", std::fabs(sum - 1));
          VF_CHECK(std::fabs(sum - 1) <= TOL_METZ_SUM, "Metz kernel (fwhm ", fwhm[a], " mm, power ", power[a], ", sampling ", samp[a],
                   " mm, unrestricted length) sums to ", sum, " although the documented filter has unit DC gain");
        }
      if (clipped || power[a] > 0)
        unit_gain = false;
      // max_kernel_sizes is documented as the "maximum number of elements in the kernels" and nothing else: a budget of fewer than
      // 3 elements leaves a symmetric kernel the choice between the single element {k_0} and no element at all, i.e. no filtering
      // along this axis (the 1-D filter classes document an empty kernel as the trivial filter).  The class takes {k_0} for
      // max_kernel_size 2 and no element for max_kernel_size 1; both are within the documentation, and the identity trivially
      // keeps the mean (the property's clause).  The reference for the data comparison below is the measured kernel in either case.
      const bool no_filtering = clipped && m[a] <= 2 && L == 0 && k.c[0] == 1.;
      if (no_filtering)
        vf::stats().cls("metz axis clipped to no filtering (max_kernel_size <= 2)");
      else
      // the documented formula (statistic + loose check on the central elements)
      {
        const double sigma_mm = double(fwhm[a]) / std::sqrt(8. * std::log(2.));
        const double k0 = metz_formula(0, sigma_mm, power[a], samp[a]);
        double worst = 0;
        for (int j = 0; j <= std::min(L, 24); ++j)
          worst = std::max(worst, std::fabs(k.c[std::size_t(L + j)] - metz_formula(j, sigma_mm, power[a], samp[a])) / k0);
        if (std::getenv("VERIF_DEBUG"))
          {
            std::cerr << "metz axis " << a << " fwhm " << fwhm[a] << " power " << power[a] << " samp " << samp[a] << " maxk " << m[a] << " L " << L << " sum " << sum << "\n";
            for (int j = 0; j <= std::min(L, 12); ++j)
              std::cerr << "  k[" << j << "]=" << k.c[std::size_t(L + j)] << " formula " << metz_formula(j, sigma_mm, power[a], samp[a]) << "\n";
          }
        vf::stats().maxi(power[a] > 0 ? "metz: max |k_j - formula_j|/formula_0 (power>0)" : "metz: max |k_j - formula_j|/formula_0 (power 0)", worst);
        VF_CHECK(worst <= TOL_METZ_FORMULA, "Metz kernel (fwhm ", fwhm[a], " mm, power ", power[a], ", sampling ", samp[a],
                 " mm) deviates from the documented band-limited Metz function by ", worst, " of its peak");
      }
    }
  const auto F = make_metz(fwhm, power, samp, m);
  const Runner run = [&](const Nd& x, int md, Nd& got) { return apply3(*F, x, md, got); };
  return check_against_kernels(run, kk, c, "metz", "metz: max err/(prod|k|1 |x|inf)", unit_gain, TOL_METZ_SUM);
}

// =============================================================================================
// kind 7: SeparableConvolutionImageFilter
//! documented parsing convention: even number of values -> a 0 is appended; then the central element is index 0
inline K1
kernel_from_list(const std::vector<double>& l)
{
  K1 k;
  if (l.empty())
    return k;
  k.c = l;
  if (k.c.size() % 2 == 0)
    k.c.push_back(0.);
  k.mn = -int(k.c.size() / 2);
  return k;
}

inline std::string
list_text(const std::vector<double>& l)
{
  std::ostringstream s;
  s.precision(12);
  s << "{";
  for (std::size_t i = 0; i < l.size(); ++i)
    s << (i ? ", " : "") << l[i];
  s << "}";
  return s.str();
}

inline Result
check_sepconv_image(const json& c)
{
  const int how = c.at("how").get<int>(); // 0 constructor with coefficients, 1 set_filter_coefficients, 2 parsed from text
  int dmin[3], dlen[3];
  get3(c, "dmin", 3, dmin, 0);
  get3(c, "dlen", 3, dlen, 1);
  for (int a = 0; a < 3; ++a)
    if (dlen[a] < 1)
      return Result::reject("empty image");
  const int mode = c.at("mode").get<int>();
  Axis kk[3];
  std::vector<double> lists[3];
  bool asym_ctor = false;
  for (int a = 0; a < 3; ++a)
    {
      const json& fj = c.at("f").at(std::size_t(a));
      if (how == 2)
        {
          // values are multiples of 1/4: exact in text
          const K1 t = kernel1(0, fj.at("klen").get<int>(), fj.at("kseed").get<uint64_t>(), fj.at("kpat").get<int>() == 3 ? 3 : 1);
          lists[a] = t.c;
          kk[a].k = kernel_from_list(lists[a]);
        }
      else
        {
          kk[a].k = kernel1(fj.at("kmin").get<int>(), fj.at("klen").get<int>(), fj.at("kseed").get<uint64_t>(), fj.at("kpat").get<int>() == 3 ? 3 : 1);
          if (!kk[a].k.empty() && kk[a].k.mx() != -kk[a].k.mn)
            asym_ctor = true;
        }
    }
  // kernels with an asymmetric index range handed to the constructor (once a heap overflow in its parsing copy: regression
  // replays/C19/fixed_F3_*.json)
  if (how == 0 && asym_ctor)
    vf::stats().cls("image filter: constructor with an asymmetric kernel range");
  vf::stats().cls(how == 0 ? "image filter: constructor" : how == 1 ? "image filter: set_filter_coefficients" : "image filter: parsed");
  stir::shared_ptr<stir::SeparableConvolutionImageFilter<float>> F;
  if (how == 0)
    {
      const int first = c.value("first_index", 0);
      stir::VectorWithOffset<stir::VectorWithOffset<float>> fc(first, first + 2);
      for (int a = 0; a < 3; ++a)
        fc[first + a] = to_vwo(kk[a].k);
      F.reset(new stir::SeparableConvolutionImageFilter<float>(fc));
    }
  else if (how == 1)
    {
      F.reset(new stir::SeparableConvolutionImageFilter<float>);
      if (c.value("per_axis", false))
        for (int a = 0; a < 3; ++a)
          F->set_filter_coefficients(a, to_vwo(kk[a].k));
      else
        {
          stir::VectorWithOffset<stir::VectorWithOffset<float>> fc(3);
          for (int a = 0; a < 3; ++a)
            fc[a] = to_vwo(kk[a].k);
          F->set_filter_coefficients(fc);
        }
    }
  else
    {
      std::ostringstream s;
      s << "Separable Convolution Filter Parameters :=\n";
      const char* names[3] = { "z", "y", "x" };
      for (int a = 0; a < 3; ++a)
        if (!lists[a].empty())
          s << names[a] << "-dir filter coefficients := " << list_text(lists[a]) << "\n";
      s << "END Separable Convolution Filter Parameters :=\n";
      F.reset(new stir::SeparableConvolutionImageFilter<float>);
      std::istringstream is(s.str());
      VF_CHECK(F->parse(is), "parsing failed for\n", s.str());
    }
  Nd x(dmin, dlen);
  fill_data(x, c.at("seed").get<uint64_t>(), c.at("pat").get<int>());
  const stir::BasicCoordinate<3, float> vx = stir::make_coordinate(2.F, 1.5F, 0.75F);
  const stir::CartesianCoordinate3D<float> org(0.F, 1.F, -3.F);
  auto run_with = [&](stir::SeparableConvolutionImageFilter<float>& flt, Nd& got) -> Result {
    std::string err;
    stir::VoxelsOnCartesianGrid<float> in(to_stir<3, float>(x), org, vx);
    if (mode == 1)
      {
        VF_CHECK(flt.apply(in) == stir::Succeeded::yes, "apply failed");
        VF_CHECK((from_stir<3, float>(in, got, err)), err);
      }
    else
      {
        stir::VoxelsOnCartesianGrid<float> out(in.get_index_range(), org, vx);
        out.fill(777.F);
        VF_CHECK(flt.apply(out, in) == stir::Succeeded::yes, "apply failed");
        VF_CHECK((from_stir<3, float>(out, got, err)), err);
      }
    return Result::pass();
  };
  const double scale = sep_scale(kk, x);
  const Nd ref = separable_ref_all_orders(x, kk, scale);
  Nd got;
  {
    Result r = run_with(*F, got);
    if (r.failed())
      return r;
    r = compare(got, ref, scale, TOL_SEP, "SeparableConvolutionImageFilter vs successive 1-D convolutions", "imagefilter: max err/(prod|k|1 |x|inf)");
    if (r.failed())
      return r;
  }
  // the filter re-created from its own parameter_info() is the same filter (constructor comment: "such that get_parameters() works properly")
  if (how != 1)
    {
      const std::string text = F->parameter_info();
      stir::SeparableConvolutionImageFilter<float> G;
      std::istringstream is(text);
      VF_CHECK(G.parse(is), "cannot parse the filter's own parameter_info():\n", text);
      Nd got2;
      Result r = run_with(G, got2);
      if (r.failed())
        return r;
      r = compare(got2, ref, scale, TOL_SEP, "filter re-created from parameter_info() vs successive 1-D convolutions", "imagefilter: round trip err");
      if (r.failed())
        return Result::fail(r.msg + "\nparameter_info was:\n" + text);
    }
  return Result::pass();
}

} // namespace c19

// Private helpers shared by c07_osmaposl.cxx and c08_ossps.cxx:
//  * generated small geometry + data "from the reference model" (Fixture), explicit sparse P in double
//  * fresh STIR objective functions (fresh matrix / projector pair / normalisation / prior per run)
//  * reference pieces in double: quotient with the documented thresholds of divide_and_truncate
//    (recon_array_functions.cxx), subset back projection, sensitivities, log-likelihood
//  * per-case temporary directory (VERIF_TMP), removed at the end of the case
//  * image filters with and without negative lobes (Gaussian, Metz, separable convolution) and the documented positivity
//    threshold STIR chains behind the inter-update / inter-iteration filters (FilterSpec, apply_filter_reference)
//  * object-reuse histories (History): which objects of a run are fresh and which have already been used, alternative
//    data / additive term / normalisation for a first run on the same objective function (AltData), re-configuration
//    of an objective function through its public setters (configure_objective).
//  * the harness's OWN prior (OwnPrior): gradient and parabolic-surrogate curvature of the quadratic prior / RDP in double,
//    written from the class documentation (c09_ref.h, validated in every C09 run against central differences of its own
//    value), so that the one-step-late clause of C07 and the denominator of C08 do not follow the prior object under test.
//  * file-based stages (SensFiles): stage 1 computes and WRITES the sensitivities ('sensitivity filename' /
//    'subset sensitivity filenames'); stage 2 = NEW objects that READ them with 'recompute sensitivity' off, configured
//    through the setters or through a parsed parameter text; the files themselves are compared with the explicit-P sensitivity.
#pragma once
#include "stir_gen.h"
#include "explicit_p.h"
#include "c09_ref.h"
#include "stir/ProjDataInMemory.h"
#include "stir/ExamInfo.h"
#include "stir/ViewSegmentNumbers.h"
#include "stir/DataSymmetriesForViewSegmentNumbers.h"
#include "stir/recon_buildblock/DataSymmetriesForBins_PET_CartesianGrid.h"
#include "stir/recon_buildblock/ProjMatrixByBinUsingRayTracing.h"
#include "stir/recon_buildblock/ProjectorByBinPairUsingProjMatrixByBin.h"
#include "stir/recon_buildblock/PoissonLogLikelihoodWithLinearModelForMeanAndProjData.h"
#include "stir/recon_buildblock/BinNormalisationFromProjData.h"
#include "stir/recon_buildblock/QuadraticPrior.h"
#include "stir/recon_buildblock/RelativeDifferencePrior.h"
#include "stir/IO/InterfileOutputFileFormat.h"
#include "stir/IO/read_from_file.h"
#include "stir/SeparableGaussianImageFilter.h"
#include "stir/SeparableCartesianMetzImageFilter.h"
#include "stir/SeparableConvolutionImageFilter.h"
#include "stir/recon_buildblock/TrivialBinNormalisation.h"
#include <filesystem>
#include <sstream>
#include <iomanip>
#include <fcntl.h>
#include <algorithm>
#include <unistd.h>

namespace rc7 {
using namespace stir;
using vf::json;
using vf::Src;
using vf::SplitMix;
typedef DiscretisedDensity<3, float> target_type;
typedef PoissonLogLikelihoodWithLinearModelForMeanAndProjData<target_type> objective_type;

inline bool
no_exclude()
{
  static const bool v = std::getenv("VERIF_NO_EXCLUDE") != nullptr && std::string(std::getenv("VERIF_NO_EXCLUDE")) != "0";
  return v;
}

// ---- temporary directory, unique per case, removed at the end of the case --------------------------
struct TmpDir
{
  std::string path;
  explicit TmpDir(const char* tag)
  {
    static long counter = 0;
    const char* base = std::getenv("VERIF_TMP");
    std::string b = base ? std::string(base) : vf::cat("/tmp/verif_", long(getpid()));
    path = vf::cat(b, "/", tag, "_", long(getpid()), "_", ++counter);
    std::filesystem::create_directories(path);
  }
  ~TmpDir()
  {
    std::error_code ec;
    std::filesystem::remove_all(path, ec);
    if (!std::getenv("VERIF_TMP"))
      std::filesystem::remove(vf::cat("/tmp/verif_", long(getpid())), ec); // only succeeds when empty
  }
  TmpDir(const TmpDir&) = delete;
  TmpDir& operator=(const TmpDir&) = delete;
};

// ---- pseudo Poisson sampler (pure function of the generator state) -----------------------------------
inline double
poisson(SplitMix& g, double mean)
{
  if (!(mean > 0))
    return 0.;
  if (mean < 40.)
    {
      const double L = std::exp(-mean);
      double p = 1.;
      long k = 0;
      do
        {
          ++k;
          p *= g.unit();
      } while (p > L && k < 2000);
      return double(k - 1);
    }
  const double u1 = std::max(g.unit(), 1e-300), u2 = g.unit();
  const double z = std::sqrt(-2. * std::log(u1)) * std::cos(6.283185307179586 * u2);
  return std::max(0., std::floor(mean + std::sqrt(mean) * z + 0.5));
}

inline double
vmax_of(const std::vector<double>& v)
{
  double m = 0;
  for (double x : v)
    m = std::max(m, std::fabs(x));
  return m;
}

// ---- the generated world ------------------------------------------------------------------------------
struct Fixture
{
  shared_ptr<Scanner> sc;
  shared_ptr<ProjDataInfo> pdi;
  shared_ptr<VoxelsOnCartesianGrid<float>> image; // geometry template (values: the start image)
  shared_ptr<ExamInfo> exam;
  vp::MatrixOpts mopts;
  bool sym[5];
  int cache = 0;
  vp::ExplicitP P;
  int N = 1;                      // number of subsets
  std::vector<int> subset_of_bin; // subset every bin belongs to
  std::vector<int> vg_of_bin;     // viewgram (segment,view) index of every bin: thresholds are per viewgram
  int num_vg = 0;
  std::vector<int> vg_per_subset; // number of viewgrams in each subset
  bool use_add = false, use_norm = false;
  std::vector<double> y, a, n;    // measured, additive (STIR sense: mean = n (P lambda + a)), efficiencies
  std::vector<double> rowsum;     // P 1
  std::vector<double> sens_total; // P^T n
  std::vector<std::vector<double>> sens_subset;
  std::vector<double> truth, start;
  shared_ptr<ProjDataInMemory> y_pd, a_pd, norm_pd;
  bool header_rounded = false; // the Interfile header rounded voxel size / origin (6 significant digits)
  bool reference_with_case_switches = false; // see choose of the reference matrix in prepare_fixture
  shared_ptr<ProjMatrixByBinUsingRayTracing> symm_matrix; // set-up matrix with the case's symmetry switches (for its symmetries object)

  long nvox() const { return P.nvox(); }
  long nbins() const { return P.nbins(); }
};

//! balancedness by the harness's own count: viewgrams per subset, subset of (segment,view) = subset of its basic one
inline void
assign_subsets(Fixture& F, const DataSymmetriesForViewSegmentNumbers& symm, int N)
{
  const ProjDataInfo& p = *F.pdi;
  F.N = N;
  F.subset_of_bin.assign(std::size_t(F.nbins()), 0);
  F.vg_of_bin.assign(std::size_t(F.nbins()), 0);
  F.vg_per_subset.assign(std::size_t(N), 0);
  const int nviews = p.get_num_views();
  std::vector<int> subset_of_vg(std::size_t(p.get_num_segments()) * nviews, -1);
  for (int s = p.get_min_segment_num(); s <= p.get_max_segment_num(); ++s)
    for (int v = p.get_min_view_num(); v <= p.get_max_view_num(); ++v)
      {
        ViewSegmentNumbers vs(v, s);
        symm.find_basic_view_segment_numbers(vs);
        const int sub = (vs.view_num() - p.get_min_view_num()) % N;
        subset_of_vg[std::size_t(s - p.get_min_segment_num()) * nviews + (v - p.get_min_view_num())] = sub;
        ++F.vg_per_subset[std::size_t(sub)];
      }
  F.num_vg = int(subset_of_vg.size());
  for (long b = 0; b < F.nbins(); ++b)
    {
      const Bin& bin = F.P.bins[std::size_t(b)];
      const int vg = (bin.segment_num() - p.get_min_segment_num()) * nviews + (bin.view_num() - p.get_min_view_num());
      F.vg_of_bin[std::size_t(b)] = vg;
      F.subset_of_bin[std::size_t(b)] = subset_of_vg[std::size_t(vg)];
    }
}

inline bool
balanced(const std::vector<int>& per_subset)
{
  for (int v : per_subset)
    if (v != per_subset[0])
      return false;
  return true;
}

//! number of viewgrams per subset for every N in 1..views (used by the generators to pick N)
inline std::vector<int>
count_per_subset(const ProjDataInfo& p, const DataSymmetriesForViewSegmentNumbers& symm, int N)
{
  std::vector<int> cnt(std::size_t(N), 0);
  for (int s = p.get_min_segment_num(); s <= p.get_max_segment_num(); ++s)
    for (int v = p.get_min_view_num(); v <= p.get_max_view_num(); ++v)
      {
        ViewSegmentNumbers vs(v, s);
        symm.find_basic_view_segment_numbers(vs);
        ++cnt[std::size_t((vs.view_num() - p.get_min_view_num()) % N)];
      }
  return cnt;
}

inline shared_ptr<ProjMatrixByBinUsingRayTracing>
make_case_matrix(const vp::MatrixOpts& o, const bool* sym, int cache)
{
  return vp::make_matrix(o, sym[0], sym[1], sym[2], sym[3], sym[4], cache != 0, cache == 1);
}

//! the harness's own balance count for another number of subsets than the case's (first runs of a history)
inline bool
balanced_number_of_subsets(const Fixture& F, int N)
{
  return N >= 1 && N <= F.pdi->get_num_views() && balanced(count_per_subset(*F.pdi, *F.symm_matrix->get_symmetries_ptr(), N));
}

//! geometry part of the fixture (throws what STIR throws when it rejects the configuration)
inline void
build_geometry(Fixture& F, const json& c, int max_z)
{
  F.sc = vg::make_scanner(c["scanner"]);
  F.pdi = vg::make_pdi(F.sc, c["pdi"]);
  F.image = vg::make_image(c["image"], *F.pdi, max_z);
  F.exam.reset(new ExamInfo(ImagingModality::PT));
  F.image->set_exam_info(*F.exam);
  F.mopts.num_tangential_LORs = c["lors"].get<int>();
  const int sym = c["sym"].get<int>();
  for (int k = 0; k < 5; ++k)
    F.sym[k] = (sym >> k) & 1;
  F.cache = c["cache"].get<int>();
}

inline shared_ptr<OutputFileFormat<target_type>> float_interfile();
inline shared_ptr<target_type> read_image(const Fixture& F, const std::string& header);

//! Interfile headers carry 6 significant digits (DESIGN change log 4): voxel sizes and origin of an image read back from
//! a saved iterate can differ from the original in the 7th digit, which changes filter kernels and matrix elements at the
//! 1e-6..1e-4 level.  That is file-format precision (C10), not a restart defect: the whole case therefore lives on the
//! grid as it comes back from a file (writing it again is idempotent), so that uninterrupted and resumed runs see the
//! same geometry and the restart comparison can stay sharp.
inline void
canonicalise_grid_through_file(Fixture& F, const std::string& dir)
{
  float_interfile()->write_to_file(dir + "/grid", *F.image);
  shared_ptr<target_type> r = read_image(F, dir + "/grid.hv");
  shared_ptr<VoxelsOnCartesianGrid<float>> v = std::dynamic_pointer_cast<VoxelsOnCartesianGrid<float>>(r);
  if (!v)
    error("canonicalise_grid_through_file: not a VoxelsOnCartesianGrid");
  F.header_rounded = v->get_voxel_size() != F.image->get_voxel_size() || v->get_origin() != F.image->get_origin();
  if (v->get_index_range() != F.image->get_index_range())
    error("canonicalise_grid_through_file: index range changed by the file round trip");
  F.image = v;
}

inline shared_ptr<ProjDataInMemory>
to_projdata(const Fixture& F, std::vector<double>& v)
{
  shared_ptr<ProjDataInMemory> pd(new ProjDataInMemory(F.exam, F.pdi));
  F.P.vec_to_projdata(*pd, v);
  v = F.P.projdata_to_vec(*pd); // the float values STIR will see
  return pd;
}

struct DataOpts
{
  double eff_lo = 0.2, eff_hi = 5.; // efficiencies (DESIGN section 3)
  bool force_y_ge_1 = false;        // C08 main class: y >= 1 wherever P 1 > 0
  double start_zero_fraction = 0.;  // fraction of exact zeros in the start image
};

//! explicit P, subsets, data generated FROM the reference model (DESIGN section 3)
inline void
build_data(Fixture& F, const json& c, const DataSymmetriesForViewSegmentNumbers& symm, const DataOpts& o)
{
  // F.P has been assembled by choose_reference_matrix()
  assign_subsets(F, symm, c["subsets"].get<int>());
  const std::size_t nb = std::size_t(F.nbins()), nv = std::size_t(F.nvox());
  F.use_add = c["use_add"].get<bool>();
  F.use_norm = c["use_norm"].get<bool>();
  SplitMix g(c["dseed"].get<uint64_t>());
  // truth: smooth-ish positive image with a few hot voxels
  F.truth.assign(nv, 0.);
  for (auto& v : F.truth)
    v = g.real(0.5, 2.);
  for (int k = 0; k < 3; ++k)
    F.truth[std::size_t(g.range(0, long(nv) - 1))] *= g.real(2., 5.);
  F.rowsum = F.P.forward(std::vector<double>(nv, 1.));
  std::vector<double> pt = F.P.forward(F.truth);
  double mean_pt = 0;
  long cnt = 0;
  for (double v : pt)
    if (v > 0)
      {
        mean_pt += v;
        ++cnt;
      }
  mean_pt = cnt ? mean_pt / double(cnt) : 1.;
  F.n.assign(nb, 1.);
  if (F.use_norm)
    {
      // normalisation factors are stored in a (non-TOF) projection data object; efficiency = 1/factor
      std::vector<double> normf(nb);
      for (auto& v : normf)
        v = 1. / g.real(o.eff_lo, o.eff_hi);
      F.norm_pd = to_projdata(F, normf);
      for (std::size_t b = 0; b < nb; ++b)
        F.n[b] = 1. / normf[b];
    }
  F.a.clear();
  std::vector<double> add(nb, 0.);
  if (F.use_add)
    for (auto& v : add)
      v = mean_pt * g.real(0.05, 0.5);
  // scale so that the largest mean is count_max
  const double count_max = c["count_max"].get<double>();
  double mx = 0;
  for (std::size_t b = 0; b < nb; ++b)
    mx = std::max(mx, F.n[b] * (pt[b] + add[b]));
  const double f = mx > 0 ? count_max / mx : 1.;
  for (auto& v : F.truth)
    v *= f;
  for (auto& v : add)
    v *= f;
  if (F.use_add)
    {
      F.a_pd = to_projdata(F, add);
      F.a = add;
    }
  pt = F.P.forward(F.truth);
  const int ymode = c["ymode"].get<int>(); // 0: Poisson counts, 1: mean x U[0.5,1.5] (strictly positive where the mean is)
  F.y.assign(nb, 0.);
  for (std::size_t b = 0; b < nb; ++b)
    {
      const double mean = F.n[b] * (pt[b] + (F.use_add ? F.a[b] : 0.));
      double yy = 0;
      if (mean > 0)
        {
          yy = ymode == 0 ? poisson(g, mean) : mean * g.real(0.5, 1.5);
          if (ymode == 1)
            yy = std::max(yy, count_max * 1e-3); // stay 3 decades above SMALL_NUM * max
          if (o.force_y_ge_1 && F.rowsum[b] > 0)
            yy = std::max(yy, 1.);
          yy = std::min(yy, 1e5);
        }
      F.y[b] = yy;
    }
  F.y_pd = to_projdata(F, F.y);
  // sensitivities
  F.sens_total.assign(nv, 0.);
  F.sens_subset.assign(std::size_t(F.N), std::vector<double>(nv, 0.));
  for (std::size_t b = 0; b < nb; ++b)
    for (auto& e : F.P.rows[b])
      {
        F.sens_total[std::size_t(e.first)] += e.second * F.n[b];
        F.sens_subset[std::size_t(F.subset_of_bin[b])][std::size_t(e.first)] += e.second * F.n[b];
      }
  // start image: positive, optionally with exact zeros; scale relative to the truth
  const double start_scale = c["start_scale"].get<double>();
  F.start.assign(nv, 0.);
  SplitMix gs(c["dseed"].get<uint64_t>() ^ 0x5bd1e995ULL);
  for (auto& v : F.start)
    {
      v = double(float(f * start_scale * gs.real(0.5, 2.)));
      if (o.start_zero_fraction > 0 && gs.unit() < o.start_zero_fraction)
        v = 0.;
    }
}

inline void
vec_to_image(const Fixture& F, target_type& im, const std::vector<double>& v)
{
  const auto& P = F.P;
  for (int z = P.imin[1]; z <= P.imax[1]; ++z)
    for (int y = P.imin[2]; y <= P.imax[2]; ++y)
      for (int x = P.imin[3]; x <= P.imax[3]; ++x)
        im[z][y][x] = float(v[std::size_t(P.vox_index(z, y, x))]);
}

inline shared_ptr<target_type>
image_from_vec(const Fixture& F, const std::vector<double>& v)
{
  shared_ptr<target_type> im(F.image->get_empty_copy());
  vec_to_image(F, *im, v);
  return im;
}

// ---- priors --------------------------------------------------------------------------------------------
struct PriorSpec
{
  int kind = 0; // 0 none, 1 quadratic, 2 RDP
  float beta = 0;
  bool kappa = false;
  float rdp_gamma = 2, rdp_eps = 0.1F;
  uint64_t kseed = 0;
  // exact zeros in the kappa image (round 4): 0 none; 1 in every voxel that no bin sees (zero column of P, e.g. the corners outside the
  // cylindrical FOV) -- what the usual recipe kappa = sqrt(-approximate Hessian x 1) produces; 2 those and about a fifth of the others
  int kzero = 0;
  // quadratic prior that reports parabolic_surrogate_curvature_depends_on_argument() == true (QuadraticPriorRecompute)
  bool recompute = false;
};

//! A QuadraticPrior (same value, gradient, Hessian and surrogate curvature: nothing else is overridden) that answers the
//! default of PriorWithParabolicSurrogate, "the curvature depends on the argument".  OSSPS then takes its
//! recompute_penalty_term_in_denominator branch (the denominator D0 + 2 x curvature is recomputed at every sub-iteration and
//! the precomputed data part is NOT overwritten); every prior shipped with STIR answers false.  Since the curvature of a
//! quadratic does not depend on the argument, the iterates must be the same numbers in both modes.
class QuadraticPriorRecompute : public QuadraticPrior<float>
{
public:
  QuadraticPriorRecompute(const bool only_2D, float penalisation_factor)
      : QuadraticPrior<float>(only_2D, penalisation_factor)
  {}
  bool parabolic_surrogate_curvature_depends_on_argument() const override { return true; }
};


//! the INPUT kappa image of a prior specification (used by make_prior and, with the same values, by the harness's own reference)
inline shared_ptr<target_type>
make_kappa_image(const Fixture& F, const PriorSpec& s)
{
  shared_ptr<target_type> kappa(F.image->get_empty_copy());
  vg::fill_random(*kappa, s.kseed, 0.5, 2.);
  if (s.kzero != 0)
    {
      std::vector<char> seen(std::size_t(F.P.nvox()), 0);
      for (auto& row : F.P.rows)
        for (auto& e : row)
          if (e.second != 0.)
            seen[std::size_t(e.first)] = 1;
      uint64_t h = s.kseed * 0x9E3779B97F4A7C15ULL + 12345;
      for (int z = F.P.imin[1]; z <= F.P.imax[1]; ++z)
        for (int y = F.P.imin[2]; y <= F.P.imax[2]; ++y)
          for (int x = F.P.imin[3]; x <= F.P.imax[3]; ++x)
            {
              h ^= h << 13;
              h ^= h >> 7;
              h ^= h << 17;
              if (!seen[std::size_t(F.P.vox_index(z, y, x))] || (s.kzero == 2 && h % 5 == 0))
                (*kappa)[z][y][x] = 0.F;
            }
    }
  return kappa;
}

inline shared_ptr<GeneralisedPrior<target_type>>
make_prior(const Fixture& F, const PriorSpec& s)
{
  shared_ptr<GeneralisedPrior<target_type>> res;
  if (s.kind == 0)
    return res;
  shared_ptr<target_type> kappa;
  if (s.kappa)
    kappa = make_kappa_image(F, s);
  if (s.kind == 1)
    {
      shared_ptr<QuadraticPrior<float>> p(s.recompute ? new QuadraticPriorRecompute(false, s.beta) : new QuadraticPrior<float>(false, s.beta));
      if (kappa)
        p->set_kappa_sptr(kappa);
      res = p;
    }
  else
    {
      shared_ptr<RelativeDifferencePrior<float>> p(new RelativeDifferencePrior<float>(false, s.beta, s.rdp_gamma, s.rdp_eps));
      if (kappa)
        p->set_kappa_sptr(kappa);
      res = p;
    }
  return res;
}

// ---- a FRESH objective function (fresh matrix, projector pair, normalisation object, prior) -----------------
inline shared_ptr<objective_type>
make_objective(const Fixture& F, const PriorSpec& ps, bool use_subset_sensitivities)
{
  shared_ptr<objective_type> obj(new objective_type);
  shared_ptr<ProjMatrixByBin> m = make_case_matrix(F.mopts, F.sym, F.cache);
  shared_ptr<ProjectorByBinPair> pair(new ProjectorByBinPairUsingProjMatrixByBin(m));
  obj->set_proj_data_sptr(F.y_pd);
  obj->set_projector_pair_sptr(pair);
  obj->set_use_subset_sensitivities(use_subset_sensitivities);
  obj->set_recompute_sensitivity(true);
  if (F.use_add)
    obj->set_additive_proj_data_sptr(F.a_pd);
  if (F.use_norm)
    obj->set_normalisation_sptr(shared_ptr<BinNormalisation>(new BinNormalisationFromProjData(F.norm_pd)));
  if (ps.kind != 0)
    obj->set_prior_sptr(make_prior(F, ps));
  return obj;
}

// ---- the harness's own prior (documentation formulas, double) ----------------------------------------------------
//! QuadraticPrior.h / RelativeDifferencePrior.h document
//!   gradient_r  = beta sum_dr w_dr psi'(lambda_r, lambda_{r+dr}) kappa_r kappa_{r+dr}
//!   (quadratic: psi' = lambda_r - lambda_{r+dr};  RDP: d/dx of (x-y)^2 / (x + y + gamma |x-y| + epsilon))
//!   curvature_r = beta sum_dr w_dr kappa_r kappa_{r+dr}      (quadratic: "the sum of weighting coefficients")
//! summed over the neighbours r+dr inside the image; default weights = x-voxel size / Euclidean distance on 3x3x3.
//! c09::PairRef implements exactly this (the voxel order of c09::Grid::idx and vp::ExplicitP::vox_index is the same:
//! (z * ny + y) * nx + x, zero based).
struct OwnPrior
{
  bool on = false;
  c09::PairRef<double> ref;
  std::vector<double> gradient(const std::vector<double>& lam) const
  {
    std::vector<double> g;
    ref.gradient(lam, g);
    return g;
  }
  std::vector<double> curvature(const std::vector<double>& lam) const
  {
    std::vector<double> cv;
    ref.curvature(lam, cv);
    return cv;
  }
};

inline OwnPrior
make_own_prior(const Fixture& F, const PriorSpec& s)
{
  OwnPrior o;
  if (s.kind == 0)
    return o;
  o.on = true;
  c09::Grid& g = o.ref.g;
  g.nz = F.P.nz;
  g.ny = F.P.ny;
  g.nx = F.P.nx;
  g.oz = F.P.imin[1];
  g.oy = F.P.imin[2];
  g.ox = F.P.imin[3];
  const CartesianCoordinate3D<float> vs = F.image->get_voxel_size();
  g.vz = vs.z();
  g.vy = vs.y();
  g.vx = vs.x();
  o.ref.w = c09::default_weights(g, false); // make_prior constructs with only_2D = false and sets no weights
  o.ref.beta = double(s.beta);
  o.ref.pot.kind = s.kind == 1 ? c09::QUAD : c09::RDP;
  o.ref.pot.gamma = double(s.rdp_gamma);
  o.ref.pot.eps = double(s.rdp_eps);
  if (s.kappa)
    {
      // the INPUT kappa image of the case (same seed as make_prior), as the float values the prior object sees
      const shared_ptr<target_type> kappa = make_kappa_image(F, s);
      o.ref.kap = F.P.image_to_vec(*kappa);
    }
  return o;
}

//! statistic only: largest difference between a quantity of the prior OBJECT and the harness's own, relative to the maximum
inline void
prior_object_statistic(const char* key, const std::vector<double>& object_value, const std::vector<double>& own)
{
  double mx = 0, d = 0;
  for (std::size_t v = 0; v < own.size(); ++v)
    {
      mx = std::max(mx, std::fabs(own[v]));
      d = std::max(d, std::fabs(own[v] - object_value[v]));
    }
  if (mx > 0)
    vf::stats().maxi(key, d / mx);
}

// ---- file-based stages: sensitivities written by one stage and read by NEW objects of a later stage -------------------
// files = 0: off; 1: stage 2 configured through the setters (set_sensitivity_filename / set_subsensitivity_filenames,
// set_recompute_sensitivity(false)), image read by the harness and passed to set_up()/reconstruct(target);
// 2: stage 2 configured through parsed parameter texts ('sensitivity filename' / 'subset sensitivity filenames' /
// 'recompute sensitivity' / 'use_subset_sensitivities' on the objective function; 'initial estimate', 'start at
// subiteration number', ... on the reconstruction object) and run through the zero-argument reconstruct(), which reads the
// initial estimate itself - the route of the command-line executables.
struct SensFiles
{
  std::string total;   // 'sensitivity filename' (use_subset_sensitivities off)
  std::string pattern; // 'subset sensitivity filenames' (boost::format pattern, use_subset_sensitivities on)
  explicit SensFiles(const std::string& dir)
      : total(dir + "/sens.hv"),
        pattern(dir + "/subsens_%d.hv")
  {}
  std::string subset_file(int S) const
  {
    std::string r = pattern;
    const std::size_t p = r.find("%d");
    return r.substr(0, p) + std::to_string(S) + r.substr(p + 2);
  }
};

//! stage 1: the objective function computes its sensitivities (recompute sensitivity on, as make_objective sets it) and,
//! because a file name is set, writes them (PoissonLogLikelihoodWithLinearModelForMean::set_up, "write to file")
inline void
set_sensitivity_files_for_writing(objective_type& obj, const SensFiles& sf, bool use_subset_sensitivities)
{
  if (use_subset_sensitivities)
    obj.set_subsensitivity_filenames(sf.pattern);
  else
    obj.set_sensitivity_filename(sf.total);
  obj.set_recompute_sensitivity(true);
}

//! stage 2: a FRESH objective function that reads the sensitivities written by stage 1
inline shared_ptr<objective_type>
make_objective_reading_sensitivities(const Fixture& F, const PriorSpec& ps, bool use_subset_sensitivities, const SensFiles& sf, int files)
{
  shared_ptr<objective_type> obj(new objective_type);
  if (files == 2)
    {
      // parse first (as C05 does for its parsed-only key): ParsingObject::parse does not reset the other members, and the
      // class's post_processing only acts on file names that are set ('input file' empty, 'additive sinogram' "0")
      std::stringstream par;
      par << "PoissonLogLikelihoodWithLinearModelForMeanAndProjData Parameters:=\n"
          << "use_subset_sensitivities := " << (use_subset_sensitivities ? 1 : 0) << "\n"
          << "recompute sensitivity := 0\n";
      if (use_subset_sensitivities)
        par << "subset sensitivity filenames := " << sf.pattern << "\n";
      else
        par << "sensitivity filename := " << sf.total << "\n";
      par << "End PoissonLogLikelihoodWithLinearModelForMeanAndProjData Parameters:=\n";
      if (!obj->parse(par))
        error("harness: parsing the sensitivity keywords of the objective function failed");
    }
  shared_ptr<ProjMatrixByBin> m = make_case_matrix(F.mopts, F.sym, F.cache);
  shared_ptr<ProjectorByBinPair> pair(new ProjectorByBinPairUsingProjMatrixByBin(m));
  obj->set_proj_data_sptr(F.y_pd);
  obj->set_projector_pair_sptr(pair);
  if (files != 2)
    {
      obj->set_use_subset_sensitivities(use_subset_sensitivities);
      if (use_subset_sensitivities)
        obj->set_subsensitivity_filenames(sf.pattern);
      else
        obj->set_sensitivity_filename(sf.total);
      obj->set_recompute_sensitivity(false);
    }
  if (F.use_add)
    obj->set_additive_proj_data_sptr(F.a_pd);
  if (F.use_norm)
    obj->set_normalisation_sptr(shared_ptr<BinNormalisation>(new BinNormalisationFromProjData(F.norm_pd)));
  if (ps.kind != 0)
    obj->set_prior_sptr(make_prior(F, ps));
  return obj;
}

//! The sensitivity files themselves, read back with read_from_file: 'sensitivity filename' holds the TOTAL sensitivity
//! P^T n (PoissonLogLikelihoodWithLinearModelForMean.h, get/set_sensitivity_filename: "filename to read (or write) the total
//! sensitivity"; a reader divides it by the number of subsets itself, set_total_or_subset_sensitivities), file S of 'subset
//! sensitivity filenames' ("filename pattern to read (or write) the subset sensitivities", formatted with the subset number)
//! holds P_S^T n.
//! Tolerance (relative to the maximum of the compared sensitivity image): a float back projection of float efficiencies over
//! up to ~1e4 bins against double; observed maxima see REPORT / DESIGN (calibration over seeds 1-5 of both quick tiers);
//! asserted 2e-4, the base tolerance of the EM clause.  A file that holds s/N, another subset's sensitivity (other views: a
//! different footprint on the grid and other efficiencies) or the sum of several is off by O(1e-2..1).
inline vf::Result
check_sensitivity_files(const Fixture& F, const SensFiles& sf, bool use_subset_sensitivities, int N, const std::string& ctx)
{
  const int nfiles = use_subset_sensitivities ? N : 1;
  for (int S = 0; S < nfiles; ++S)
    {
      const std::string name = use_subset_sensitivities ? sf.subset_file(S) : sf.total;
      shared_ptr<target_type> im;
      try
        {
          im = stir::read_from_file<target_type>(name);
        }
      catch (const std::exception& e)
        {
          return vf::Result::fail(vf::cat("the sensitivity file ", name, " that set_up should have written cannot be read: ", e.what(), " ", ctx));
        }
      std::string explanation;
      VF_CHECK(im->has_same_characteristics(*F.image, explanation), "the sensitivity file has another geometry than the target: ", explanation, " ", ctx);
      const std::vector<double> got = F.P.image_to_vec(*im);
      const std::vector<double>& want = use_subset_sensitivities ? F.sens_subset[std::size_t(S)] : F.sens_total;
      const double scale = vmax_of(want);
      double worst = 0;
      std::size_t where = 0;
      for (std::size_t v = 0; v < want.size(); ++v)
        if (!(std::fabs(got[v] - want[v]) <= worst))
          {
            worst = std::fabs(got[v] - want[v]);
            where = v;
          }
      if (scale > 0)
        vf::stats().maxi(use_subset_sensitivities ? "max rel err subset sensitivity FILE vs explicit P" : "max rel err total sensitivity FILE vs explicit P", worst / scale);
      VF_CHECK(worst <= 2e-4 * scale, use_subset_sensitivities ? vf::cat("file ", S, " of 'subset sensitivity filenames' is not the sensitivity of subset ", S, " of ", N)
                                                                 : vf::cat("the file 'sensitivity filename' is not the total sensitivity (N=", N, ")"),
               ": |diff|=", worst, " at voxel ", where, " (file ", got[where], ", explicit P ", want[where], "), scale ", scale, " ", ctx);
    }
  vf::stats().count(use_subset_sensitivities ? "subset sensitivity files compared with the explicit-P sensitivity" : "total sensitivity files compared with the explicit-P sensitivity",
                    nfiles);
  return vf::Result::pass();
}

// ---- object-reuse histories ----------------------------------------------------------------------------------
// hist = 0: every run of the case uses FRESH objects (the original harness)
//        1: every interruption point is resumed on the SAME reconstruction object (same objective function, projectors,
//           normalisation, prior, filters): set_start_subiteration_num(k+1); set_up(saved image); reconstruct(saved image)
//        2: the checked run is the SECOND run of its reconstruction object: a first run with other settings (cfg0), then
//           every parameter is changed through the public setters, set_up, reconstruct
//        3: the objective function of the checked run has been used before by a reconstruction object of the OTHER
//           algorithm (OSSPS before OSMAPOSL in C07, OSMAPOSL before OSSPS in C08)
// In 2 and 3 an additional run with fresh objects (B0) must reproduce every iterate of the checked run (rel 1e-6), and the
// checked run is compared with the explicit formula like any other; resumes then also use the same object.
enum
{
  HIST_FRESH = 0,
  HIST_SAME_OBJECT_RESUME = 1,
  HIST_SECOND_RUN = 2,
  HIST_SHARED_OBJECTIVE = 3
};

inline const char*
hist_name(int h)
{
  switch (h)
    {
    case HIST_FRESH:
      return "fresh objects for every run";
    case HIST_SAME_OBJECT_RESUME:
      return "resumed on the same reconstruction object";
    case HIST_SECOND_RUN:
      return "second run of the same reconstruction object after changing its parameters through the setters";
    default:
      return "objective function used before by a reconstruction object of the other algorithm";
    }
}

//! other measured data / additive term / normalisation factors on the same geometry, for a FIRST run whose results are
//! not asserted (only the second run on the same objects is)
struct AltData
{
  shared_ptr<ProjDataInMemory> y_pd, a_pd, norm_pd;
};

inline AltData
make_alt_data(const Fixture& F, uint64_t seed)
{
  AltData A;
  SplitMix g(seed ^ 0x7f4a7c15ULL);
  const std::size_t nb = std::size_t(F.nbins());
  const double ymax = std::max(1., vmax_of(F.y));
  std::vector<double> y(nb), a(nb), nf(nb);
  for (std::size_t b = 0; b < nb; ++b)
    {
      y[b] = F.rowsum[b] > 0 ? std::floor(1. + g.unit() * ymax) : 0.;
      a[b] = ymax * g.real(0.02, 0.3);
      nf[b] = 1. / g.real(0.5, 2.);
    }
  A.y_pd = to_projdata(F, y);
  A.a_pd = to_projdata(F, a);
  A.norm_pd = to_projdata(F, nf);
  return A;
}

//! configuration of an objective function; add/norm: 0 none, 1 the case's, 2 the alternative one
struct ObjSpec
{
  PriorSpec prior;
  bool use_subsens = true;
  int data = 0; // 0 the case's measured data, 1 the alternative
  int add = 0;
  int norm = 0;
};

inline ObjSpec
final_objspec(const Fixture& F, const PriorSpec& ps, bool use_subset_sensitivities)
{
  ObjSpec o;
  o.prior = ps;
  o.use_subsens = use_subset_sensitivities;
  o.add = F.use_add ? 1 : 0;
  o.norm = F.use_norm ? 1 : 0;
  return o;
}

inline shared_ptr<BinNormalisation>
make_norm(const Fixture& F, const AltData& alt, int which)
{
  if (which == 0) // what the objective function has by default (set_defaults)
    return shared_ptr<BinNormalisation>(new TrivialBinNormalisation);
  return shared_ptr<BinNormalisation>(new BinNormalisationFromProjData(which == 1 ? F.norm_pd : alt.norm_pd));
}

//! a FRESH objective function with an arbitrary specification (same calls as make_objective)
inline shared_ptr<objective_type>
make_objective_spec(const Fixture& F, const ObjSpec& o, const AltData& alt)
{
  shared_ptr<objective_type> obj(new objective_type);
  shared_ptr<ProjMatrixByBin> m = make_case_matrix(F.mopts, F.sym, F.cache);
  shared_ptr<ProjectorByBinPair> pair(new ProjectorByBinPairUsingProjMatrixByBin(m));
  obj->set_proj_data_sptr(o.data == 0 ? F.y_pd : alt.y_pd);
  obj->set_projector_pair_sptr(pair);
  obj->set_use_subset_sensitivities(o.use_subsens);
  obj->set_recompute_sensitivity(true);
  if (o.add != 0)
    obj->set_additive_proj_data_sptr(o.add == 1 ? F.a_pd : alt.a_pd);
  if (o.norm != 0)
    obj->set_normalisation_sptr(make_norm(F, alt, o.norm));
  if (o.prior.kind != 0)
    obj->set_prior_sptr(make_prior(F, o.prior));
  return obj;
}

//! changes an objective function that has been set up and used from `from` to `to` through its public setters only
//! (everything that differs; the projector pair, and whatever does not differ, stays the same object)
inline void
reconfigure_objective(objective_type& obj, const Fixture& F, const ObjSpec& from, const ObjSpec& to, const AltData& alt)
{
  if (from.data != to.data)
    obj.set_proj_data_sptr(to.data == 0 ? F.y_pd : alt.y_pd);
  if (from.add != to.add)
    // no additive term = a null pointer, the state after set_defaults()
    obj.set_additive_proj_data_sptr(to.add == 0 ? shared_ptr<ExamData>() : shared_ptr<ExamData>(to.add == 1 ? F.a_pd : alt.a_pd));
  if (from.norm != to.norm)
    obj.set_normalisation_sptr(make_norm(F, alt, to.norm));
  if (from.use_subsens != to.use_subsens)
    obj.set_use_subset_sensitivities(to.use_subsens);
  const bool same_prior_object = from.prior.kind == to.prior.kind && from.prior.kind != 0 && from.prior.kappa == to.prior.kappa
                                 && from.prior.recompute == to.prior.recompute && from.prior.rdp_gamma == to.prior.rdp_gamma && from.prior.rdp_eps == to.prior.rdp_eps;
  if (same_prior_object)
    {
      if (from.prior.beta != to.prior.beta)
        obj.get_prior_ptr()->set_penalisation_factor(to.prior.beta);
    }
  else if (from.prior.kind != 0 || to.prior.kind != 0)
    obj.set_prior_sptr(make_prior(F, to.prior)); // null for "no prior"
}

// ---- reference pieces in double --------------------------------------------------------------------------
struct RefFlags
{
  bool cap_active = false; // the documented quotient cap (max_quotient 1e4) was applied somewhere
  bool ambiguous = false;  // a value sits within the rounding band of a documented threshold: formula not asserted
};

//! q_b = y_b / den_b with the documented behaviour of divide_and_truncate (recon_array_functions.cxx):
//! per viewgram, numerators <= SMALL_NUM*max(numerator) count as 0; quotients are capped at 1e4 (also for den <= 0)
inline std::vector<double>
quotient(const Fixture& F, const std::vector<double>& num, const std::vector<double>& den, RefFlags& fl)
{
  const std::size_t nb = num.size();
  std::vector<double> maxnum(std::size_t(F.num_vg), 0.);
  for (std::size_t b = 0; b < nb; ++b)
    maxnum[std::size_t(F.vg_of_bin[b])] = std::max(maxnum[std::size_t(F.vg_of_bin[b])], num[b]);
  std::vector<double> q(nb, 0.);
  for (std::size_t b = 0; b < nb; ++b)
    {
      const double small_value = std::max(maxnum[std::size_t(F.vg_of_bin[b])] * 1e-6, 0.);
      const double nu = num[b];
      if (small_value > 0 && nu > 0.5 * small_value && nu < 2. * small_value)
        fl.ambiguous = true;
      if (nu <= small_value)
        continue;
      const double cap = 1e4 * den[b];
      if (std::fabs(nu - cap) <= 1e-3 * std::fabs(nu))
        fl.ambiguous = true;
      if (nu > cap)
        {
          q[b] = 1e4;
          fl.cap_active = true;
        }
      else
        q[b] = nu / den[b];
    }
  return q;
}

inline std::vector<double>
back_subset(const Fixture& F, const std::vector<double>& q, int S)
{
  std::vector<double> x(std::size_t(F.nvox()), 0.);
  for (std::size_t b = 0; b < q.size(); ++b)
    {
      if (S >= 0 && F.subset_of_bin[b] != S)
        continue;
      if (q[b] == 0.)
        continue;
      for (auto& e : F.P.rows[b])
        x[std::size_t(e.first)] += e.second * q[b];
    }
  return x;
}

//! P lambda + a
inline std::vector<double>
model_den(const Fixture& F, const std::vector<double>& lam)
{
  std::vector<double> d = F.P.forward(lam);
  if (F.use_add)
    for (std::size_t b = 0; b < d.size(); ++b)
      d[b] += F.a[b];
  return d;
}

//! Poisson log-likelihood sum_b y ln(ybar) - ybar, ybar = n (P lambda + a)
inline double
loglik(const Fixture& F, const std::vector<double>& lam)
{
  const std::vector<double> d = model_den(F, lam);
  double L = 0;
  for (std::size_t b = 0; b < d.size(); ++b)
    {
      const double yb = F.n[b] * d[b];
      if (F.y[b] > 0)
        L += F.y[b] * std::log(yb) - yb;
      else
        L -= yb;
    }
  return L;
}

inline std::vector<double>
image_vec(const Fixture& F, const target_type& im)
{
  return F.P.image_to_vec(im);
}

inline shared_ptr<target_type>
read_image(const Fixture& F, const std::string& header)
{
  shared_ptr<target_type> im(stir::read_from_file<target_type>(header));
  // as IterativeReconstruction::get_initial_data_ptr() does for an initial estimate read from file
  im->set_exam_info(*F.exam);
  return im;
}

inline shared_ptr<OutputFileFormat<target_type>>
float_interfile()
{
  shared_ptr<OutputFileFormat<target_type>> f(new InterfileOutputFileFormat(NumericType::FLOAT, ByteOrder::native));
  return f;
}

inline shared_ptr<DataProcessor<target_type>>
gaussian_filter(float fwhm_xy, float fwhm_z)
{
  shared_ptr<SeparableGaussianImageFilter<float>> f(new SeparableGaussianImageFilter<float>);
  f->set_fwhms(make_coordinate(fwhm_z, fwhm_xy, fwhm_xy));
  f->set_max_kernel_sizes(make_coordinate(5, 5, 5));
  return f;
}

// ---- image filters for the inter-update / inter-iteration filter slots ---------------------------------------------
//! stdout silencer: SeparableMetzArrayFilter's constructor printf()s every kernel element (SeparableMetzArrayFilter.cxx:75)
struct StdoutSilencer
{
  int saved = -1;
  explicit StdoutSilencer(bool active = true)
  {
    if (!active)
      return;
    std::cout.flush();
    fflush(stdout);
    saved = dup(1);
    const int nul = open("/dev/null", O_WRONLY);
    if (nul >= 0)
      {
        dup2(nul, 1);
        close(nul);
      }
  }
  ~StdoutSilencer()
  {
    if (saved < 0)
      return;
    fflush(stdout);
    dup2(saved, 1);
    close(saved);
  }
  StdoutSilencer(const StdoutSilencer&) = delete;
  StdoutSilencer& operator=(const StdoutSilencer&) = delete;
};

struct FilterSpec
{
  int kind = 0;     // 0 none, 1 separable Gaussian, 2 separable Cartesian Metz, 3 separable convolution
  int interval = 0; // sub-iteration interval; 0 = off (the library's default)
  float fwhm = 0;   // mm, x and y
  float fwhm_z = 0; // mm (Metz: 0 = no filtering along z)
  int power = 0;    // Metz power (all filtered directions)
  int max_kernel = 5;
  int kernel = 0; // separable convolution: index into conv_kernel()
  bool z = false; // separable convolution: also along z
  bool on() const { return kind != 0 && interval > 0; }
  bool negative_lobes() const { return (kind == 2 && power > 0) || (kind == 3 && kernel != 2); }
};

//! kernels of the separable convolution filter (documented convention of SeparableConvolutionImageFilter: the central
//! element of an odd-length list is element 0); all but number 2 have negative lobes (edge enhancing, sum 1)
inline std::vector<float>
conv_kernel(int i)
{
  switch (((i % 5) + 5) % 5)
    {
    case 0:
      return { -0.2F, 1.4F, -0.2F };
    case 1:
      return { -0.5F, 2.F, -0.5F };
    case 2:
      return { 0.25F, 0.5F, 0.25F };
    case 3:
      return { -0.1F, -0.15F, 1.5F, -0.15F, -0.1F };
    default:
      return { -0.4F, 1.4F, 0.F }; // asymmetric
    }
}

//! JSON form: {"kind","interval","fwhm_rel","z","power","max_kernel","kernel"}; fwhm relative to the x (z) voxel size
inline FilterSpec
decode_filter(const json& j, const Fixture& F)
{
  FilterSpec f;
  if (!j.is_object())
    return f;
  f.kind = j.value("kind", 0);
  f.interval = j.value("interval", 0);
  const double rel = j.value("fwhm_rel", 1.5);
  f.z = j.value("z", false);
  f.fwhm = float(rel) * F.image->get_voxel_size().x();
  // legacy Gaussian of this harness: the x/y width (in mm) in all three directions
  f.fwhm_z = f.kind == 1 ? f.fwhm : (f.z ? float(rel) * F.image->get_voxel_size().z() : 0.F);
  f.power = j.value("power", 0);
  f.max_kernel = j.value("max_kernel", 5);
  f.kernel = j.value("kernel", 0);
  if (f.kind == 0)
    f.interval = 0;
  return f;
}

inline json
gen_filter(Src& s, int max_interval)
{
  json j;
  // Gaussian (non-negative kernel) 1/4, Metz with power 1..3 (negative lobes) 3/8, separable convolution 3/8
  const int r = int(s.range(0, 7));
  j["kind"] = r < 2 ? 1 : (r < 5 ? 2 : 3);
  j["interval"] = s.chance(1, 3) ? 1 : int(s.range(1, std::max(2, max_interval)));
  j["fwhm_rel"] = s.pick(std::vector<double>{ 0.8, 1.5, 2.5 });
  j["z"] = s.coin();
  j["power"] = int(s.range(1, 3));
  j["max_kernel"] = s.pick(std::vector<int>{ 5, 7, 9 });
  j["kernel"] = int(s.range(0, 4));
  return j;
}

inline std::string
fmt17(double v)
{
  std::ostringstream s;
  s << std::setprecision(17) << v;
  return s.str();
}

//! a FRESH filter object (null for kind 0)
inline shared_ptr<DataProcessor<target_type>>
make_filter(const FilterSpec& f)
{
  shared_ptr<DataProcessor<target_type>> res;
  if (f.kind == 1)
    {
      shared_ptr<SeparableGaussianImageFilter<float>> g(new SeparableGaussianImageFilter<float>);
      g->set_fwhms(make_coordinate(f.fwhm_z, f.fwhm, f.fwhm));
      g->set_max_kernel_sizes(make_coordinate(5, 5, 5));
      res = g;
    }
  else if (f.kind == 2)
    {
      // SeparableCartesianMetzImageFilter has no setters: its parameters are keywords of the parser
      shared_ptr<SeparableCartesianMetzImageFilter<float>> m(new SeparableCartesianMetzImageFilter<float>);
      std::stringstream par;
      par << "Separable Cartesian Metz Filter Parameters :=\n"
          << "x-dir filter FWHM (in mm) := " << fmt17(double(f.fwhm)) << "\n"
          << "y-dir filter FWHM (in mm) := " << fmt17(double(f.fwhm)) << "\n"
          << "z-dir filter FWHM (in mm) := " << fmt17(double(f.fwhm_z)) << "\n"
          << "x-dir filter Metz power := " << f.power << "\n"
          << "y-dir filter Metz power := " << f.power << "\n"
          << "z-dir filter Metz power := " << f.power << "\n"
          << "x-dir maximum kernel size := " << f.max_kernel << "\n"
          << "y-dir maximum kernel size := " << f.max_kernel << "\n"
          << "z-dir maximum kernel size := " << f.max_kernel << "\n"
          << "END Separable Cartesian Metz Filter Parameters :=\n";
      if (!m->parse(par))
        error("harness: parsing the Metz filter parameters failed");
      res = m;
    }
  else if (f.kind == 3)
    {
      const std::vector<float> kv = conv_kernel(f.kernel);
      const int half = int(kv.size()) / 2;
      VectorWithOffset<float> k1(-half, half);
      for (int i = -half; i <= half; ++i)
        k1[i] = kv[std::size_t(i + half)];
      VectorWithOffset<VectorWithOffset<float>> all(3); // first element = first index (z)
      all[0] = f.z ? k1 : VectorWithOffset<float>(); // a list of length 0 is documented as "no filtering"
      all[1] = k1;
      all[2] = k1;
      res.reset(new SeparableConvolutionImageFilter<float>(all));
    }
  return res;
}

//! STIR's threshold_min_to_small_positive_value (thresholding.h) as documented: values below (smallest positive value x
//! small_number) are set to it; an image without positive values is filled with small_number.  Float arithmetic as there.
inline std::vector<double>
threshold_small_positive(const std::vector<double>& v, float small_number, bool& changed)
{
  changed = false;
  float minpos = 0;
  for (double x : v)
    if (x > 0 && (minpos == 0 || float(x) < minpos))
      minpos = float(x);
  std::vector<double> out = v;
  if (minpos > 0)
    {
      const float thr = minpos * small_number;
      for (auto& x : out)
        if (float(x) < thr)
          {
            x = double(thr);
            changed = true;
          }
    }
  else
    {
      for (auto& x : out)
        x = double(small_number);
      changed = true;
    }
  return out;
}

struct Filtered
{
  std::vector<double> image; // after the filter and the documented positivity threshold
  double min_before_threshold = 0;
  bool threshold_active = false;
};

//! What OSMAPOSL documents for its inter-update and inter-iteration filters (OSMAPOSLReconstruction::set_up, "ensure that
//! the result image of the filter is positive"): the filter chained with ThresholdMinToSmallPositiveValueDataProcessor
//! (small number 1e-6).  Computed with a FRESH, separately constructed filter object applied to the float image (the filter
//! classes themselves are C19's subject).
inline Filtered
apply_filter_reference(const Fixture& F, const FilterSpec& f, const std::vector<double>& v)
{
  shared_ptr<target_type> im = image_from_vec(F, v);
  {
    StdoutSilencer quiet(f.kind == 2);
    shared_ptr<DataProcessor<target_type>> flt = make_filter(f);
    if (flt->apply(*im) != Succeeded::yes)
      error("harness: reference filter could not be applied");
  }
  Filtered r;
  const std::vector<double> raw = F.P.image_to_vec(*im);
  r.min_before_threshold = *std::min_element(raw.begin(), raw.end());
  r.image = threshold_small_positive(raw, 0.000001F, r.threshold_active);
  return r;
}

//! l1 norm of the filter's impulse response at the central voxel: bound of the amplification of an input error
inline double
filter_gain(const Fixture& F, const FilterSpec& f)
{
  std::vector<double> d(std::size_t(F.nvox()), 0.);
  const auto& P = F.P;
  d[std::size_t(P.vox_index((P.imin[1] + P.imax[1]) / 2, (P.imin[2] + P.imax[2]) / 2, (P.imin[3] + P.imax[3]) / 2))] = 1.;
  shared_ptr<target_type> im = image_from_vec(F, d);
  StdoutSilencer quiet(f.kind == 2);
  make_filter(f)->apply(*im);
  double g = 0;
  for (double x : F.P.image_to_vec(*im))
    g += std::fabs(x);
  return g;
}

inline double
vmax(const std::vector<double>& v)
{
  double m = 0;
  for (double x : v)
    m = std::max(m, std::fabs(x));
  return m;
}

//! triage aid: forward projection of `lam` with a FRESH projector pair configured as in the case (symmetries, cache)
//! against the explicit matrix; returns the maximal difference relative to the maximal projection and describes the bin
inline double
projector_vs_explicit(const Fixture& F, const std::vector<double>& lam, std::string& where)
{
  shared_ptr<ProjMatrixByBin> m = make_case_matrix(F.mopts, F.sym, F.cache);
  ProjectorByBinPairUsingProjMatrixByBin pair(m);
  pair.set_up(F.pdi, F.image);
  ProjDataInMemory out(F.exam, F.pdi);
  shared_ptr<target_type> im(F.image->get_empty_copy());
  const auto& P = F.P;
  for (int z = P.imin[1]; z <= P.imax[1]; ++z)
    for (int y = P.imin[2]; y <= P.imax[2]; ++y)
      for (int x = P.imin[3]; x <= P.imax[3]; ++x)
        (*im)[z][y][x] = float(lam[std::size_t(P.vox_index(z, y, x))]);
  pair.get_forward_projector_sptr()->forward_project(out, *im);
  const std::vector<double> got = F.P.projdata_to_vec(out);
  const std::vector<double> want = F.P.forward(lam);
  const double scale = vmax(want);
  double worst = 0;
  for (std::size_t b = 0; b < want.size(); ++b)
    {
      const double d = std::fabs(got[b] - want[b]);
      if (d > worst)
        {
          worst = d;
          const Bin& bin = F.P.bins[b];
          where = vf::cat("bin(seg ", bin.segment_num(), ", ax ", bin.axial_pos_num(), ", view ", bin.view_num(), ", tang ", bin.tangential_pos_num(),
                          "): projector ", got[b], " explicit ", want[b]);
        }
    }
  double res = scale > 0 ? worst / scale : worst;
  // and the back projection of the (positive) measured data
  {
    shared_ptr<target_type> bim(F.image->get_empty_copy());
    pair.get_back_projector_sptr()->back_project(*bim, *F.y_pd);
    const std::vector<double> bgot = F.P.image_to_vec(*bim);
    const std::vector<double> bwant = F.P.back(F.y);
    const double bscale = vmax(bwant);
    double bworst = 0;
    std::size_t bw = 0;
    for (std::size_t v = 0; v < bwant.size(); ++v)
      if (std::fabs(bgot[v] - bwant[v]) > bworst)
        {
          bworst = std::fabs(bgot[v] - bwant[v]);
          bw = v;
        }
    const double bres = bscale > 0 ? bworst / bscale : bworst;
    if (bres > res)
      {
        res = bres;
        where = vf::cat("voxel ", bw, " of the back projection of the data: projector ", bgot[bw], " explicit ", bwant[bw]);
      }
  }
  return res;
}

//! The reference matrix of a case.
//! Primary reference: the explicit matrix assembled row by row from a FRESH symmetry-free, cache-free matrix
//! (explicit_p.h).  Ray tracing has rounding ties (a LOR end point exactly on a voxel boundary, grazing intersections of
//! ~1e-7 voxel): then a row derived through a symmetry operation and the directly computed row differ in which voxel is
//! entered first/last - a class the C03 property text screens out, not a defect.  The EM update is ill-conditioned
//! w.r.t. such elements (a voxel seen only through a negligible element gets an O(1) update ratio), so for these
//! geometries the reference is assembled, again row by row into a sparse matrix used in double precision, from a second
//! FRESH cache-free matrix object with the symmetry switches of the case (what C04 does).  Which one was used is a
//! labelled class.  Rows are compared element by element: same sparsity pattern and every element within 1e-4 RELATIVE
//! (so also the negligible ones, including stored zeros) -> symmetry-free reference.
inline vp::ExplicitP
explicit_from_matrix(const Fixture& F, ProjMatrixByBin& m)
{
  vp::ExplicitP P;
  P.pdi = F.pdi;
  P.image = F.image;
  F.image->get_regular_range(P.imin, P.imax);
  P.nz = P.imax[1] - P.imin[1] + 1;
  P.ny = P.imax[2] - P.imin[2] + 1;
  P.nx = P.imax[3] - P.imin[3] + 1;
  vp::ExplicitP::enumerate_bins(*F.pdi, P.bins);
  P.rows.resize(P.bins.size());
  ProjMatrixElemsForOneBin row;
  for (std::size_t i = 0; i < P.bins.size(); ++i)
    {
      m.get_proj_matrix_elems_for_one_bin(row, P.bins[i]);
      P.rows[i] = vp::ExplicitP::clip_row(P, row, &P.num_clipped);
    }
  return P;
}

inline bool
same_rows(const vp::ExplicitP& A, const vp::ExplicitP& B)
{
  double mx = 0;
  for (auto& r : A.rows)
    for (auto& e : r)
      mx = std::max(mx, e.second);
  for (std::size_t b = 0; b < A.rows.size(); ++b)
    {
      std::vector<std::pair<long, double>> ra = A.rows[b], rb = B.rows[b];
      std::sort(ra.begin(), ra.end());
      std::sort(rb.begin(), rb.end());
      if (ra.size() != rb.size())
        return false;
      for (std::size_t i = 0; i < ra.size(); ++i)
        {
          // element-wise RELATIVE agreement: the EM ratio and the exact-zero tests (sensitivity == 0) are sensitive to
          // negligible elements (a voxel seen only through a 1e-7 intersection), so these must agree as well
          if (ra[i].first != rb[i].first)
            return false;
          const double big = std::max(std::fabs(ra[i].second), std::fabs(rb[i].second));
          if (std::fabs(ra[i].second - rb[i].second) > 1e-4 * big)
            return false;
        }
    }
  return true;
}

//! Builds the fixture of a case.  Returns "" or the reason why STIR rejects the geometry.
//! `proj_note` is a triage aid (not an oracle): set when the projector of the case (symmetries, cache) does not
//! reproduce the reference matrix in a forward and a back projection.
inline std::string
prepare_fixture(const json& c, json& cc, Fixture& F, const std::string& tmpdir, int max_z, const DataOpts& dopt, std::string& proj_note)
{
  cc = c;
  F = Fixture();
  try
    {
      build_geometry(F, cc, max_z);
      canonicalise_grid_through_file(F, tmpdir);
      shared_ptr<ProjMatrixByBinUsingRayTracing> symm_matrix = make_case_matrix(F.mopts, F.sym, 0);
      symm_matrix->set_up(F.pdi, F.image);
      F.symm_matrix = symm_matrix;
      F.P = vp::ExplicitP::build(F.pdi, F.image, F.mopts);
      F.reference_with_case_switches = false;
      if (cc["sym"].get<int>() != 0)
        {
          vp::ExplicitP Ps = explicit_from_matrix(F, *symm_matrix);
          if (!same_rows(F.P, Ps))
            {
              F.P = Ps;
              F.reference_with_case_switches = true;
            }
        }
      build_data(F, cc, *symm_matrix->get_symmetries_ptr(), dopt);
    }
  catch (const stir_verif::AssertionFailure&)
    {
      throw;
    }
  catch (const std::exception& e)
    {
      return std::string("geometry rejected: ") + e.what();
    }
  if (vmax(F.y) == 0)
    return "no counts at all (image outside the FOV of every bin)";
  std::string where;
  const double d = projector_vs_explicit(F, F.truth, where);
  vf::stats().maxi("max rel diff projector of the case vs reference matrix (forward and back projection)", d);
  proj_note.clear();
  if (d > 1e-4)
    proj_note = vf::cat(" [NOTE: the projector with symmetry switches ", cc["sym"].get<int>(), " / cache ", F.cache,
                        " differs from the reference matrix by ", d, " of the maximum at ", where, ": system-matrix matter (C03/C04)]");
  return "";
}

//! common geometry generator for C07/C08 (non-TOF, no tilt: budget; TOF sensitivities are C05's subject)
inline void
gen_geometry(Src& s, int size, json& c)
{
  vg::ScannerOpts so;
  so.max_ndet = size < 40 ? 16 : (size < 75 ? 32 : 48);
  so.max_rings = size < 40 ? 2 : 4;
  so.allow_tof = false;
  so.allow_tilt = false;
  c["scanner"] = vg::gen_scanner(s, so);
  // bias (not a restriction): most cases get >= 16 detectors per ring, half of them a multiple of 8 (all view symmetries
  // possible, several balanced numbers of subsets)
  const bool want8 = s.coin();
  for (int tries = 0; tries < 6; ++tries)
    {
      const int ndet = c["scanner"]["ndet"].get<int>();
      if (ndet >= 16 && (!want8 || ndet % 8 == 0))
        break;
      c["scanner"] = vg::gen_scanner(s, so);
    }
  shared_ptr<Scanner> sc = vg::make_scanner(c["scanner"]);
  vg::PdiOpts po;
  po.max_span = 5;
  c["pdi"] = vg::gen_pdi(s, *sc, po);
  c["pdi"]["arccorr"] = false;
  if (s.chance(2, 3))
    c["pdi"]["views"] = c["scanner"]["ndet"].get<int>() / 2; // mostly no view mashing
  vg::ImageOpts io;
  io.max_xy = size < 40 ? 9 : 15;
  c["image"] = vg::gen_image(s, io);
  c["lors"] = int(s.range(1, 2));
  c["sym"] = int(s.chance(1, 3) ? 31 : (s.chance(1, 2) ? 0 : s.range(0, 31)));
  c["cache"] = int(s.range(0, 2));
  c["dseed"] = s.seed64();
}

//! all numbers of subsets (1..views) that pass the harness's own balance count, for the symmetries of the case
inline std::vector<int>
balanced_subsets(const json& c, int max_z, std::vector<int>* all_counts_ok = nullptr)
{
  Fixture F;
  build_geometry(F, c, max_z);
  shared_ptr<ProjMatrixByBinUsingRayTracing> m = make_case_matrix(F.mopts, F.sym, 0);
  m->set_up(F.pdi, F.image);
  std::vector<int> res;
  const int views = F.pdi->get_num_views();
  for (int N = 1; N <= views; ++N)
    if (balanced(count_per_subset(*F.pdi, *m->get_symmetries_ptr(), N)))
      res.push_back(N);
  return res;
}

} // namespace rc7

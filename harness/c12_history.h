// Object histories for the ProjDataInfo properties C12 and C01 (shared by c12_bin_coords.cxx and c01_detpairs.cxx).
//
// Both properties quantify over "every data sampling"; a ProjDataInfo with a given sampling can be reached in two ways:
// directly (construct_proj_data_info with the final parameters) or through a HISTORY: another object is built, USED (so that the
// lazily built look-up tables exist: the Michelogram tables of ProjDataInfoCylindrical, the (view,tang)<->(det1,det2) tables of
// ProjDataInfoCylindricalNoArcCorr / ProjDataInfoGenericNoArcCorr, the TOF boundary tables) and then cloned and/or changed with the
// public setters or with SSRB(ProjDataInfo&,...).  The classes document that the tables are "invalidated" by the setters
// (ProjDataInfoCylindrical.h:288-299) and clone() is the "virtual copy-constructor" (ProjDataInfo.h:145); nothing in the
// documentation makes the answers of an object depend on how its parameters were reached.
//
// A history is part of the Case:
//   c["pdi"]   the FINAL sampling F (as before: parameters of construct_proj_data_info + "trim")
//   c["hist"]  { "src": parameters of the SOURCE object (no trim), "ops": [ ... ] }     (absent: fresh object, as before)
// derive() builds the source, applies the ops and finally the trim of F.  gen_history() chooses source and ops such that the result
// has exactly the sampling F, hence (iii) the derived object must equal the fresh twin (operator==) and answer every question of
// the two properties identically (diff_twin), and all clauses of the property run on the derived object.
//
// Domain restrictions (each from the documentation / an error() of STIR):
//  * SSRB(ProjDataInfo&,...): "This function can only handle in_proj_data_info where all segments have identical
//    'num_segments_to_combine'" (SSRB.h) and it warns for "non-identical axial compression for all segments": segments are
//    combined (num_segments_to_combine > 1) only for odd spans whose max ring difference is aligned with the span (every segment
//    complete); num_segments_to_combine is odd (error() otherwise); SSRB "can only mash views when min_view_num==0" (always the
//    case here); the result has min_axial_pos_num 0 and the full symmetric tangential range (trim of F is applied afterwards);
//    new TOF mashing factor = old x num_tof_bins_to_combine must leave an odd number of TOF bins (ProjDataInfo::set_tof_mash_factor
//    error()): only odd factors are generated.  SSRB is not used for blocks/generic data (ProjDataInfoGeneric::set_num_views
//    "currently calls error() unless nothing changes", axial sampling "TODOBLOCK").
//  * ProjDataInfoCylindrical::set_num_views: "does not change the azimutal_angle_offset ... you might have to call
//    set_azimuthal_angle_offset() as well" (ProjDataInfoCylindrical.h:120-128): the setter route always does, with the value the
//    constructor documents ((view_mashing-1)/2 unmashed views, ProjDataInfoCylindrical.cxx:83-90).
//  * reduce_segment_range: "the new range has to be 'smaller' than the old one" (ProjDataInfo.h:169).
//  * perturbations (a setter is called with another value, the object is used, the old value is set again): the intermediate
//    object may be one that STIR rejects (e.g. "the axial positions do not correspond to the usual locations between physical
//    rings"): exceptions in the intermediate use are tolerated and counted; nothing is demanded of the intermediate object except
//    the documented "axial positions are always centred" of get_m (ProjDataInfoCylindrical.h:85-87) when no exception occurred.
//  * the VectorWithOffset::grow assertion that fires when set_tof_mash_factor SHRINKS the TOF boundary tables is assertion-only
//    (DESIGN.md 11.2, former C15-F1): exactly that call is repeated with assertions off.
//
// ALIASING clauses (section (iv) below).  clone() is documented as the "virtual copy-constructor" (ProjDataInfo.h:145), SSRB(ProjDataInfo&,..)
// takes its input by const reference and ProjDataInfoSubsetByView takes a shared_ptr<const ProjDataInfo>: a copy and its original are
// two objects, and nothing documents that a setter called on one of them (or a lazy table rebuilt by one of them) may change the
// answers of the other.  The classes can nevertheless share state, because clone() is the implicit copy constructor and some members
// are pointers: ProjDataInfo::scanner_ptr (shared_ptr<Scanner>), the shared_ptr<RingNumPairs> elements of
// ProjDataInfoCylindrical::segment_axial_pos_to_ring_pair (the ring-pair lists of the Michelogram), and
// ProjDataInfoSubsetByView::org_proj_data_info_sptr.  (The (view,tang)<->(det1,det2) tables, m_offset, ax_pos_num_offset,
// ring_diff_to_segment_num and the TOF boundary tables are held by value.)  A history can therefore carry, besides the ops above:
//    "keep": id   on a clone / shared_clone / non_tof_clone / ssrb op: the ORIGINAL (the object the op copies from) is kept alive
//    "fork"       a side copy of the current object is made (clone, create_shared_clone, copy constructor of the concrete class,
//                 copy assignment over another used object, create_non_tof_clone, ProjDataInfoSubsetByView of it) and kept
//    "side"       a side copy B of the current object is made, optionally copied again (C, kept: the chain A -> B -> C), then B is
//                 changed with one setter (never restored) and used
//    "subset_side" a ProjDataInfoSubsetByView of the current object is made and used, CLONED, the clone is changed with one of the
//                 setters the class overrides and used; the first subset is kept
//    "recheck"    a kept object (or "cur", the current object) is compared on the whole API (diff_twin / diff_subset) with a fresh
//                 twin of ITS OWN settings: a never used, never copied object on its own Scanner object, built from the source
//                 parameters and the settings-changing ops that had been executed when the object was kept
// Every kept object is re-checked again after the object under test got its final parameters and was used by all clauses of the
// property (recheck_all), then the object under test is compared once more with its fresh twin (the re-checks of the kept objects
// rebuild THEIR lazy tables), and the Scanner object of the history must still be the scanner it was constructed as.
// Forks and side copies are only generated at points where the current object has no perturbation pending (a perturbed object may be
// one that STIR rejects when it is used); re-checks of kept objects are generated anywhere, in particular while the current object is
// perturbed and used.
#pragma once
#include "stir_gen.h"
#include "stir/ProjDataInfoCylindrical.h"
#include "stir/ProjDataInfoCylindricalNoArcCorr.h"
#include "stir/ProjDataInfoCylindricalArcCorr.h"
#include "stir/ProjDataInfoGenericNoArcCorr.h"
#include "stir/ProjDataInfoBlocksOnCylindricalNoArcCorr.h"
#include "stir/ProjDataInfoSubsetByView.h"
#include "stir/SSRB.h"
#include "stir/LORCoordinates.h"
#include "stir/DetectionPositionPair.h"
#include <cstring>
#include <algorithm>
#include <typeinfo>
#include <map>
#include <cstdlib>

namespace vh {
using namespace vf;
using namespace stir;

struct AssertsOff
{
  AssertsOff() { stir_verif::asserts_on = false; }
  ~AssertsOff() { stir_verif::asserts_on = true; }
};

inline bool
is_grow_shrinks_assertion(const stir_verif::AssertionFailure& e)
{
  return std::strstr(e.what(), "min_index <= this->get_min_index()") != nullptr;
}

//! the trim of a pdi spec, applied to an existing object: the same calls in the same order as vg::make_pdi
inline void
apply_trim(ProjDataInfo& p, const json& trim)
{
  if (!trim.contains("max_seg"))
    return;
  const int ms = std::min(trim["max_seg"].get<int>(), p.get_max_segment_num());
  const int mins = trim.contains("min_seg") ? std::max(trim["min_seg"].get<int>(), p.get_min_segment_num()) : -ms;
  p.reduce_segment_range(mins, ms);
  const int cut = trim["tang_cut"].get<int>();
  if (cut > 0 && p.get_num_tangential_poss() > 2 * cut + 1)
    {
      p.set_min_tangential_pos_num(p.get_min_tangential_pos_num() + cut);
      p.set_max_tangential_pos_num(p.get_max_tangential_pos_num() - cut);
    }
}

// ---- (i) using an object so that its lazy tables get built -----------------------------------------------------------------
// mask bits:  1 Michelogram tables (get_m, get_all_ring_pairs_for_segment_axial_pos_num, get_segment_axial_pos_num_for_ring_pair:
//               initialise_ring_diff_arrays_if_not_done_yet)
//             2 (view,tang)->(det1,det2) table (get_all_det_pos_pairs_for_bin, get_det_pos_pair_for_bin:
//               initialise_uncompressed_view_tangpos_to_det1det2_if_not_done_yet)
//             4 (det1,det2)->(view,tang) table (get_bin_for_det_pos_pair: initialise_det1det2_to_uncompressed_view_tangpos_if_not_done_yet)
//             8 get_bin(get_LOR()) (NoArcCorr: the same table through get_bin_for_det_pair; ArcCorr/Generic: their own code)
//            16 find_cartesian_coordinates_of_detection / find_bin_given_cartesian_coordinates_of_detection (NoArcCorr, uncompressed)
inline void
warm(const ProjDataInfo& p, int mask)
{
  const int seg = (p.get_min_segment_num() <= 0 && p.get_max_segment_num() >= 0) ? 0 : p.get_min_segment_num();
  const int ax = (p.get_min_axial_pos_num(seg) + p.get_max_axial_pos_num(seg)) / 2;
  const int t = (p.get_min_tangential_pos_num() <= 0 && p.get_max_tangential_pos_num() >= 0) ? 0 : p.get_min_tangential_pos_num();
  const Bin b0(seg, p.get_min_view_num(), ax, t, 0, 1.f);
  const Scanner& sc = *p.get_scanner_ptr();
  const int ndet = sc.get_num_detectors_per_ring();
  const ProjDataInfoCylindrical* cyl = dynamic_cast<const ProjDataInfoCylindrical*>(&p);
  const ProjDataInfoCylindricalNoArcCorr* noarc = dynamic_cast<const ProjDataInfoCylindricalNoArcCorr*>(&p);
  const ProjDataInfoGenericNoArcCorr* gen = dynamic_cast<const ProjDataInfoGenericNoArcCorr*>(&p);
  volatile float sink = 0;
  // ProjDataInfoGeneric::get_LOR (hence get_m/get_s/...) "currently restricted to span=1": get_ring_pair_for_segment_axial_pos_num
  // calls error() for data with axial compression (ProjDataInfoCylindrical.cxx:341)
  const bool lor_ok = !gen || (cyl && cyl->get_min_ring_difference(seg) == cyl->get_max_ring_difference(seg));
  if ((mask & 1) && cyl)
    {
      if (lor_ok)
        sink = p.get_m(b0);
      sink = float(cyl->get_all_ring_pairs_for_segment_axial_pos_num(seg, ax).size());
      int s, a;
      cyl->get_segment_axial_pos_num_for_ring_pair(s, a, 0, 0);
    }
  std::vector<DetectionPositionPair<>> dps;
  const bool uncompressed = cyl && cyl->get_view_mashing_factor() == 1 && cyl->get_min_ring_difference(seg) == cyl->get_max_ring_difference(seg);
  if (mask & 2)
    {
      if (noarc)
        {
          noarc->get_all_det_pos_pairs_for_bin(dps, b0, true);
          if (uncompressed)
            {
              DetectionPositionPair<> dp;
              noarc->get_det_pos_pair_for_bin(dp, b0);
            }
        }
      if (gen)
        gen->get_all_det_pos_pairs_for_bin(dps, b0);
    }
  if (mask & 4)
    {
      Bin b;
      const DetectionPositionPair<> dp(DetectionPosition<>(0, 0), DetectionPosition<>(ndet / 2, 0), 0);
      if (noarc)
        noarc->get_bin_for_det_pos_pair(b, dp);
      if (gen)
        gen->get_bin_for_det_pos_pair(b, dp);
    }
  if ((mask & 8) && lor_ok)
    {
      LORInAxialAndNoArcCorrSinogramCoordinates<float> lor;
      p.get_LOR(lor, b0);
      if (gen)
        { // (known finding C12-F4: the generic get_bin only takes LORAs2Points)
          LORAs2Points<float> lor2;
          if (lor.get_intersections_with_cylinder(lor2, lor.radius()) == Succeeded::yes)
            sink = p.get_bin(lor2, 0.).get_bin_value();
        }
      else
        sink = p.get_bin(lor, 0.).get_bin_value();
    }
  if ((mask & 16) && noarc && uncompressed)
    {
      CartesianCoordinate3D<float> c1, c2;
      noarc->find_cartesian_coordinates_of_detection(c1, c2, b0);
      Bin b;
      noarc->find_bin_given_cartesian_coordinates_of_detection(b, c1, c2);
    }
  (void)sink;
}

//! documented for ProjDataInfoCylindrical::get_m: get_m(min_axial_pos_num) == -get_m(max_axial_pos_num)
inline Result
centred(const ProjDataInfo& p, const char* when)
{
  const ProjDataInfoCylindrical* cyl = dynamic_cast<const ProjDataInfoCylindrical*>(&p);
  if (!cyl || dynamic_cast<const ProjDataInfoGeneric*>(&p))
    return Result::pass();
  for (int seg = p.get_min_segment_num(); seg <= p.get_max_segment_num(); ++seg)
    {
      if (p.get_num_axial_poss(seg) < 1)
        continue; // (a perturbation can leave an empty axial range: nothing to centre)
      const double lo = p.get_m(Bin(seg, 0, p.get_min_axial_pos_num(seg), 0)), hi = p.get_m(Bin(seg, 0, p.get_max_axial_pos_num(seg), 0));
      const double unit = std::fabs(double(cyl->get_axial_sampling(seg)));
      VF_CHECK(std::fabs(lo + hi) <= 1e-4 * unit * (1 + p.get_num_axial_poss(seg)), "history (", when, "): get_m is not centred in segment ", seg, ": get_m(min)=",
               lo, " get_m(max)=", hi, " (documented: get_m(min_axial_pos_num) == -get_m(max_axial_pos_num))");
    }
  return Result::pass();
}

inline float
expected_azimuthal_offset(const Scanner& sc, int num_views)
{
  // ProjDataInfoCylindrical.cxx:68-91: intrinsic tilt + (view_mashing-1)/2 unmashed view steps
  float off = sc.get_intrinsic_azimuthal_tilt();
  const int ndet = sc.get_num_detectors_per_ring();
  if (ndet > 2 && num_views * 2 != ndet && ndet % (num_views * 2) == 0)
    {
      const int mash = ndet / 2 / num_views;
      off += static_cast<float>(_PI / (ndet / 2) * (mash - 1) / 2.F);
    }
  return off;
}

#define VH_TRY(expr)                                                                                                             \
  do                                                                                                                             \
    {                                                                                                                            \
      const ::vf::Result vh_r_ = (expr);                                                                                         \
      if (vh_r_.failed())                                                                                                        \
        return vh_r_;                                                                                                            \
    }                                                                                                                            \
  while (0)

//! calls f(); if the assertion of VectorWithOffset::grow about a shrinking range fires, repeats the call with assertions off
template <class F>
inline void
with_tof_tables_allowed_to_shrink(F f)
{
  try
    {
      f();
    }
  catch (const stir_verif::AssertionFailure& e)
    {
      if (!is_grow_shrinks_assertion(e))
        throw;
      stats().count("history: set_tof_mash_factor repeated with assertions off (grow() assertion for a shrinking TOF table)");
      AssertsOff guard;
      f();
    }
}

// ---- copies of an object (every way the public interface offers) ----------------------------------------------------------------
template <class T>
inline bool
try_copy_construct(shared_ptr<ProjDataInfo>& out, const ProjDataInfo& p)
{
  if (typeid(p) != typeid(T))
    return false;
  out.reset(new T(static_cast<const T&>(p)));
  return true;
}
//! the (implicit, public) copy constructor of the concrete class
inline shared_ptr<ProjDataInfo>
copy_construct(const ProjDataInfo& p)
{
  shared_ptr<ProjDataInfo> out;
  if (try_copy_construct<ProjDataInfoCylindricalNoArcCorr>(out, p) || try_copy_construct<ProjDataInfoCylindricalArcCorr>(out, p)
      || try_copy_construct<ProjDataInfoBlocksOnCylindricalNoArcCorr>(out, p) || try_copy_construct<ProjDataInfoGenericNoArcCorr>(out, p)
      || try_copy_construct<ProjDataInfoSubsetByView>(out, p))
    return out;
  return p.create_shared_clone();
}
template <class T>
inline bool
try_assign(ProjDataInfo& to, const ProjDataInfo& from)
{
  if (typeid(to) != typeid(T) || typeid(from) != typeid(T))
    return false;
  static_cast<T&>(to) = static_cast<const T&>(from);
  return true;
}
//! the (implicit, public) copy assignment of the concrete class; false if the two objects are not of the same concrete class
inline bool
copy_assign(ProjDataInfo& to, const ProjDataInfo& from)
{
  return try_assign<ProjDataInfoCylindricalNoArcCorr>(to, from) || try_assign<ProjDataInfoCylindricalArcCorr>(to, from)
         || try_assign<ProjDataInfoBlocksOnCylindricalNoArcCorr>(to, from) || try_assign<ProjDataInfoGenericNoArcCorr>(to, from);
}

struct DiffOpts
{
  int ax_stride = 1, view_stride = 1, tang_stride = 1, ring_stride = 1, det_stride = 1;
  bool all_pairs = true; // get_bin_for_det_pos_pair on all detector pairs x (all_pairs ? strided ring pairs : 4 ring pairs) x all TOF indices
  bool coords = true;    // get_s/get_m/get_tantheta/get_phi/get_LOR/get_bin (C12); C01 is about the detector-pair and ring-pair maps only
};

// ---- (iv) aliasing: objects that are kept while their copy / original is changed and used -----------------------------------------
struct Kept
{
  std::string id;               //!< label in the Case
  std::string how;              //!< how the object came to be kept (for the message)
  std::size_t at = 0;           //!< number of ops of the history executed before; the twin has the settings of that prefix
  shared_ptr<ProjDataInfo> obj; //!< the kept object (for subsets: the ProjDataInfoSubsetByView)
  bool subset = false;
  std::vector<int> views; //!< subsets: the original view numbers
  bool non_tof = false;   //!< made by create_non_tof_clone: the twin is the non-TOF version of the prefix's settings
  int rechecks = 0;
};
struct Alias
{
  json scanner_spec;   //!< every twin gets its own Scanner object built from this
  json arc_bin_size;   //!< as for derive()
  const json* hist = nullptr;
  DiffOpts opts;       //!< what the re-checks at the end of the case compare
  DiffOpts light;      //!< what the re-checks inside the history compare (the same functions on a coarser set of bins / detector pairs)
  std::vector<Kept> kept;
  std::vector<shared_ptr<ProjDataInfo>> held; //!< changed side copies that stay alive until the end of the case
  std::map<std::string, int> tof_saved;       //!< TOF mashing factors remembered by perturbations without "f0"
};

//! the same comparison on every 3rd axial position / view / tangential position (odd strides: both parities are visited; the last
//! index of a range is always included, see strided_list) and a coarser set of first detectors.  The ring-pair tables, the ring
//! pair -> (segment, axial position) map, the ranges, operator== and the TOF tables are always compared completely.
inline DiffOpts
lighter(const DiffOpts& o)
{
  DiffOpts l = o;
  l.ax_stride = 2 * o.ax_stride + 1;
  l.view_stride = 2 * o.view_stride + 1;
  l.tang_stride = 2 * o.tang_stride + 1;
  l.det_stride = 3 * o.det_stride;
  l.ring_stride = o.ring_stride + 1;
  return l;
}
//! options of the aliasing re-checks for a differential with options o: scanners with at most 32 detectors per ring and 4 rings
//! are compared as completely as the object under test; larger ones on coarser sets (end of the case: lighter, inside the history:
//! lighter twice)
inline void
set_alias_opts(Alias& al, const DiffOpts& o, const Scanner& sc)
{
  const bool small = sc.get_num_detectors_per_ring() <= 32 && sc.get_num_rings() <= 4;
  al.opts = small ? o : lighter(o);
  al.light = small ? lighter(o) : lighter(lighter(o));
}

inline Result derive(shared_ptr<ProjDataInfo>& cur, const shared_ptr<Scanner>& sc, const json& hist, const json& final_trim, const json& arc_bin_size,
                     Alias* al = nullptr);
inline Result diff_twin(const ProjDataInfo& d, const ProjDataInfo& f, const DiffOpts& o);
inline Result diff_subset(const ProjDataInfoSubsetByView& sub, const ProjDataInfo& f, const std::vector<int>& views, const DiffOpts& o);

inline bool
op_changes_settings(const std::string& what)
{
  return what == "ssrb" || what == "set_num_views" || what == "reduce_segment_range" || what == "set_num_tangential_poss" || what == "set_min_tang"
         || what == "set_max_tang" || what == "set_tof_mash_factor" || what == "non_tof_clone" || what == "perturb" || what == "restore";
}

//! a fresh twin with the settings the current object of the history had after `upto` ops: its own Scanner object, the source
//! parameters, then only the ops that change settings (no use, no copy): nothing of it was ever shared with another object
inline shared_ptr<ProjDataInfo>
build_twin(const Alias& al, std::size_t upto)
{
  json h;
  h["src"] = (*al.hist)["src"];
  h["ops"] = json::array();
  const json& ops = (*al.hist)["ops"];
  for (std::size_t i = 0; i < upto && i < ops.size(); ++i)
    {
      const std::string what = ops[i]["op"];
      if (!op_changes_settings(what))
        continue;
      json o = ops[i];
      o.erase("keep");
      if (what == "perturb" || what == "restore")
        o["use"] = 0;
      h["ops"].push_back(o);
    }
  shared_ptr<Scanner> sc2 = vg::make_scanner(al.scanner_spec);
  shared_ptr<ProjDataInfo> t;
  const Result r = derive(t, sc2, h, json::object(), al.arc_bin_size, nullptr);
  if (r.failed())
    throw std::logic_error("harness: twin replay failed: " + r.msg);
  return t;
}

inline Result
recheck_kept(Alias& al, Kept& k, const std::string& when, bool light)
{
  const DiffOpts& o = light ? al.light : al.opts;
  shared_ptr<ProjDataInfo> twin = build_twin(al, k.at);
  if (k.non_tof)
    twin = twin->create_non_tof_clone();
  const Result r = k.subset ? diff_subset(dynamic_cast<const ProjDataInfoSubsetByView&>(*k.obj), *twin, k.views, o) : diff_twin(*k.obj, *twin, o);
  ++k.rechecks;
  stats().count("aliasing: re-checks of a kept object against a fresh twin of its own settings");
  if (r.failed())
    return Result::fail(cat("ALIASING: object '", k.id, "' (", k.how, ", kept when ", k.at, " ops of the history had been executed) no longer answers like a fresh twin of "
                            "its own settings ", when, " :: ", r.msg));
  return Result::pass();
}

//! all kept objects once more (call it after the object under test got its final parameters and was used by all clauses)
inline Result
recheck_all(Alias& al)
{
  for (Kept& k : al.kept)
    {
      const Result r = recheck_kept(al, k, "at the end of the case (after the object under test was used by all clauses)", false);
      if (r.failed())
        return r;
    }
  return Result::pass();
}

//! the Scanner object a history worked on must still be the scanner it was constructed as (no ProjDataInfo function documents
//! that it changes the Scanner it was given)
inline Result
scanner_unchanged(const Scanner& used, const json& scanner_spec)
{
  shared_ptr<Scanner> ref = vg::make_scanner(scanner_spec);
  VF_CHECK(used == *ref, "ALIASING: the Scanner object that the objects of the history share is no longer equal (operator==) to a fresh Scanner with the parameters it "
                         "was constructed with\n now: ",
           used.parameter_info(), "\n fresh: ", ref->parameter_info());
  VF_CHECK(used.parameter_info() == ref->parameter_info(), "ALIASING: the Scanner object that the objects of the history share reports other parameters than a fresh Scanner "
                                                           "with the parameters it was constructed with\n now: ",
           used.parameter_info(), "\n fresh: ", ref->parameter_info());
  VF_CHECK(used.get_ring_spacing() == ref->get_ring_spacing() && used.get_num_rings() == ref->get_num_rings()
               && used.get_num_detectors_per_ring() == ref->get_num_detectors_per_ring() && used.get_inner_ring_radius() == ref->get_inner_ring_radius()
               && used.get_average_depth_of_interaction() == ref->get_average_depth_of_interaction()
               && used.get_intrinsic_azimuthal_tilt() == ref->get_intrinsic_azimuthal_tilt() && used.get_default_bin_size() == ref->get_default_bin_size()
               && used.get_max_num_non_arccorrected_bins() == ref->get_max_num_non_arccorrected_bins(),
           "ALIASING: a geometry parameter of the shared Scanner object changed");
  return Result::pass();
}

//! uses a ProjDataInfoSubsetByView (coordinates, LOR, get_bin of a few bins of every segment)
inline void
use_subset(const ProjDataInfo& p)
{
  volatile float sink = 0;
  for (int seg = p.get_min_segment_num(); seg <= p.get_max_segment_num(); ++seg)
    for (int ax : { p.get_min_axial_pos_num(seg), (p.get_min_axial_pos_num(seg) + p.get_max_axial_pos_num(seg)) / 2, p.get_max_axial_pos_num(seg) })
      {
        if (ax < p.get_min_axial_pos_num(seg) || ax > p.get_max_axial_pos_num(seg))
          continue;
        const Bin b(seg, p.get_min_view_num(), ax, (p.get_min_tangential_pos_num() + p.get_max_tangential_pos_num()) / 2, 0, 1.f);
        sink = p.get_m(b) + p.get_s(b) + p.get_phi(b) + p.get_tantheta(b) + p.get_sampling_in_m(b);
        LORInAxialAndNoArcCorrSinogramCoordinates<float> lor;
        p.get_LOR(lor, b);
        LORAs2Points<float> lor2;
        if (lor.get_intersections_with_cylinder(lor2, lor.radius()) == Succeeded::yes)
          sink = p.get_bin(lor2, 0.).get_bin_value();
      }
  (void)sink;
}

//! one setter call: "perturb" (sgn=+1) sets another value of parameter op["par"], "restore" (sgn=-1) undoes exactly that change
inline void
apply_perturbation(ProjDataInfo& p, const Scanner& sc, const json& op, int sgn, std::map<std::string, int>& tof_saved)
{
  ProjDataInfoCylindrical* cyl = dynamic_cast<ProjDataInfoCylindrical*>(&p);
  const bool is_generic = dynamic_cast<ProjDataInfoGeneric*>(&p) != nullptr;
  const std::string par = op["par"];
  const int seg = std::max(p.get_min_segment_num(), std::min(p.get_max_segment_num(), op.value("seg", 0)));
  const int d = sgn * op.value("delta", 1);
  if (par == "min_axial")
    p.set_min_axial_pos_num(p.get_min_axial_pos_num(seg) + d, seg);
  else if (par == "max_axial")
    p.set_max_axial_pos_num(p.get_max_axial_pos_num(seg) + d, seg);
  else if (par == "num_axial")
    { // (resets min_axial_pos_num to 0 in every segment, which is what the constructors and SSRB produce)
      VectorWithOffset<int> n(p.get_min_segment_num(), p.get_max_segment_num());
      for (int s = n.get_min_index(); s <= n.get_max_index(); ++s)
        n[s] = p.get_num_axial_poss(s) + (s == seg ? d : 0);
      p.set_num_axial_poss_per_segment(n);
    }
  else if (par == "min_tang")
    p.set_min_tangential_pos_num(p.get_min_tangential_pos_num() + d);
  else if (par == "max_tang")
    p.set_max_tangential_pos_num(p.get_max_tangential_pos_num() + d);
  else if (par == "segs")
    { // (side copies only, never restored) reduce_segment_range: "the new range has to be 'smaller' than the old one"
      int lo = p.get_min_segment_num(), hi = p.get_max_segment_num();
      if (hi - lo >= 1)
        {
          if (d > 0 || std::abs(d) == 2)
            ++lo;
          if ((d < 0 || std::abs(d) == 2) && hi > lo)
            --hi;
          p.reduce_segment_range(lo, hi);
        }
    }
  else if (cyl && par == "min_ring_diff")
    cyl->set_min_ring_difference(cyl->get_min_ring_difference(seg) + d, seg);
  else if (cyl && par == "max_ring_diff")
    cyl->set_max_ring_difference(cyl->get_max_ring_difference(seg) + d, seg);
  else if (cyl && par == "ring_spacing")
    { // factor 2^d: exactly invertible in float
      cyl->set_ring_spacing(std::ldexp(cyl->ProjDataInfoCylindrical::get_ring_spacing(), d));
    }
  else if (cyl && par == "az_sampling" && !is_generic)
    cyl->set_azimuthal_angle_sampling(std::ldexp(cyl->ProjDataInfoCylindrical::get_azimuthal_angle_sampling(), d));
  else if (cyl && par == "az_offset" && !is_generic)
    { // (+-0.25 rad, then the value the constructor documents is set again: float addition is not exactly invertible)
      if (sgn > 0)
        cyl->set_azimuthal_angle_offset(cyl->ProjDataInfoCylindrical::get_azimuthal_angle_offset() + 0.25F * d);
      else
        cyl->set_azimuthal_angle_offset(expected_azimuthal_offset(sc, p.get_num_views()));
    }
  else if (par == "tang_sampling")
    {
      if (auto a = dynamic_cast<ProjDataInfoCylindricalArcCorr*>(&p))
        a->set_tangential_sampling(std::ldexp(a->get_tangential_sampling(), d));
    }
  else if (par == "tof_mash")
    { // perturb: another legal factor ("f"), restore: the factor of before ("f0", or the one remembered by the perturbation)
      const std::string key = op.value("slot", std::string("-"));
      int f;
      if (sgn > 0)
        {
          tof_saved[key] = p.get_tof_mash_factor();
          f = op["f"].get<int>();
        }
      else
        f = op.contains("f0") ? op["f0"].get<int>() : (tof_saved.count(key) ? tof_saved[key] : p.get_tof_mash_factor());
      with_tof_tables_allowed_to_shrink([&]() { p.set_tof_mash_factor(f); });
    }
}

inline shared_ptr<ProjDataInfo>
make_copy(const shared_ptr<ProjDataInfo>& from, const std::string& how, const json& op, Alias& al)
{
  if (how == "shared_clone")
    return from->create_shared_clone();
  if (how == "copy")
    return copy_construct(*from);
  if (how == "non_tof_clone")
    return from->create_non_tof_clone();
  if (how == "assign" && op.contains("other"))
    { // another object of the same class with (in general) other parameters on its own Scanner object is built and used, then
      // overwritten by copy assignment
      shared_ptr<ProjDataInfo> other;
      try
        {
          other = vg::make_pdi(vg::make_scanner(al.scanner_spec), op["other"]);
          warm(*other, 31);
        }
      catch (const std::exception&)
        {
          other.reset();
        }
      if (other && copy_assign(*other, *from))
        return other;
    }
  return shared_ptr<ProjDataInfo>(from->clone());
}

inline std::vector<int>
subset_views(const json& op, int num_views)
{
  const int ns = std::max(1, std::min(op.value("num_subsets", 1), num_views));
  const int first = op.value("subset", 0) % ns;
  std::vector<int> views;
  for (int v = first; v < num_views; v += ns)
    views.push_back(v);
  return views;
}

// ---- (ii) the interpreter of histories ---------------------------------------------------------------------------------------
// On return cur is the derived object.  STIR exceptions from the ops themselves propagate (the caller counts the case as a
// FAILURE: gen_history only generates calls inside the documented domain); exceptions in the intermediate use of a perturbed
// object are tolerated.  With al == nullptr the aliasing ops (fork, side, subset_side, recheck, "keep") are ignored.
inline Result
derive(shared_ptr<ProjDataInfo>& cur, const shared_ptr<Scanner>& sc, const json& hist, const json& final_trim, const json& arc_bin_size, Alias* al)
{
  cur = vg::make_pdi(sc, hist["src"]);
  if (!arc_bin_size.is_null())
    if (auto a = dynamic_cast<ProjDataInfoCylindricalArcCorr*>(cur.get()))
      a->set_tangential_sampling(arc_bin_size.get<float>());
  std::map<std::string, int> tof_saved_local;
  std::map<std::string, int>& tof_saved = al ? al->tof_saved : tof_saved_local;
  if (al)
    {
      al->hist = &hist;
      al->arc_bin_size = arc_bin_size;
    }
  const json& ops = hist["ops"];
  for (std::size_t iop = 0; iop < ops.size(); ++iop)
    {
      const json& op = ops[iop];
      const std::string what = op["op"];
      ProjDataInfoCylindrical* cyl = dynamic_cast<ProjDataInfoCylindrical*>(cur.get());
      // the ORIGINAL of a copying op stays alive and is re-checked later
      const shared_ptr<ProjDataInfo> before = cur;
      if (al && op.contains("keep") && (what == "clone" || what == "shared_clone" || what == "non_tof_clone" || what == "ssrb"))
        {
          Kept k;
          k.id = op["keep"].get<std::string>();
          k.how = cat("the original of the '", what, "' op");
          k.at = iop;
          k.obj = before;
          al->kept.push_back(k);
        }
      if (what == "use")
        warm(*cur, op["mask"].get<int>());
      else if (what == "clone")
        cur.reset(cur->clone());
      else if (what == "shared_clone")
        cur = cur->create_shared_clone();
      else if (what == "non_tof_clone")
        cur = cur->create_non_tof_clone();
      else if (what == "ssrb")
        {
          const ProjDataInfo& in = *cur;
          shared_ptr<ProjDataInfo> out;
          with_tof_tables_allowed_to_shrink([&]() {
            out.reset(SSRB(in, op["nseg"].get<int>(), op["nviews"].get<int>(), op["trim"].get<int>(), op["max_in_seg"].get<int>(), op["ntof"].get<int>()));
          });
          cur = out;
        }
      else if (what == "set_num_views")
        {
          cur->set_num_views(op["views"].get<int>());
          if (cyl && !dynamic_cast<ProjDataInfoGeneric*>(cur.get()))
            cyl->set_azimuthal_angle_offset(expected_azimuthal_offset(*sc, op["views"].get<int>()));
        }
      else if (what == "reduce_segment_range")
        cur->reduce_segment_range(op["min"].get<int>(), op["max"].get<int>());
      else if (what == "set_num_tangential_poss")
        cur->set_num_tangential_poss(op["n"].get<int>());
      else if (what == "set_min_tang")
        cur->set_min_tangential_pos_num(op["v"].get<int>());
      else if (what == "set_max_tang")
        cur->set_max_tangential_pos_num(op["v"].get<int>());
      else if (what == "set_tof_mash_factor")
        {
          ProjDataInfo& p = *cur;
          const int f = op["f"].get<int>();
          with_tof_tables_allowed_to_shrink([&]() { p.set_tof_mash_factor(f); });
        }
      else if (what == "perturb" || what == "restore")
        {
          // "perturb": set another value of a parameter; "restore": set the value of before (perturb carries "delta", restore
          // undoes the same delta)
          const std::string par = op["par"];
          apply_perturbation(*cur, *sc, op, what == "perturb" ? 1 : -1, tof_saved);
          // the object is used in its intermediate state
          const int mask = op.value("use", 0);
          if (mask && what == "perturb")
            {
              try
                {
                  warm(*cur, mask);
                  VH_TRY(centred(*cur, cat("after perturbing ", par).c_str()));
                  stats().count("history: intermediate (perturbed) objects used");
                }
              catch (const std::exception&)
                {
                  stats().count("history: intermediate (perturbed) objects that STIR rejects when used");
                }
            }
          else if (mask)
            {
              try
                {
                  warm(*cur, mask);
                }
              catch (const std::exception&)
                {
                  stats().count("history: intermediate (perturbed) objects that STIR rejects when used");
                }
            }
        }
      else if (what == "fork")
        {
          if (!al)
            continue;
          const std::string how = op.value("how", std::string("clone"));
          Kept k;
          k.id = op.value("id", std::string("?"));
          k.at = iop;
          if (how == "subset")
            {
              if (!al->opts.coords)
                continue;
              k.views = subset_views(op, cur->get_num_views());
              k.obj.reset(new ProjDataInfoSubsetByView(cur, k.views));
              k.subset = true;
              k.how = "a ProjDataInfoSubsetByView of the current object";
              use_subset(*k.obj);
            }
          else
            {
              k.obj = make_copy(cur, how, op, *al);
              k.non_tof = how == "non_tof_clone";
              k.how = cat("a copy (", how, ") of the current object, which was changed and used afterwards");
              if (op.value("use", 0))
                warm(*k.obj, op["use"].get<int>());
            }
          al->kept.push_back(k);
        }
      else if (what == "side")
        {
          if (!al)
            continue;
          // A = cur, B = copy of A [, C = copy of B, kept]; B gets another value of one parameter (never restored) and is used
          shared_ptr<ProjDataInfo> B = make_copy(cur, op.value("how", std::string("clone")), op, *al);
          if (op.contains("id"))
            {
              Kept k;
              k.id = op["id"].get<std::string>();
              k.at = iop;
              k.obj = make_copy(B, op.value("how2", std::string("clone")), op, *al);
              k.how = cat("a copy (", op.value("how2", std::string("clone")), ") of a copy (", op.value("how", std::string("clone")),
                          ") of the current object; the middle copy was changed (", op.value("par", std::string("?")), ") and used afterwards");
              if (op.value("use2", 0))
                warm(*k.obj, op["use2"].get<int>());
              al->kept.push_back(k);
            }
          apply_perturbation(*B, *sc, op, 1, tof_saved_local);
          try
            {
              warm(*B, op.value("use", 31));
              stats().count("aliasing: changed side copies used");
            }
          catch (const std::exception&)
            {
              stats().count("aliasing: changed side copies that STIR rejects when used");
            }
          if (op.value("hold", false))
            al->held.push_back(B);
        }
      else if (what == "subset_side")
        {
          if (!al || !al->opts.coords)
            continue;
          Kept k;
          k.id = op.value("id", std::string("?"));
          k.at = iop;
          k.views = subset_views(op, cur->get_num_views());
          k.obj.reset(new ProjDataInfoSubsetByView(cur, k.views));
          k.subset = true;
          k.how = cat("a ProjDataInfoSubsetByView of the current object; its clone was changed (", op.value("par", std::string("?")), ") and used afterwards");
          use_subset(*k.obj);
          shared_ptr<ProjDataInfo> sub2 = op.value("how", std::string("clone")) == "copy" ? copy_construct(*k.obj) : shared_ptr<ProjDataInfo>(k.obj->clone());
          apply_perturbation(*sub2, *sc, op, 1, tof_saved_local);
          try
            {
              use_subset(*sub2);
              stats().count("aliasing: changed clones of a subset used");
            }
          catch (const std::exception&)
            {
              stats().count("aliasing: changed clones of a subset that STIR rejects when used");
            }
          if (op.value("hold", false))
            al->held.push_back(sub2);
          al->kept.push_back(k);
        }
      else if (what == "recheck")
        {
          if (!al)
            continue;
          const std::string id = op.value("id", std::string("cur"));
          if (id == "cur")
            {
              shared_ptr<ProjDataInfo> twin = build_twin(*al, iop);
              const Result r = diff_twin(*cur, *twin, al->light);
              stats().count("aliasing: re-checks of the current object after a side copy of it was changed and used");
              if (r.failed())
                return Result::fail(cat("ALIASING: the current object (after ", iop, " ops of the history) no longer answers like a fresh twin of its own settings after a copy "
                                        "of it was changed and used :: ",
                                        r.msg));
            }
          else
            for (Kept& k : al->kept)
              if (k.id == id)
                VH_TRY(recheck_kept(*al, k, cat("after ", iop, " ops of the history"), true));
        }
      else
        return Result::fail("history: unknown op " + what);
    }
  apply_trim(*cur, final_trim);
  return Result::pass();
}

// ---- known finding H1 (C01) ----------------------------------------------------------------------------------------------------
// ProjDataInfoGeneric::get_axial_sampling() returns the ring spacing also for axially compressed segments ("TODO currently
// restricted to span=1", ProjDataInfoGeneric.inl:107-111).  The constructor of ProjDataInfoCylindrical builds the Michelogram tables
// with ITS OWN get_axial_sampling (virtual dispatch is not active yet: half the ring spacing for compressed segments, correct);
// every setter that invalidates the tables (reduce_segment_range, set_min/max_axial_pos_num, set_num_axial_poss_per_segment, ...)
// makes initialise_ring_diff_arrays() rebuild them with the override: m_offset doubles, all ring pairs of a compressed segment move
// by (number of axial positions - 1)/2 axial positions, the upper ones leave the axial range.  Blocks/generic data with span > 1
// whose Michelogram tables are rebuilt are therefore excluded by construction (VERIF_NO_EXCLUDE=1 switches the exclusion off).
inline bool
exclusions_off()
{
  // the defect is repaired in /repo (regression inputs replays/C01/fixed_H1*.json): the exclusion is permanently off,
  // blocks/generic data with span > 1 get table-rebuilding setters like everything else
  return true;
}
inline bool
op_rebuilds_michelogram(const json& op)
{
  const std::string what = op.value("op", std::string());
  if (what == "reduce_segment_range" || what == "ssrb")
    return true;
  if (what == "perturb" || what == "restore")
    {
      const std::string par = op.value("par", std::string());
      return par == "min_axial" || par == "max_axial" || par == "num_axial" || par == "ring_spacing" || par == "min_ring_diff" || par == "max_ring_diff";
    }
  return false;
}
//! signature of a case of the known finding H1, "" otherwise (judged on the JSON and the scanner geometry alone)
inline std::string
known_signature_H1(const json& c)
{
  if (exclusions_off() || !c.contains("pdi") || c["pdi"].value("span", 1) <= 1)
    return "";
  bool rebuilt = c["pdi"].contains("trim") && c["pdi"]["trim"].contains("max_seg"); // vg::make_pdi calls reduce_segment_range
  if (c.contains("hist") && c["hist"].is_object())
    for (const json& op : c["hist"]["ops"])
      if (op_rebuilds_michelogram(op))
        rebuilt = true;
  if (!rebuilt)
    return "";
  const json& sj = c["scanner"];
  std::string geom;
  if (sj.value("type", -1) >= 0)
    geom = Scanner(static_cast<Scanner::Type>(sj["type"].get<int>())).get_scanner_geometry();
  else
    geom = sj.value("geometry", std::string("Cylindrical"));
  return geom == "Cylindrical" ? "" : "C01:H1:blocks-or-generic:span>1:michelogram-tables-rebuilt-after-a-setter";
}
inline void
count_excluded_H1()
{
  stats().count("excluded:C01-H1 blocks/generic data with span>1: setter that rebuilds the Michelogram tables not generated");
  stats().excluded_known++;
}

// ---- generator ---------------------------------------------------------------------------------------------------------------
inline std::vector<int>
odd_divisors(int n)
{
  std::vector<int> v;
  for (int k = 1; k <= n; k += 2)
    if (n % k == 0)
      v.push_back(k);
  return v;
}

//! max ring difference of the complete segment J for a span (ProjDataInfo::ProjDataInfoCTI)
inline int
full_max_rd(int span, int J)
{
  return (span % 2 == 1 ? (span - 1) / 2 : span / 2) + J * span;
}

// ---- generator of the aliasing ops (a pass over the ops of a generated history) --------------------------------------------------
// Inserted blocks (each at a point where no perturbation of the current object is pending):
//   beta   fork K (clone | shared_clone | copy | assign | non_tof_clone | subset); perturb the CURRENT object and use it; re-check K;
//          restore [; re-check K]                                       "the copy must be unaffected by later setters + uses on X"
//   alpha  side: B = copy of the current object A [, C = copy of B, kept], B changed and used; re-check A [and C]
//                                                                       "X must be unaffected by setters + uses on its copy", chains
//   subset subset_side (C12 only): subset made and used, cloned, the clone changed and used; re-check the subset
// and "keep" marks on the copying ops of the history itself (clone / shared_clone / non_tof_clone / ssrb): the original is re-checked
// after the copy got the final parameters and was used.  Re-checks of kept objects are also inserted after the perturbations and
// setters of the history itself.
struct AliasGen
{
  bool cyl_geom = true, arc = false, with_subsets = false;
  std::vector<int> tof_legal; //!< legal TOF mashing factors of the scanner (0 = non-TOF), empty: no TOF
  json src, final_untrimmed;  //!< specs an "assign" target can be built from
  int max_blocks = 3;
};

// ---- known finding H2 (C12) ----------------------------------------------------------------------------------------------------
// ProjDataInfoSubsetByView has no copy constructor of its own: clone() ("virtual copy-constructor") copies the member
// shared_ptr<ProjDataInfo> org_proj_data_info_sptr, so a subset and its clone refer to ONE original object.  The setters the class
// overrides (reduce_segment_range, set_num_axial_poss_per_segment, set_min/max_axial_pos_num, set_num/min/max_tangential_pos_num)
// forward to that object: called on the clone they change the coordinates the FIRST subset reports (get_m shifts by half an axial
// sampling step after set_min_axial_pos_num on the clone; get_tantheta indexes the ring-difference tables out of range after
// reduce_segment_range on the clone), while the first subset's own ranges are unchanged.  The op "subset_side" is therefore not
// generated (counted as excluded:C12-H2) unless VERIF_NO_EXCLUDE is set; probe known/C12/H2_subset_clone_shares_original.json.
// When the repair (copy constructor / assignment that clone the original) is committed: let subset_clone_excluded() return false.
inline bool
subset_clone_excluded()
{
  // the defect is repaired in /repo (regression input replays/C12/fixed_H2_subset_clone_shares_original.json): the exclusion is
  // permanently off, clones of subsets are changed with setters like every other copy
  return false;
}

//! signature of a case of the known finding H2, "" otherwise
inline std::string
known_signature_H2(const json& c)
{
  if (!subset_clone_excluded() || !c.contains("hist") || !c["hist"].is_object() || !c["hist"].contains("ops"))
    return "";
  for (const json& op : c["hist"]["ops"])
    if (op.value("op", std::string()) == "subset_side")
      return "C12:H2:ProjDataInfoSubsetByView:clone-shares-original:setter-on-the-clone";
  return "";
}

inline json
add_alias_ops(Src& s, const json& ops_in, const AliasGen& g)
{
  json out = json::array();
  int open = 0, nid = 0, blocks = 0;
  std::vector<std::string> live;
  auto new_id = [&]() { return cat("k", nid++); };
  std::vector<std::string> pars = { "min_axial", "max_axial", "num_axial", "min_tang", "max_tang" };
  if (g.cyl_geom)
    for (const char* x : { "ring_spacing", "min_ring_diff", "max_ring_diff", "min_ring_diff", "max_ring_diff", "az_sampling", "az_offset" })
      pars.push_back(x);
  if (g.arc)
    pars.push_back("tang_sampling");
  if (g.tof_legal.size() > 1)
    pars.push_back("tof_mash");
  auto perturbation = [&](json base, bool side) {
    std::vector<std::string> pp = pars;
    if (side)
      { // a side copy is never restored: reduce_segment_range is possible as well, and the setters that change the ring pairs count twice
        pp.push_back("segs");
        pp.push_back("min_axial");
        pp.push_back("max_axial");
        pp.push_back("num_axial");
      }
    base["par"] = s.pick(pp);
    base["seg"] = int(s.range(-2, 2));
    base["delta"] = int(s.pick(std::vector<int>{ 1, -1, 2, -2 }));
    if (base["par"] == "tof_mash")
      {
        base["f"] = int(s.pick(g.tof_legal));
        base["slot"] = cat("a", nid++);
      }
    return base;
  };
  auto copy_kind = [&](bool may_drop_tof) {
    std::vector<std::string> k = { "clone", "clone", "shared_clone", "copy", "assign" };
    if (may_drop_tof && g.tof_legal.size() > 1)
      k.push_back("non_tof_clone");
    return s.pick(k);
  };
  auto with_other = [&](json o) {
    if (o.value("how", std::string()) == "assign" || o.value("how2", std::string()) == "assign")
      o["other"] = s.coin() ? g.src : g.final_untrimmed;
    return o;
  };
  auto use_mask = [&]() { return s.chance(3, 4) ? 31 : int(s.range(1, 31)); };
  auto block = [&]() {
    ++blocks;
    int kind = int(s.pick(std::vector<int>{ 0, 0, 1, 1, 1, 2 }));
    if (kind == 2 && !g.with_subsets)
      kind = int(s.range(0, 1));
    if (kind == 0)
      { // beta
        const std::string id = new_id();
        json f = { { "op", "fork" }, { "id", id }, { "use", s.chance(1, 2) ? use_mask() : 0 } };
        if (g.with_subsets && s.chance(1, 4))
          {
            f["how"] = "subset";
            const int ns = int(s.range(1, 4));
            f["num_subsets"] = ns;
            f["subset"] = int(s.range(0, ns - 1));
          }
        else
          f["how"] = copy_kind(true);
        out.push_back(with_other(f));
        live.push_back(id);
        const int n = int(s.range(1, 2));
        for (int i = 0; i < n; ++i)
          {
            json pj = perturbation({ { "op", "perturb" }, { "use", 31 } }, false);
            out.push_back(pj);
            out.push_back({ { "op", "recheck" }, { "id", id } });
            pj["op"] = "restore";
            pj["use"] = s.chance(1, 2) ? use_mask() : 0;
            out.push_back(pj);
          }
        if (s.chance(1, 3))
          out.push_back({ { "op", "recheck" }, { "id", id } });
      }
    else if (kind == 1)
      { // alpha
        json sd = perturbation({ { "op", "side" }, { "how", copy_kind(false) }, { "use", 31 }, { "hold", s.coin() } }, true);
        std::string id;
        if (s.chance(1, 2))
          {
            id = new_id();
            sd["id"] = id;
            sd["how2"] = copy_kind(false);
            sd["use2"] = s.coin() ? use_mask() : 0;
            live.push_back(id);
          }
        out.push_back(with_other(sd));
        out.push_back({ { "op", "recheck" }, { "id", "cur" } });
        if (!id.empty())
          out.push_back({ { "op", "recheck" }, { "id", id } });
      }
    else
      { // subset whose clone is changed (the setters ProjDataInfoSubsetByView overrides)
        if (subset_clone_excluded())
          {
            stats().count("excluded:C12-H2 clone of a ProjDataInfoSubsetByView changed with a setter: not generated");
            stats().excluded_known++;
            return;
          }
        const std::string id = new_id();
        const int ns = int(s.range(1, 4));
        json sj = { { "op", "subset_side" }, { "id", id }, { "num_subsets", ns }, { "subset", int(s.range(0, ns - 1)) }, { "how", s.chance(1, 4) ? "copy" : "clone" },
                    { "hold", s.coin() } };
        sj["par"] = s.pick(std::vector<std::string>{ "segs", "min_axial", "max_axial", "num_axial", "min_tang", "max_tang" });
        sj["seg"] = int(s.range(-2, 2));
        sj["delta"] = int(s.pick(std::vector<int>{ 1, -1, 2, -2 }));
        out.push_back(sj);
        out.push_back({ { "op", "recheck" }, { "id", id } });
        live.push_back(id);
      }
  };
  for (std::size_t i = 0; i < ops_in.size(); ++i)
    {
      json o = ops_in[i];
      const std::string what = o["op"];
      if (open == 0 && i >= 1 && blocks < g.max_blocks && s.chance(1, 3))
        block();
      if ((what == "clone" || what == "shared_clone" || what == "non_tof_clone" || what == "ssrb") && s.chance(3, 4))
        {
          const std::string id = new_id();
          o["keep"] = id;
          live.push_back(id);
        }
      out.push_back(o);
      if (what == "perturb")
        ++open;
      if (what == "restore")
        --open;
      if (!live.empty() && op_changes_settings(what) && what != "non_tof_clone" && what != "ssrb" && s.chance(1, 2))
        out.push_back({ { "op", "recheck" }, { "id", s.pick(live) } });
    }
  if (blocks == 0 || (blocks < g.max_blocks && s.chance(1, 3)))
    block();
  return out;
}

//! history for the final sampling F (a vg::gen_pdi spec) on scanner sc; json() = none possible
struct HistOpts
{
  bool with_subsets = false;            //!< the caller's property has the coordinates API (ProjDataInfoSubsetByView has only that)
  int alias_num = 1, alias_den = 2;     //!< share of the histories that get aliasing ops
  //! arc-corrected data: largest number of tangential positions for which every bin is inside the ring (get_LOR / get_tantheta assert
  //! |s| < R, ProjDataInfoCylindrical.cxx get_LOR, ProjDataInfoCylindrical.inl get_tantheta).  The source of a history is re-checked
  //! on all its bins when it is kept, so it has to stay inside that domain as well.  0: the source never has more positions than F
  int arc_max_tang = 0;
};
inline json
gen_history(Src& s, const shared_ptr<Scanner>& sc, const json& F, const HistOpts& ho = HistOpts())
{
  const bool with_subsets = ho.with_subsets;
  const int alias_num = ho.alias_num, alias_den = ho.alias_den;
  const bool cyl_geom = sc->get_scanner_geometry() == "Cylindrical";
  const int ndet = sc->get_num_detectors_per_ring(), rings = sc->get_num_rings();
  const bool arc = F["arccorr"].get<bool>() && cyl_geom;
  json Fb = F;
  Fb["trim"] = json::object();
  shared_ptr<ProjDataInfo> fb;
  try
    {
      fb = vg::make_pdi(sc, Fb);
    }
  catch (...)
    {
      return json();
    }
  const int S = F["span"].get<int>(), V = F["views"].get<int>(), T = F["tang"].get<int>(), tofF = F["tof_mash"].get<int>();
  const int J = fb->get_max_segment_num();
  const ProjDataInfoCylindrical& fc = dynamic_cast<const ProjDataInfoCylindrical&>(*fb);
  const bool aligned = fc.get_max_ring_difference(J) == full_max_rd(S, J) && fc.get_min_ring_difference(0) == -fc.get_max_ring_difference(0);
  const int M = std::max(1, ndet / 2 / V);
  const int Ntof = sc->is_tof_ready() ? sc->get_max_num_timing_poss() : 0;

  // known finding H1: no setter that rebuilds the Michelogram tables for blocks/generic data with axial compression
  const bool no_rebuild = !cyl_geom && S > 1 && !exclusions_off();
  json src = Fb;
  json ops = json::array();
  const int all = 31;
  auto use_mask = [&]() { return s.chance(3, 4) ? all : int(s.range(1, all)); };
  ops.push_back({ { "op", "use" }, { "mask", use_mask() } });

  // route: 0 clone only, 1 SSRB, 2 setters
  int route = cyl_geom ? int(s.pick(std::vector<int>{ 0, 1, 1, 1, 2, 2 })) : int(s.pick(std::vector<int>{ 0, 2, 2 }));

  // --- differences between source and final sampling ---
  // views (cylindrical only; Generic: "view mashing is not supported")
  int nv = 1;
  if (cyl_geom && route != 0 && M > 1 && s.chance(4, 5))
    {
      std::vector<int> d = vg::divisors(M);
      d.erase(d.begin()); // without 1
      nv = s.pick(d);
    }
  src["views"] = V * nv;
  // segments combined (SSRB only): odd span, all segments complete
  int k = 1;
  if (route == 1 && S % 2 == 1 && S >= 3 && aligned && s.chance(2, 3))
    {
      std::vector<int> d = odd_divisors(S);
      d.erase(d.begin());
      k = s.pick(d);
    }
  const int s_src = S / k;
  src["span"] = s_src;
  // extra (outer) segments of the source that the history drops
  int extra = 0;
  if (route != 0 && aligned && s.chance(1, 3))
    {
      const int room = (rings - 1 - F["max_delta"].get<int>()) / s_src;
      if (room > 0 && no_rebuild)
        count_excluded_H1();
      else if (room > 0)
        extra = int(s.range(1, std::min(2, room)));
    }
  src["max_delta"] = F["max_delta"].get<int>() + extra * s_src;
  // tangential positions
  int trim = 0;
  if (route != 0 && s.chance(1, 2))
    {
      const int max_t = arc ? std::min(T + 6, std::max(T, ho.arc_max_tang)) : sc->get_max_num_non_arccorrected_bins();
      const int src_t = int(s.range(1, std::max(1, max_t)));
      trim = src_t - T;
    }
  src["tang"] = T + trim;
  // TOF: source with a smaller (odd part) mashing factor, or TOF source for non-TOF data, or non-TOF source for TOF data (setters)
  int q = 1;
  bool drop_tof = false, add_tof = false;
  if (Ntof > 0 && cyl_geom && route != 0)
    {
      if (tofF > 0 && s.chance(1, 2))
        {
          q = s.pick(odd_divisors(tofF));
          src["tof_mash"] = tofF / q;
        }
      else if (tofF > 0 && route == 2 && s.chance(1, 4))
        {
          add_tof = true;
          src["tof_mash"] = 0;
        }
      else if (tofF == 0 && s.chance(1, 2))
        {
          std::vector<int> ok;
          for (int m = 1; m <= Ntof; ++m)
            if (Ntof % m == 0 && (Ntof / m) % 2 == 1)
              ok.push_back(m);
          if (!ok.empty())
            {
              drop_tof = true;
              src["tof_mash"] = s.pick(ok);
            }
        }
    }
  // the source must be constructible
  shared_ptr<ProjDataInfo> sb;
  try
    {
      sb = vg::make_pdi(sc, src);
    }
  catch (...)
    {
      return json();
    }
  const int Jsrc = sb->get_max_segment_num();

  auto maybe_clone = [&]() {
    if (s.chance(1, 3))
      ops.push_back({ { "op", s.coin() ? "clone" : "shared_clone" } });
  };
  auto maybe_use = [&]() {
    if (s.chance(2, 3))
      ops.push_back({ { "op", "use" }, { "mask", use_mask() } });
  };

  if (route == 0)
    {
      ops.push_back({ { "op", s.coin() ? "clone" : "shared_clone" } });
      if (s.chance(1, 3))
        {
          maybe_use();
          ops.push_back({ { "op", "clone" } });
        }
    }
  else if (route == 1)
    {
      maybe_clone();
      // out_max_segment = (max_in_segment_num_to_process - nseg/2) / nseg   (SSRB.cxx)
      const int lo = J * k + k / 2;
      int max_in = lo + int(s.range(0, std::max(0, std::min(k - 1, Jsrc - lo))));
      if (max_in > Jsrc)
        return json();
      if (Jsrc - k / 2 >= 0 && (Jsrc - k / 2) / k == J && s.coin())
        max_in = -1; // "do all segments"
      ops.push_back({ { "op", "ssrb" }, { "nseg", k }, { "nviews", nv }, { "trim", trim }, { "max_in_seg", max_in }, { "ntof", q } });
      if (drop_tof)
        {
          maybe_use();
          if (s.coin())
            ops.push_back({ { "op", "non_tof_clone" } });
          else
            ops.push_back({ { "op", "set_tof_mash_factor" }, { "f", 0 } });
        }
    }
  else
    {
      const bool in_place = s.coin();
      if (!in_place)
        ops.push_back({ { "op", s.coin() ? "clone" : "shared_clone" } });
      std::vector<json> todo;
      if (nv > 1 || (cyl_geom && s.chance(1, 4)) || (!cyl_geom && s.chance(1, 4)))
        todo.push_back({ { "op", "set_num_views" }, { "views", V } });
      if (extra > 0 || s.chance(1, 4))
        {
          if (no_rebuild)
            count_excluded_H1();
          else
            todo.push_back({ { "op", "reduce_segment_range" }, { "min", -J }, { "max", J } });
        }
      if (trim != 0 || s.chance(1, 4))
        {
          if (s.coin())
            todo.push_back({ { "op", "set_num_tangential_poss" }, { "n", T } });
          else
            { // the range the constructor gives to T positions (ProjDataInfo::set_num_tangential_poss)
              todo.push_back({ { "op", "set_min_tang" }, { "v", -(T / 2) } });
              todo.push_back({ { "op", "set_max_tang" }, { "v", -(T / 2) + T - 1 } });
            }
        }
      if (q > 1 || add_tof || (Ntof > 0 && cyl_geom && !drop_tof && s.chance(1, 4)))
        todo.push_back({ { "op", "set_tof_mash_factor" }, { "f", tofF } });
      if (drop_tof)
        todo.push_back(s.coin() ? json{ { "op", "non_tof_clone" } } : json{ { "op", "set_tof_mash_factor" }, { "f", 0 } });
      // the ops that establish the final parameters come in a random order, with uses between them
      for (std::size_t i = todo.size(); i > 1; --i)
        std::swap(todo[i - 1], todo[std::size_t(s.range(0, long(i) - 1))]);
      for (auto& o : todo)
        {
          ops.push_back(o);
          maybe_use();
        }
      // perturbations of the object that has its final parameters: set another value, use, ...; then the old values are set again
      // in a random order (with uses between them).  A restore undoes exactly the delta of its perturbation, so the perturbed
      // parameters must be independent of each other: at most one perturbation per parameter, and "num_axial"
      // (set_num_axial_poss_per_segment "sets min_axial_pos_per_seg to 0", ProjDataInfo.cxx:131) not together with "min_axial".
      std::vector<std::string> pars = { "min_axial", "max_axial", "num_axial", "min_tang", "max_tang" };
      if (cyl_geom)
        for (const char* x : { "ring_spacing", "min_ring_diff", "max_ring_diff", "az_sampling", "az_offset" })
          pars.push_back(x);
      if (arc)
        pars.push_back("tang_sampling");
      std::vector<int> tof_ok;
      if (Ntof > 0 && cyl_geom)
        {
          for (int m = 0; m <= Ntof; ++m)
            if (m != tofF && (m == 0 || (Ntof % m == 0 && (Ntof / m) % 2 == 1)))
              tof_ok.push_back(m);
          if (!tof_ok.empty())
            pars.push_back("tof_mash");
        }
      const int nper = int(s.range(0, 3));
      std::vector<json> restores;
      for (int i = 0; i < nper; ++i)
        {
          json pj = { { "op", "perturb" }, { "par", s.pick(pars) }, { "seg", int(s.range(-2, 2)) }, { "use", s.chance(3, 4) ? use_mask() : 0 } };
          const int d = int(s.pick(std::vector<int>{ 1, -1, 2, -2 }));
          const int f_other = tof_ok.empty() ? 0 : int(s.pick(tof_ok));
          const std::string par = pj["par"];
          bool clash = false;
          for (auto& r : restores)
            if ((par == "num_axial" && r["par"] == "min_axial") || (par == "min_axial" && r["par"] == "num_axial") || par == r["par"])
              clash = true;
          if (clash)
            continue;
          if (no_rebuild && op_rebuilds_michelogram(pj))
            {
              count_excluded_H1();
              continue;
            }
          pj["delta"] = d;
          if (par == "tof_mash")
            {
              pj["f"] = f_other;
              pj["f0"] = tofF;
            }
          ops.push_back(pj);
          json rj = pj;
          rj["op"] = "restore";
          rj["use"] = s.chance(1, 2) ? use_mask() : 0;
          restores.push_back(rj);
        }
      for (std::size_t i = restores.size(); i > 1; --i)
        std::swap(restores[i - 1], restores[std::size_t(s.range(0, long(i) - 1))]);
      for (auto& o : restores)
        ops.push_back(o);
    }
  if (s.chance(1, 4))
    {
      maybe_use();
      ops.push_back({ { "op", s.coin() ? "clone" : "shared_clone" } });
    }
  json h;
  h["src"] = src;
  h["ops"] = ops;
  h["route"] = route == 0 ? "clone" : (route == 1 ? "ssrb" : "setters");
  if (s.chance(alias_num, alias_den))
    {
      AliasGen g;
      g.cyl_geom = cyl_geom;
      g.arc = arc;
      g.with_subsets = with_subsets;
      if (Ntof > 0 && cyl_geom)
        for (int m = 0; m <= Ntof; ++m)
          if (m == 0 || (Ntof % m == 0 && (Ntof / m) % 2 == 1))
            g.tof_legal.push_back(m);
      g.src = src;
      g.final_untrimmed = Fb;
      h["ops"] = add_alias_ops(s, ops, g);
      h["alias"] = true;
    }
  return h;
}

inline void
count_history_classes(const json& hist)
{
  stats().cls(cat("history route: ", hist.value("route", std::string("given"))));
  for (const json& op : hist["ops"])
    {
      const std::string what = op["op"];
      if (what == "ssrb")
        {
          if (op["nviews"].get<int>() > 1)
            stats().cls("history: SSRB mashes views");
          if (op["nseg"].get<int>() > 1)
            stats().cls("history: SSRB combines segments");
          if (op["ntof"].get<int>() > 1)
            stats().cls("history: SSRB combines TOF bins");
          if (op["trim"].get<int>() != 0)
            stats().cls("history: SSRB changes the number of tangential positions");
        }
      else if (what == "perturb")
        stats().cls(cat("history: perturb ", op["par"].get<std::string>()));
      else if (what == "fork")
        stats().cls(cat("aliasing: copy kept (", op.value("how", std::string("clone")), "), original changed and used afterwards"));
      else if (what == "side")
        {
          stats().cls(op.contains("id") ? "aliasing: chain A -> B -> C, B changed and used, A and C re-checked" : "aliasing: side copy changed and used, original re-checked");
          stats().cls(cat("aliasing: side copy made by ", op.value("how", std::string("clone"))));
          stats().cls(cat("aliasing: side copy changed through ", op.value("par", std::string("?"))));
        }
      else if (what == "subset_side")
        stats().cls(cat("aliasing: subset cloned, clone changed through ", op.value("par", std::string("?")), " and used"));
      else if (what == "recheck")
        continue;
      else if (what != "use" && what != "restore")
        stats().cls("history: " + what);
      if (op.contains("keep"))
        stats().cls(cat("aliasing: original of a '", what, "' op kept and re-checked after the copy got the final parameters"));
    }
  stats().cls(hist.value("alias", false) ? "history with aliasing ops" : "history without aliasing ops");
}

// ---- (iii) fresh-twin differential ------------------------------------------------------------------------------------------
inline std::string
bs(const Bin& b)
{
  return cat("bin(seg=", b.segment_num(), ",ax=", b.axial_pos_num(), ",view=", b.view_num(), ",tang=", b.tangential_pos_num(), ",tof=", b.timing_pos_num(),
             ",value=", b.get_bin_value(), ")");
}
inline bool
same_bin(const Bin& a, const Bin& b)
{
  if ((a.get_bin_value() > 0) != (b.get_bin_value() > 0))
    return false;
  if (!(a.get_bin_value() > 0))
    return true; // "no such bin": the indices are not specified
  return a.segment_num() == b.segment_num() && a.axial_pos_num() == b.axial_pos_num() && a.view_num() == b.view_num()
         && a.tangential_pos_num() == b.tangential_pos_num() && a.timing_pos_num() == b.timing_pos_num();
}
inline bool
same_indices(const Bin& a, const Bin& b)
{
  return a.segment_num() == b.segment_num() && a.axial_pos_num() == b.axial_pos_num() && a.view_num() == b.view_num()
         && a.tangential_pos_num() == b.tangential_pos_num() && a.timing_pos_num() == b.timing_pos_num();
}

template <class PDI>
struct PairApi;
template <>
struct PairApi<ProjDataInfoCylindricalNoArcCorr>
{
  static const bool has_pairs = true;
  static void all(const ProjDataInfoCylindricalNoArcCorr& p, std::vector<DetectionPositionPair<>>& v, const Bin& b, bool ignore)
  {
    p.get_all_det_pos_pairs_for_bin(v, b, ignore);
  }
  static unsigned num(const ProjDataInfoCylindricalNoArcCorr& p, const Bin& b, bool ignore) { return p.get_num_det_pos_pairs_for_bin(b, ignore); }
};
template <>
struct PairApi<ProjDataInfoGenericNoArcCorr>
{
  static const bool has_pairs = true;
  static void all(const ProjDataInfoGenericNoArcCorr& p, std::vector<DetectionPositionPair<>>& v, const Bin& b, bool) { p.get_all_det_pos_pairs_for_bin(v, b); }
  static unsigned num(const ProjDataInfoGenericNoArcCorr& p, const Bin& b, bool) { return p.get_num_det_pos_pairs_for_bin(b); }
};

inline std::vector<int>
strided_list(int lo, int hi, int stride)
{
  std::vector<int> v;
  for (int i = lo; i <= hi; i += std::max(1, stride))
    v.push_back(i);
  if (!v.empty() && v.back() != hi)
    v.push_back(hi);
  return v;
}

// Tolerances of the differential.  Two objects of the same class with the same parameters execute the same float code, so every
// answer is expected to be bitwise equal, EXCEPT what depends on the azimuthal sampling and offset: a history computes them as
// (old sampling x old number of views) / new number (set_num_views) and old offset + old sampling x (n-1)/2 (SSRB), the
// constructor as pi/num_views and tilt + pi/(N/2) x (mash-1)/2: a few float ulps of pi apart.  tolerance 1e-6 relative to the
// natural unit for everything else (observed 0), 2e-5 rad for phi (observed maxima are recorded; a wrong view index moves phi by a
// view step >= pi/576 = 5e-3 rad).
const double TOL_SAME = 1e-6, TOL_PHI = 2e-5;

//! part of the differential that every ProjDataInfoCylindrical-derived class has
inline Result
diff_common(const ProjDataInfoCylindrical& d, const ProjDataInfoCylindrical& f, const DiffOpts& o, bool generic)
{
  VF_CHECK(d == f, "history: derived object != fresh twin (operator==)\n derived: ", d.parameter_info(), "\n fresh: ", f.parameter_info());
  VF_CHECK(f == d, "history: fresh twin != derived object (operator==, other direction)");
  VF_CHECK(d.get_min_segment_num() == f.get_min_segment_num() && d.get_max_segment_num() == f.get_max_segment_num(), "history: segment range differs");
  VF_CHECK(d.get_min_view_num() == f.get_min_view_num() && d.get_max_view_num() == f.get_max_view_num(), "history: view range differs");
  VF_CHECK(d.get_min_tangential_pos_num() == f.get_min_tangential_pos_num() && d.get_max_tangential_pos_num() == f.get_max_tangential_pos_num(),
           "history: tangential range differs: ", d.get_min_tangential_pos_num(), "..", d.get_max_tangential_pos_num(), " vs ", f.get_min_tangential_pos_num(),
           "..", f.get_max_tangential_pos_num());
  VF_CHECK(d.get_min_tof_pos_num() == f.get_min_tof_pos_num() && d.get_max_tof_pos_num() == f.get_max_tof_pos_num()
               && d.get_tof_mash_factor() == f.get_tof_mash_factor() && d.get_num_tof_poss() == f.get_num_tof_poss() && d.is_tof_data() == f.is_tof_data(),
           "history: TOF range / mashing differs: ", d.get_min_tof_pos_num(), "..", d.get_max_tof_pos_num(), " mash ", d.get_tof_mash_factor(), " vs ",
           f.get_min_tof_pos_num(), "..", f.get_max_tof_pos_num(), " mash ", f.get_tof_mash_factor());
  VF_CHECK(d.get_view_mashing_factor() == f.get_view_mashing_factor(), "history: view mashing factor differs");
  if (!generic)
    {
      VF_CHECK(std::fabs(d.get_azimuthal_angle_sampling() - f.get_azimuthal_angle_sampling()) <= 1e-5 * std::fabs(f.get_azimuthal_angle_sampling()),
               "history: azimuthal sampling ", d.get_azimuthal_angle_sampling(), " vs fresh ", f.get_azimuthal_angle_sampling());
      VF_CHECK(std::fabs(d.get_azimuthal_angle_offset() - f.get_azimuthal_angle_offset()) <= TOL_PHI, "history: azimuthal offset ", d.get_azimuthal_angle_offset(),
               " vs fresh ", f.get_azimuthal_angle_offset());
      stats().maxi("history: |azimuthal offset - fresh| (rad)", std::fabs(d.get_azimuthal_angle_offset() - f.get_azimuthal_angle_offset()));
      stats().maxi("history: rel |azimuthal sampling - fresh|",
                   std::fabs(d.get_azimuthal_angle_sampling() - f.get_azimuthal_angle_sampling()) / std::fabs(f.get_azimuthal_angle_sampling()));
      VF_CHECK(d.get_ring_radius() == f.get_ring_radius(), "history: ring radius differs");
    }
  VF_CHECK(d.ProjDataInfoCylindrical::get_ring_spacing() == f.ProjDataInfoCylindrical::get_ring_spacing(), "history: ring spacing differs");
  const int rings = f.get_scanner_ptr()->get_num_rings();
  // Michelogram
  for (int seg = f.get_min_segment_num(); seg <= f.get_max_segment_num(); ++seg)
    {
      VF_CHECK(d.get_min_axial_pos_num(seg) == f.get_min_axial_pos_num(seg) && d.get_max_axial_pos_num(seg) == f.get_max_axial_pos_num(seg),
               "history: axial range of segment ", seg, " differs: ", d.get_min_axial_pos_num(seg), "..", d.get_max_axial_pos_num(seg), " vs ",
               f.get_min_axial_pos_num(seg), "..", f.get_max_axial_pos_num(seg));
      VF_CHECK(d.get_min_ring_difference(seg) == f.get_min_ring_difference(seg) && d.get_max_ring_difference(seg) == f.get_max_ring_difference(seg)
                   && d.get_average_ring_difference(seg) == f.get_average_ring_difference(seg),
               "history: ring differences of segment ", seg, " differ");
      VF_CHECK(d.get_axial_sampling(seg) == f.get_axial_sampling(seg), "history: axial sampling of segment ", seg, " differs");
      for (int ax = f.get_min_axial_pos_num(seg); ax <= f.get_max_axial_pos_num(seg); ++ax)
        {
          const auto& rd = d.get_all_ring_pairs_for_segment_axial_pos_num(seg, ax);
          const auto& rf = f.get_all_ring_pairs_for_segment_axial_pos_num(seg, ax);
          VF_CHECK(rd == rf, "history: ring pairs of (seg ", seg, ", ax ", ax, ") differ from the fresh twin's: ", rd.size(), " vs ", rf.size(), " pairs");
          VF_CHECK(d.get_num_ring_pairs_for_segment_axial_pos_num(seg, ax) == f.get_num_ring_pairs_for_segment_axial_pos_num(seg, ax),
                   "history: number of ring pairs differs");
          if (rf.size() == 1 && f.get_min_ring_difference(seg) == f.get_max_ring_difference(seg))
            {
              int a1, a2, b1, b2;
              d.get_ring_pair_for_segment_axial_pos_num(a1, a2, seg, ax);
              f.get_ring_pair_for_segment_axial_pos_num(b1, b2, seg, ax);
              VF_CHECK(a1 == b1 && a2 == b2, "history: get_ring_pair_for_segment_axial_pos_num differs at (seg ", seg, ", ax ", ax, ")");
            }
        }
    }
  for (int r1 = 0; r1 < rings; ++r1)
    for (int r2 = 0; r2 < rings; ++r2)
      {
        int sd = 0, ad = 0, sf = 0, af = 0;
        const Succeeded okd = d.get_segment_axial_pos_num_for_ring_pair(sd, ad, r1, r2), okf = f.get_segment_axial_pos_num_for_ring_pair(sf, af, r1, r2);
        VF_CHECK(okd == okf && (okf == Succeeded::no || (sd == sf && ad == af)), "history: ring pair (", r1, ",", r2, ") -> ",
                 okd == Succeeded::yes ? cat("(seg ", sd, ", ax ", ad, ")") : std::string("none"), " but fresh twin -> ",
                 okf == Succeeded::yes ? cat("(seg ", sf, ", ax ", af, ")") : std::string("none"));
        int s1 = 0, s2 = 0;
        const Succeeded o1 = d.get_segment_num_for_ring_difference(s1, r2 - r1), o2 = f.get_segment_num_for_ring_difference(s2, r2 - r1);
        VF_CHECK(o1 == o2 && (o2 == Succeeded::no || s1 == s2), "history: segment for ring difference ", r2 - r1, " differs");
      }
  // TOF
  for (int k = f.get_min_tof_pos_num(); k <= f.get_max_tof_pos_num(); ++k)
    {
      const Bin b(0, 0, 0, 0, k);
      VF_CHECK(d.get_k(b) == f.get_k(b) && d.get_tof_delta_time(b) == f.get_tof_delta_time(b), "history: get_k / get_tof_delta_time of TOF bin ", k, ": ", d.get_k(b),
               " vs fresh ", f.get_k(b));
      if (f.is_tof_data())
        {
          VF_CHECK(d.tof_bin_boundaries_mm.get_min_index() <= k && d.tof_bin_boundaries_mm.get_max_index() >= k, "history: TOF boundary table too small");
          VF_CHECK(d.tof_bin_boundaries_mm[k].low_lim == f.tof_bin_boundaries_mm[k].low_lim && d.tof_bin_boundaries_mm[k].high_lim == f.tof_bin_boundaries_mm[k].high_lim
                       && d.tof_bin_boundaries_ps[k].low_lim == f.tof_bin_boundaries_ps[k].low_lim
                       && d.tof_bin_boundaries_ps[k].high_lim == f.tof_bin_boundaries_ps[k].high_lim,
                   "history: TOF bin boundaries of bin ", k, " differ from the fresh twin's");
          VF_CHECK(d.get_tof_bin(f.get_tof_delta_time(b)) == f.get_tof_bin(f.get_tof_delta_time(b)), "history: get_tof_bin of the centre of TOF bin ", k, " differs");
          VF_CHECK(d.get_sampling_in_k(b) == f.get_sampling_in_k(b), "history: get_sampling_in_k differs");
        }
    }
  if (f.is_tof_data())
    VF_CHECK(d.tof_bin_boundaries_mm.get_min_index() == f.tof_bin_boundaries_mm.get_min_index()
                 && d.tof_bin_boundaries_mm.get_max_index() == f.tof_bin_boundaries_mm.get_max_index(),
             "history: TOF boundary table has range ", d.tof_bin_boundaries_mm.get_min_index(), "..", d.tof_bin_boundaries_mm.get_max_index(), ", the fresh twin's ",
             f.tof_bin_boundaries_mm.get_min_index(), "..", f.tof_bin_boundaries_mm.get_max_index());
  // coordinates and LORs
  if (!o.coords)
    return Result::pass();
  const double R = generic ? 1. : double(f.get_ring_radius());
  long n = 0;
  for (int seg = f.get_min_segment_num(); seg <= f.get_max_segment_num(); ++seg)
    for (int ax : strided_list(f.get_min_axial_pos_num(seg), f.get_max_axial_pos_num(seg), o.ax_stride))
      for (int v : strided_list(f.get_min_view_num(), f.get_max_view_num(), o.view_stride))
        for (int t : strided_list(f.get_min_tangential_pos_num(), f.get_max_tangential_pos_num(), o.tang_stride))
          {
            ++n;
            const Bin b(seg, v, ax, t, 0, 1.f);
            const double sd = d.get_s(b), sf = f.get_s(b), md = d.get_m(b), mf = f.get_m(b), td = d.get_tantheta(b), tf = f.get_tantheta(b), pd = d.get_phi(b),
                         pf = f.get_phi(b);
            const double unit_s = generic ? std::max(1., std::fabs(sf)) : R;
            VF_CHECK(std::fabs(sd - sf) <= TOL_SAME * unit_s, "history: get_s=", sd, " but fresh twin ", sf, " at ", bs(b));
            VF_CHECK(std::fabs(md - mf) <= TOL_SAME * std::max(1., std::fabs(mf)), "history: get_m=", md, " but fresh twin ", mf, " at ", bs(b));
            VF_CHECK(std::fabs(td - tf) <= TOL_SAME * std::max(1e-3, std::fabs(tf)), "history: get_tantheta=", td, " but fresh twin ", tf, " at ", bs(b));
            VF_CHECK(std::fabs(pd - pf) <= TOL_PHI, "history: get_phi=", pd, " but fresh twin ", pf, " at ", bs(b));
            stats().maxi("history: |s - fresh| / unit", std::fabs(sd - sf) / unit_s);
            stats().maxi("history: |m - fresh| (mm)", std::fabs(md - mf));
            stats().maxi("history: |tantheta - fresh|", std::fabs(td - tf));
            stats().maxi("history: |phi - fresh| (rad)", std::fabs(pd - pf));
            // (generic data: ProjDataInfo::get_sampling_in_s evaluates get_s at tang+-1, outside the detector-pair table at the edge of
            // the widest range: known finding of C04, not part of this property)
            if (!generic)
              VF_CHECK(std::fabs(d.get_sampling_in_s(b) - f.get_sampling_in_s(b)) <= TOL_SAME * unit_s, "history: get_sampling_in_s differs at ", bs(b));
            VF_CHECK(d.get_sampling_in_m(b) == f.get_sampling_in_m(b), "history: get_sampling_in_m differs at ", bs(b));
            // the SAME LOR (the fresh twin's) through both get_bin: identical input, so the bins must be identical
            LORInAxialAndNoArcCorrSinogramCoordinates<float> lor;
            f.get_LOR(lor, b);
            LORAs2Points<float> lor2;
            if (lor.get_intersections_with_cylinder(lor2, lor.radius()) != Succeeded::yes)
              continue;
            const Bin bd = d.get_bin(lor2, 0.), bf = f.get_bin(lor2, 0.);
            VF_CHECK(same_bin(bd, bf), "history: get_bin(two points of the LOR of ", bs(b), ") = ", bs(bd), " but fresh twin ", bs(bf));
            if (!generic)
              {
                const Bin bd1 = d.get_bin(lor, 0.), bf1 = f.get_bin(lor, 0.);
                VF_CHECK(same_bin(bd1, bf1), "history: get_bin(LOR of ", bs(b), ") = ", bs(bd1), " but fresh twin ", bs(bf1));
              }
          }
  stats().count("history: bins compared with the fresh twin", n);
  return Result::pass();
}

//! the detector-pair API, for the classes that have it
template <class PDI>
inline Result
diff_pairs(const PDI& d, const PDI& f, const DiffOpts& o)
{
  const Scanner& sc = *f.get_scanner_ptr();
  const int ndet = sc.get_num_detectors_per_ring(), rings = sc.get_num_rings();
  const bool tof = f.is_tof_data();
  int tmin = 0, tmax = 0;
  if (tof)
    {
      tmin = -(sc.get_max_num_timing_poss() / 2) - 1;
      tmax = sc.get_max_num_timing_poss() / 2 + 1;
    }
  // pair -> bin
  //  A. all detector pairs (det_stride) x a corner set of ring pairs x all unmashed TOF indices
  //  B. (all_pairs) all ring pairs (ring_stride) x every 5th first detector (offset rotating with the ring pair) x all second
  //     detectors x the TOF indices {min, 0, max}
  long np = 0;
  auto compare = [&](int d1, int r1, int d2, int r2, int t) -> Result {
    ++np;
    const DetectionPositionPair<> dp(DetectionPosition<>(d1, r1), DetectionPosition<>(d2, r2), t);
    Bin bd, bf;
    const Succeeded okd = d.get_bin_for_det_pos_pair(bd, dp), okf = f.get_bin_for_det_pos_pair(bf, dp);
    VF_CHECK(okd == okf && (okf == Succeeded::no || same_indices(bd, bf)), "history: detector pair (", d1, ",", r1, ")-(", d2, ",", r2, "), t=", t, " -> ",
             okd == Succeeded::yes ? bs(bd) : std::string("none"), " but fresh twin -> ", okf == Succeeded::yes ? bs(bf) : std::string("none"));
    return Result::pass();
  };
  {
    std::vector<std::pair<int, int>> corner = { { 0, 0 }, { 0, rings - 1 }, { rings - 1, 0 }, { rings / 2, std::min(rings - 1, rings / 2 + 1) }, { rings - 1, rings - 1 } };
    std::sort(corner.begin(), corner.end());
    corner.erase(std::unique(corner.begin(), corner.end()), corner.end());
    for (auto& rp : corner)
      for (int d1 = 0; d1 < ndet; d1 += std::max(1, o.det_stride))
        for (int d2 = 0; d2 < ndet; ++d2)
          if (d1 != d2)
            for (int t = tmin; t <= tmax; ++t)
              VH_TRY(compare(d1, rp.first, d2, rp.second, t));
  }
  if (o.all_pairs)
    {
      int rot = 0;
      std::vector<int> ts = { tmin, 0, tmax };
      ts.erase(std::unique(ts.begin(), ts.end()), ts.end());
      for (int r1 : strided_list(0, rings - 1, o.ring_stride))
        for (int r2 : strided_list(0, rings - 1, o.ring_stride))
          {
            for (int d1 = (rot++) % 5; d1 < ndet; d1 += 5 * std::max(1, o.det_stride))
              for (int d2 = 0; d2 < ndet; ++d2)
                if (d1 != d2)
                  for (int t : ts)
                    VH_TRY(compare(d1, r1, d2, r2, t));
          }
    }
  stats().count("history: detector pairs compared with the fresh twin", np);
  // bin -> pairs
  std::vector<DetectionPositionPair<>> vd, vf;
  const bool odd_tof_mash = !tof || f.get_tof_mash_factor() % 2 == 1; // get_all_det_pos_pairs_for_bin asserts this for TOF multiplicity
  bool uncompressed = f.get_view_mashing_factor() == 1;
  for (int seg = f.get_min_segment_num(); seg <= f.get_max_segment_num(); ++seg)
    if (f.get_min_ring_difference(seg) != f.get_max_ring_difference(seg))
      uncompressed = false;
  for (int seg = f.get_min_segment_num(); seg <= f.get_max_segment_num(); ++seg)
    for (int ax : strided_list(f.get_min_axial_pos_num(seg), f.get_max_axial_pos_num(seg), o.ax_stride))
      for (int v : strided_list(f.get_min_view_num(), f.get_max_view_num(), o.view_stride))
        for (int t : strided_list(f.get_min_tangential_pos_num(), f.get_max_tangential_pos_num(), o.tang_stride))
          for (int k : strided_list(f.get_min_tof_pos_num(), f.get_max_tof_pos_num(), std::max(1, f.get_num_tof_poss() / 3)))
            {
              const Bin b(seg, v, ax, t, k, 1.f);
              for (int ignore = 0; ignore < 2; ++ignore)
                {
                  if (!ignore && !odd_tof_mash)
                    continue;
                  PairApi<PDI>::all(d, vd, b, ignore != 0);
                  PairApi<PDI>::all(f, vf, b, ignore != 0);
                  VF_CHECK(vd.size() == vf.size() && PairApi<PDI>::num(d, b, ignore != 0) == PairApi<PDI>::num(f, b, ignore != 0),
                           "history: number of detector pairs of ", bs(b), ": ", vd.size(), " but fresh twin ", vf.size());
                  for (std::size_t i = 0; i < vf.size(); ++i)
                    VF_CHECK(vd[i].pos1() == vf[i].pos1() && vd[i].pos2() == vf[i].pos2() && vd[i].timing_pos() == vf[i].timing_pos(),
                             "history: detector pair no. ", i, " of ", bs(b), " is (", vd[i].pos1().tangential_coord(), ",", vd[i].pos1().axial_coord(), ")-(",
                             vd[i].pos2().tangential_coord(), ",", vd[i].pos2().axial_coord(), ") t=", vd[i].timing_pos(), " but the fresh twin's (",
                             vf[i].pos1().tangential_coord(), ",", vf[i].pos1().axial_coord(), ")-(", vf[i].pos2().tangential_coord(), ",",
                             vf[i].pos2().axial_coord(), ") t=", vf[i].timing_pos());
                }
              if (uncompressed)
                {
                  DetectionPositionPair<> pd, pf;
                  d.get_det_pos_pair_for_bin(pd, b);
                  f.get_det_pos_pair_for_bin(pf, b);
                  VF_CHECK(pd.pos1() == pf.pos1() && pd.pos2() == pf.pos2() && pd.timing_pos() == pf.timing_pos(), "history: get_det_pos_pair_for_bin of ", bs(b),
                           " differs from the fresh twin's");
                }
            }
  return Result::pass();
}

//! the whole differential, dispatching on the class
inline Result
diff_twin(const ProjDataInfo& d, const ProjDataInfo& f, const DiffOpts& o)
{
  VF_CHECK(typeid(d) == typeid(f), "history: derived object has type ", typeid(d).name(), ", fresh twin ", typeid(f).name());
  const ProjDataInfoCylindrical* dc = dynamic_cast<const ProjDataInfoCylindrical*>(&d);
  const ProjDataInfoCylindrical* fc = dynamic_cast<const ProjDataInfoCylindrical*>(&f);
  VF_CHECK(dc && fc, "history: not a ProjDataInfoCylindrical");
  const bool generic = dynamic_cast<const ProjDataInfoGeneric*>(&f) != nullptr;
  VH_TRY(diff_common(*dc, *fc, o, generic));
  if (auto fn = dynamic_cast<const ProjDataInfoCylindricalNoArcCorr*>(&f))
    {
      VF_CHECK(dynamic_cast<const ProjDataInfoCylindricalNoArcCorr&>(d).get_angular_increment() == fn->get_angular_increment(), "history: angular increment differs");
      VH_TRY(diff_pairs(dynamic_cast<const ProjDataInfoCylindricalNoArcCorr&>(d), *fn, o));
    }
  else if (auto fg = dynamic_cast<const ProjDataInfoGenericNoArcCorr*>(&f))
    VH_TRY(diff_pairs(dynamic_cast<const ProjDataInfoGenericNoArcCorr&>(d), *fg, o));
  else if (auto fa = dynamic_cast<const ProjDataInfoCylindricalArcCorr*>(&f))
    VF_CHECK(dynamic_cast<const ProjDataInfoCylindricalArcCorr&>(d).get_tangential_sampling() == fa->get_tangential_sampling(), "history: tangential sampling differs");
  return Result::pass();
}

// ---- ProjDataInfoSubsetByView of a derived object (coordinates API only; C12) ---------------------------------------------------
// The subset "defers to the original object where possible" (ProjDataInfoSubsetByView.h): its constructor clones the (used, derived)
// object.  Every coordinate of a subset bin must be the fresh twin's coordinate of the original bin, and get_bin of the fresh twin's
// LOR must be the subset's image of the fresh twin's answer whenever that view belongs to the subset.
inline Result
diff_subset(const ProjDataInfoSubsetByView& sub, const ProjDataInfo& f, const std::vector<int>& views, const DiffOpts& o)
{
  const bool generic = dynamic_cast<const ProjDataInfoGeneric*>(&f) != nullptr;
  VF_CHECK(sub.get_num_views() == int(views.size()), "subset has ", sub.get_num_views(), " views for ", views.size(), " requested");
  VF_CHECK(sub.get_original_view_nums() == views, "subset reports other original views");
  // the ranges of the subset are those of the original (ProjDataInfoSubsetByView.cxx: "copy information across")
  VF_CHECK(sub.get_min_segment_num() == f.get_min_segment_num() && sub.get_max_segment_num() == f.get_max_segment_num(), "subset: segment range ",
           sub.get_min_segment_num(), "..", sub.get_max_segment_num(), " but the original's fresh twin has ", f.get_min_segment_num(), "..", f.get_max_segment_num());
  // (the tangential RANGE is not compared: the constructor passes the NUMBER of tangential positions to ProjDataInfo, which centres the
  //  range; for an original with a range that is not centred - only reachable with set_min/max_tangential_pos_num - the subset reports
  //  the centred range of the same length.  The property is about the coordinates of the original's bins, which are compared below.)
  VF_CHECK(sub.get_num_tangential_poss() == f.get_num_tangential_poss(), "subset: number of tangential positions differs from the original's fresh twin");
  for (int seg = f.get_min_segment_num(); seg <= f.get_max_segment_num(); ++seg)
    VF_CHECK(sub.get_min_axial_pos_num(seg) == f.get_min_axial_pos_num(seg) && sub.get_max_axial_pos_num(seg) == f.get_max_axial_pos_num(seg),
             "subset: axial range of segment ", seg, " differs from the original's fresh twin");
  std::vector<int> back(f.get_num_views(), -1);
  for (std::size_t i = 0; i < views.size(); ++i)
    back[views[i]] = int(i);
  long n = 0;
  for (int seg = f.get_min_segment_num(); seg <= f.get_max_segment_num(); ++seg)
    for (int ax : strided_list(f.get_min_axial_pos_num(seg), f.get_max_axial_pos_num(seg), o.ax_stride))
      for (int sv = 0; sv < int(views.size()); ++sv)
        for (int t : strided_list(f.get_min_tangential_pos_num(), f.get_max_tangential_pos_num(), o.tang_stride))
          {
            ++n;
            const Bin b(seg, sv, ax, t, 0, 1.f), ob(seg, views[sv], ax, t, 0, 1.f);
            VF_CHECK(same_indices(sub.get_original_bin(b), ob) && same_indices(sub.get_bin_from_original(ob), b), "subset: original bin mapping wrong at ", bs(b));
            VF_CHECK(std::fabs(sub.get_s(b) - f.get_s(ob)) <= TOL_SAME * std::max(1., std::fabs(double(f.get_s(ob)))), "subset: get_s=", sub.get_s(b), " but fresh twin ",
                     f.get_s(ob), " at original ", bs(ob));
            VF_CHECK(std::fabs(sub.get_m(b) - f.get_m(ob)) <= TOL_SAME * std::max(1., std::fabs(double(f.get_m(ob)))), "subset: get_m=", sub.get_m(b), " but fresh twin ",
                     f.get_m(ob), " at original ", bs(ob));
            VF_CHECK(std::fabs(sub.get_tantheta(b) - f.get_tantheta(ob)) <= TOL_SAME * std::max(1e-3, std::fabs(double(f.get_tantheta(ob)))), "subset: get_tantheta=",
                     sub.get_tantheta(b), " but fresh twin ", f.get_tantheta(ob), " at original ", bs(ob));
            VF_CHECK(std::fabs(sub.get_phi(b) - f.get_phi(ob)) <= TOL_PHI, "subset: get_phi=", sub.get_phi(b), " but fresh twin ", f.get_phi(ob), " at original ", bs(ob));
            LORInAxialAndNoArcCorrSinogramCoordinates<float> lor;
            f.get_LOR(lor, ob);
            LORAs2Points<float> lor2;
            if (lor.get_intersections_with_cylinder(lor2, lor.radius()) != Succeeded::yes)
              continue;
            const Bin bf = f.get_bin(lor2, 0.);
            if (bf.get_bin_value() > 0 && back[bf.view_num()] >= 0)
              {
                const Bin bsub = sub.get_bin(lor2, 0.);
                Bin want = bf;
                want.view_num() = back[bf.view_num()];
                VF_CHECK(same_bin(bsub, want), "subset: get_bin(LOR of original ", bs(ob), ") = ", bs(bsub), " but the fresh twin's answer maps to ", bs(want));
              }
            (void)generic;
          }
  stats().count("history: subset bins compared with the fresh twin", n);
  {
    const shared_ptr<const ProjDataInfo> org = sub.get_original_proj_data_info_sptr();
    VF_CHECK(org && *org == f && f == *org, "subset: get_original_proj_data_info_sptr() is not equal (operator==) to a fresh twin of the object the subset was made of\n original: ",
             org ? org->parameter_info() : std::string("(null)"), "\n fresh: ", f.parameter_info());
  }
  return Result::pass();
}

inline Result
check_subset(const shared_ptr<ProjDataInfo>& d, const ProjDataInfo& f, const std::vector<int>& views, const DiffOpts& o)
{
  const ProjDataInfoSubsetByView sub(d, views);
  return diff_subset(sub, f, views, o);
}

// ---- (v) the harness's OWN statement of the segments of construct_proj_data_info(span, max_delta) (+ the trim of the case) ---------
// (domain audit, DESIGN 12.8: the ring differences "covered" by a segment were read from get_min/max_ring_difference of the object
// under test in C01 clause 4 and in C12's own Michelogram, i.e. an oracle input taken from the code.)  Documented definition
// (ProjDataInfo.h, construct_proj_data_info: "span is used to denote the amount of axial compression ... Siemens/CTI odd span ...
// GE: segment 0 has span 3, while other segments have span 2. We call this span 2. As a generalisation any even span"; STIR glossary;
// the warning text of ProjDataInfoCTI: a 'smaller' last segment is kept up to max_delta):
//   segment 0 covers the ring differences -h0..h0 with h0 = (span-1)/2 (odd span) or span/2 (even span: span+1 ring differences),
//   segment s>0 the next span ring differences h0+1+(s-1)span .. h0+s span, cut at max_delta (it exists iff its first ring difference
//   is <= max_delta), segment -s the negated ring differences of segment s; reduce_segment_range(min,max) of the trim keeps min..max.
// Not stated for even span with max_delta < span/2 (segment 0 itself is cut, on the positive side only, by the implementation: the
// quirk PdiOpts::allow_clamped_seg0 generates on purpose; returns false).
struct OwnSegments
{
  int min_seg = 0, max_seg = 0;
  std::map<int, std::pair<int, int>> rd; //!< segment -> (min ring difference, max ring difference)
  bool covers(int ring_diff) const
  {
    for (auto& kv : rd)
      if (kv.second.first <= ring_diff && ring_diff <= kv.second.second)
        return true;
    return false;
  }
};
inline bool
own_segments(OwnSegments& o, const json& spec)
{
  const int span = spec["span"].get<int>(), max_delta = spec["max_delta"].get<int>();
  const int h0 = span % 2 == 1 ? (span - 1) / 2 : span / 2;
  if (max_delta < h0)
    return false;
  int J = 0;
  while (h0 + 1 + J * span <= max_delta)
    ++J;
  int lo = -J, hi = J;
  const json trim = spec.contains("trim") ? spec["trim"] : json::object();
  if (trim.contains("max_seg"))
    { // (the clamping of vg::make_pdi / apply_trim, on the harness's own J)
      hi = std::min(trim["max_seg"].get<int>(), J);
      lo = trim.contains("min_seg") ? std::max(trim["min_seg"].get<int>(), -J) : -hi;
    }
  o.min_seg = lo;
  o.max_seg = hi;
  o.rd.clear();
  for (int s = lo; s <= hi; ++s)
    {
      const int a = std::abs(s);
      int dlo = a == 0 ? -h0 : h0 + 1 + (a - 1) * span, dhi = a == 0 ? h0 : std::min(h0 + a * span, max_delta);
      o.rd[s] = s >= 0 ? std::make_pair(dlo, dhi) : std::make_pair(-dhi, -dlo);
    }
  return true;
}
//! the segments an object constructed from \a spec reports == the harness's own statement
inline Result
check_own_segments(const ProjDataInfo& p, const json& spec)
{
  const ProjDataInfoCylindrical* pc = dynamic_cast<const ProjDataInfoCylindrical*>(&p);
  OwnSegments o;
  if (!pc)
    return Result::pass();
  if (!own_segments(o, spec))
    {
      stats().count("own segment table: not stated (segment 0 itself cut by max_delta)");
      return Result::pass();
    }
  VF_CHECK(p.get_min_segment_num() == o.min_seg && p.get_max_segment_num() == o.max_seg, "span ", spec["span"].get<int>(), " max ring difference ",
           spec["max_delta"].get<int>(), " trim ", spec.value("trim", json::object()).dump(), ": segments ", p.get_min_segment_num(), "..", p.get_max_segment_num(),
           " but the definition of span gives ", o.min_seg, "..", o.max_seg);
  for (auto& kv : o.rd)
    VF_CHECK(pc->get_min_ring_difference(kv.first) == kv.second.first && pc->get_max_ring_difference(kv.first) == kv.second.second, "span ",
             spec["span"].get<int>(), " max ring difference ", spec["max_delta"].get<int>(), ": segment ", kv.first, " reports the ring differences ",
             pc->get_min_ring_difference(kv.first), "..", pc->get_max_ring_difference(kv.first), " but the definition of span gives ", kv.second.first, "..",
             kv.second.second);
  stats().count("own segment table: segments compared", long(o.rd.size()));
  return Result::pass();
}

//! The remaining index ranges of a freshly constructed object, stated from the parameters of the case (they decide which clauses run
//! in C01: odd TOF mashing -> fibres, no mashing -> mutual inverses; the code's own getters were used for that).  Documented in
//! ProjDataInfo.h: num_views / num_tangential_poss / tof_mash_factor arguments of construct_proj_data_info ("TOF mash factor = 0 will
//! produce nonTOF data"), set_num_tangential_poss ("min_tangential_pos_num = -(num_tang_poss/2)"), set_tof_mash_factor (number of TOF
//! bins = max_num_timing_poss / factor, centred); view mashing factor = (detectors per ring / 2) / num_views (ProjDataInfoCylindrical).
inline Result
check_own_sampling(const ProjDataInfo& p, const Scanner& sc, const json& spec)
{
  const int views = spec["views"].get<int>(), tang = spec["tang"].get<int>(), tofm = spec["tof_mash"].get<int>();
  VF_CHECK(p.get_num_views() == views && p.get_min_view_num() == 0 && p.get_max_view_num() == views - 1, "constructed with ", views, " views but reports ",
           p.get_min_view_num(), "..", p.get_max_view_num());
  if (const ProjDataInfoCylindrical* pc = dynamic_cast<const ProjDataInfoCylindrical*>(&p))
    if (sc.get_scanner_geometry() == "Cylindrical")
      VF_CHECK(pc->get_view_mashing_factor() == sc.get_num_detectors_per_ring() / 2 / views, "view mashing factor ", pc->get_view_mashing_factor(), " for ",
               sc.get_num_detectors_per_ring(), " detectors per ring and ", views, " views");
  int tmin = -(tang / 2), tmax = tmin + tang - 1;
  const json trim = spec.contains("trim") ? spec["trim"] : json::object();
  if (trim.contains("max_seg") && trim.value("tang_cut", 0) > 0 && tang > 2 * trim.value("tang_cut", 0) + 1)
    {
      tmin += trim.value("tang_cut", 0);
      tmax -= trim.value("tang_cut", 0);
    }
  VF_CHECK(p.get_min_tangential_pos_num() == tmin && p.get_max_tangential_pos_num() == tmax && p.get_num_tangential_poss() == tmax - tmin + 1, "constructed with ", tang,
           " tangential positions (trim ", trim.dump(), ") but reports ", p.get_min_tangential_pos_num(), "..", p.get_max_tangential_pos_num());
  const bool tof = tofm > 0 && sc.is_tof_ready();
  VF_CHECK(p.is_tof_data() == tof, "TOF mashing factor ", tofm, " on a scanner with ", sc.get_max_num_timing_poss(), " timing positions: is_tof_data() = ", p.is_tof_data());
  if (tof)
    {
      const int n = sc.get_max_num_timing_poss() / tofm;
      VF_CHECK(p.get_tof_mash_factor() == tofm && p.get_num_tof_poss() == n && p.get_min_tof_pos_num() == -(n / 2) && p.get_max_tof_pos_num() == -(n / 2) + n - 1,
               "TOF mashing factor ", tofm, " of ", sc.get_max_num_timing_poss(), " timing positions: reports factor ", p.get_tof_mash_factor(), ", TOF bins ",
               p.get_min_tof_pos_num(), "..", p.get_max_tof_pos_num());
    }
  else
    VF_CHECK(p.get_num_tof_poss() == 1 && p.get_min_tof_pos_num() == 0 && p.get_max_tof_pos_num() == 0, "non-TOF data report TOF bins ", p.get_min_tof_pos_num(), "..",
             p.get_max_tof_pos_num());
  return Result::pass();
}

} // namespace vh



// C17 — shared helpers of the three C17 harnesses (c17_registry, c17_keyparser, c17_headers).
//  * allocation guard: observes every allocation made during a guarded call; a single request above the
//    limit is recorded (plain flavour: refused with std::bad_alloc so that nothing is really allocated;
//    asan flavour: recorded through the sanitizer's malloc hook, requests above ASAN's
//    max_allocation_size_mb kill the process which the driver reports as a crash with the journalled case)
//  * per-process scratch directory under $VERIF_TMP, emptied after every case
//  * reference implementation of the documented keyword standardisation (interfile_keyword_functions.h)
//  * printable encoding of arbitrary bytes for the JSON case (nlohmann::json::dump refuses invalid UTF-8)
// This header defines the replaceable global operator new/delete in the plain flavour: include it in
// exactly one translation unit per binary (every C17 harness is a single TU).
#pragma once
#include "verif.h"
#include "stir/Verbosity.h"
#include <atomic>
#include <cstdlib>
#include <cstdio>
#include <cstring>
#include <new>
#include <string>
#include <vector>
#include <fstream>
#include <iostream>
#include <sstream>
#include <filesystem>
#include <unistd.h>

#if defined(__has_feature)
#  if __has_feature(address_sanitizer)
#    define C17_ASAN 1
#  endif
#endif
#if defined(__SANITIZE_ADDRESS__) && !defined(C17_ASAN)
#  define C17_ASAN 1
#endif

namespace c17 {

// ---------------------------------------------------------------------------------------------
// allocation guard
struct AllocState
{
  bool active = false;
  std::size_t limit = std::size_t(512) << 20; // the property's bound: 512 MiB from an input < 4 KiB
  std::size_t max_single = 0;
  std::size_t total = 0;
  std::size_t refused = 0; // size of the first request above the limit (0 = none)
};
inline AllocState&
alloc_state()
{
  static AllocState s;
  return s;
}
inline void
note_alloc(std::size_t n)
{
  AllocState& a = alloc_state();
  if (!a.active)
    return;
  a.total += n;
  if (n > a.max_single)
    a.max_single = n;
  if (n > a.limit && a.refused == 0)
    a.refused = n;
}
} // namespace c17

#ifdef C17_ASAN
extern "C" int __sanitizer_install_malloc_and_free_hooks(void (*malloc_hook)(const volatile void*, size_t), void (*free_hook)(const volatile void*));
extern "C" void __sanitizer_print_stack_trace();
namespace c17 {
inline void
asan_malloc_hook(const volatile void*, size_t n)
{
  const bool first = alloc_state().active && n > alloc_state().limit && alloc_state().refused == 0;
  note_alloc(n);
  if (first)
    {
      // the stack of the request goes to stderr: the isolating parent reads it to name the allocation site
      std::fprintf(stderr, "C17-BIG-ALLOC %zu bytes requested at\n", n);
      __sanitizer_print_stack_trace();
    }
}
inline void
asan_free_hook(const volatile void*)
{}
inline void
install_alloc_hooks()
{
  static bool done = false;
  if (!done)
    {
      done = true;
      __sanitizer_install_malloc_and_free_hooks(asan_malloc_hook, asan_free_hook);
    }
}
} // namespace c17
#else
// plain flavour: replace the global allocation functions (allowed by [replacement.functions]); a request
// above the limit while the guard is active is refused the way a real out-of-memory would be.
inline void*
c17_new_impl(std::size_t n)
{
  c17::note_alloc(n);
  if (c17::alloc_state().active && n > c17::alloc_state().limit)
    throw std::bad_alloc();
  void* p = std::malloc(n ? n : 1);
  if (!p)
    throw std::bad_alloc();
  return p;
}
void*
operator new(std::size_t n)
{
  return c17_new_impl(n);
}
void*
operator new[](std::size_t n)
{
  return c17_new_impl(n);
}
void
operator delete(void* p) noexcept
{
  std::free(p);
}
void
operator delete[](void* p) noexcept
{
  std::free(p);
}
void
operator delete(void* p, std::size_t) noexcept
{
  std::free(p);
}
void
operator delete[](void* p, std::size_t) noexcept
{
  std::free(p);
}
namespace c17 {
inline void
install_alloc_hooks()
{}
} // namespace c17
#endif

namespace c17 {
struct AllocGuard
{
  AllocGuard()
  {
    install_alloc_hooks();
    AllocState& a = alloc_state();
    a.max_single = a.total = a.refused = 0;
    a.active = true;
  }
  ~AllocGuard() { alloc_state().active = false; }
  void stop() { alloc_state().active = false; }
  std::size_t refused() const { return alloc_state().refused; }
  std::size_t max_single() const { return alloc_state().max_single; }
  std::size_t total() const { return alloc_state().total; }
};

inline bool
no_exclude()
{
  static const bool v = std::getenv("VERIF_NO_EXCLUDE") != nullptr;
  return v;
}

// ---------------------------------------------------------------------------------------------
// noise control: STIR's error() always writes to std::cerr and KeyParser writes some warnings with
// cerr << directly; a campaign produces millions of them
struct NullBuf : std::streambuf
{
  int overflow(int c) override { return c; }
  std::streamsize xsputn(const char*, std::streamsize n) override { return n; }
};
inline void
quiet()
{
  static bool done = false;
  const bool verbose = std::getenv("VERIF_VERBOSE") != nullptr;
  stir::Verbosity::set(verbose ? 2 : 0);
  if (!done && !verbose)
    {
      static NullBuf nb;
      std::cerr.rdbuf(&nb);
      std::clog.rdbuf(&nb);
    }
  done = true;
}

// ---------------------------------------------------------------------------------------------
// scratch directory
inline const std::string&
scratch_dir()
{
  static std::string d;
  if (d.empty())
    {
      const char* t = std::getenv("VERIF_TMP");
      std::string base = t ? std::string(t) : ("/tmp/verif_" + std::to_string(getpid()));
      std::error_code ec;
      std::filesystem::create_directories(base, ec);
      d = base + "/c17_" + std::to_string(getpid());
      std::filesystem::create_directories(d, ec);
    }
  return d;
}
inline void
clean_scratch()
{
  std::error_code ec;
  for (auto& e : std::filesystem::directory_iterator(scratch_dir(), ec))
    std::filesystem::remove_all(e.path(), ec);
}
struct ScratchCleaner
{
  ~ScratchCleaner() { clean_scratch(); }
};
inline void
write_file(const std::string& path, const std::string& bytes)
{
  std::ofstream f(path, std::ios::binary | std::ios::trunc);
  f.write(bytes.data(), std::streamsize(bytes.size()));
}
inline std::string
read_file(const std::string& path)
{
  std::ifstream f(path, std::ios::binary);
  std::ostringstream s;
  s << f.rdbuf();
  return s.str();
}

// ---------------------------------------------------------------------------------------------
// bytes <-> printable text for the JSON case: '%' and everything outside [0x20,0x7e] except '\n' and '\t'
// becomes %XX
inline std::string
enc(const std::string& b)
{
  static const char* hex = "0123456789ABCDEF";
  std::string o;
  o.reserve(b.size());
  for (unsigned char c : b)
    {
      if (c == '%' || ((c < 0x20 || c > 0x7e) && c != '\n' && c != '\t'))
        {
          o += '%';
          o += hex[c >> 4];
          o += hex[c & 15];
        }
      else
        o += char(c);
    }
  return o;
}
inline std::string
dec(const std::string& t)
{
  auto hv = [](char c) -> int {
    if (c >= '0' && c <= '9')
      return c - '0';
    if (c >= 'A' && c <= 'F')
      return c - 'A' + 10;
    if (c >= 'a' && c <= 'f')
      return c - 'a' + 10;
    return -1;
  };
  std::string o;
  for (std::size_t i = 0; i < t.size(); ++i)
    {
      if (t[i] == '%' && i + 2 < t.size() + 0 && hv(t[i + 1]) >= 0 && hv(t[i + 2]) >= 0)
        {
          o += char(hv(t[i + 1]) * 16 + hv(t[i + 2]));
          i += 2;
        }
      else
        o += t[i];
    }
  return o;
}

// ---------------------------------------------------------------------------------------------
// Reference keyword standardisation, written from the documentation in interfile_keyword_functions.h:
//   "space, tab, underscore, ! are all treated as white space; starting and trailing white space is
//    trimmed; repeated white space is replaced with a single space; all letters are made lowercase"
inline std::string
ref_standardise(const std::string& k)
{
  std::string o;
  bool pending_space = false;
  for (unsigned char c : k)
    {
      const bool ws = (c == ' ' || c == '\t' || c == '_' || c == '!');
      if (ws)
        {
          if (!o.empty())
            pending_space = true;
          continue;
        }
      if (pending_space)
        o += ' ';
      pending_space = false;
      o += char((c >= 'A' && c <= 'Z') ? c - 'A' + 'a' : c);
    }
  return o;
}

inline std::vector<std::string>
split_lines(const std::string& t)
{
  std::vector<std::string> v;
  std::string cur;
  for (char c : t)
    {
      if (c == '\n')
        {
          v.push_back(cur);
          cur.clear();
        }
      else
        cur += c;
    }
  if (!cur.empty())
    v.push_back(cur);
  return v;
}
inline std::string
join_lines(const std::vector<std::string>& v)
{
  std::string t;
  for (auto& l : v)
    {
      t += l;
      t += '\n';
    }
  return t;
}

} // namespace c17
